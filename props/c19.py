"""C19 — codec calls are pure.

Differential oracle against a fresh interpreter state: the checking process is a *zygote* (library imported, nothing
executed); a history of catalogue calls runs in forked child A, every call of it runs alone in its own forked child B_i;
observations must agree and argument buffers must be left unchanged (documented in-place Hamming repairs excepted).
Compound steps (scribble-and-repeat, argument re-use) check that caches / defaults never alias caller-visible mutable objects.
Related values (round 7): clusters of calls sharing a coarse key (enum fold targets, sibling codes / writers / modes, same-named
arguments, near-twins) run as circuits, X Y X triples and kept-alive batches; refused wrong-typed calls alternate with valid ones.
Wall-clock / randomness clause: two fresh interpreters with pinned clocks 400 days apart and different random streams
must agree on every parsing call; a third one (same clock, PYTHONMALLOC=debug) must agree on every call, which makes a
dependence on uninitialised memory (heap state left by earlier calls) visible.  Machinery: vp/purity.py.
"""
from __future__ import annotations

import json

from vp.core import Ctx, Fail, HarnessError, SubCheck, Tally
from vp.purity import (
    CATALOGUE, Bits, BitsVar, Cat, Choice, Const, Flag, Hex, HexVar, Int, ListOf, Map, OneOf, Rec, Seq, Vec, ZygotePair,
    PIN_DATES, args_strategy, canonical_calls, entry, fork_run, mode_families, reject_candidates, unusual_candidates, wrong_type_candidates,
)

LEVEL = "exploration"

_LIB_MODULES = """
okdmr.dmrlib.etsi.crc.crc okdmr.dmrlib.etsi.crc.crc8 okdmr.dmrlib.etsi.crc.crc9 okdmr.dmrlib.etsi.crc.crc16
okdmr.dmrlib.etsi.crc.crc32 okdmr.dmrlib.etsi.fec.five_bit_checksum okdmr.dmrlib.etsi.fec.hamming_7_4_3
okdmr.dmrlib.etsi.fec.hamming_13_9_3 okdmr.dmrlib.etsi.fec.hamming_15_11_3 okdmr.dmrlib.etsi.fec.hamming_16_11_4
okdmr.dmrlib.etsi.fec.hamming_17_12_3 okdmr.dmrlib.etsi.fec.golay_20_8_7 okdmr.dmrlib.etsi.fec.quadratic_residue_16_7_6
okdmr.dmrlib.etsi.fec.reed_solomon_12_9_4 okdmr.dmrlib.etsi.fec.bptc_196_96 okdmr.dmrlib.etsi.fec.vbptc_128_72
okdmr.dmrlib.etsi.fec.vbptc_68_28 okdmr.dmrlib.etsi.fec.vbptc_32_11 okdmr.dmrlib.etsi.fec.trellis
okdmr.dmrlib.etsi.layer2.burst okdmr.dmrlib.etsi.layer2.pdu.short_link_control
okdmr.dmrlib.etsi.layer3.pdu.udp_ipv4_compressed_header okdmr.dmrlib.etsi.layer3.elements.activity_id
okdmr.dmrlib.etsi.layer3.elements.position_error okdmr.dmrlib.etsi.layer3.elements.talker_alias_data_format
okdmr.dmrlib.etsi.layer3.elements.udp_port_identifier okdmr.dmrlib.etsi.layer3.elements.ip_address_identifier
okdmr.dmrlib.etsi.layer2.elements.slcos okdmr.dmrlib.etsi.layer2.elements.flcos okdmr.dmrlib.etsi.layer2.elements.lcss
okdmr.dmrlib.hytera.hytera_ipsc okdmr.dmrlib.hytera.hytera_ipsc_sync okdmr.dmrlib.hytera.hytera_ipsc_wakeup
okdmr.dmrlib.hytera.pdu.hdap okdmr.dmrlib.hytera.pdu.hrnp okdmr.dmrlib.hytera.pdu.hstrp
okdmr.dmrlib.hytera.pdu.radio_control_protocol okdmr.dmrlib.hytera.pdu.location_protocol
okdmr.dmrlib.hytera.pdu.text_message_protocol okdmr.dmrlib.hytera.pdu.radio_registration_service
okdmr.dmrlib.hytera.pdu.radio_ip okdmr.dmrlib.motorola.mbxml okdmr.dmrlib.motorola.lrrp okdmr.dmrlib.motorola.arrp
okdmr.dmrlib.motorola.text_messaging_service okdmr.dmrlib.motorola.automatic_registration_service
okdmr.dmrlib.utils.bits_bytes okdmr.dmrlib.utils.parsing okdmr.dmrlib.transmission.transmission_generator
""".split()

_IMPORTED = False


def import_library():
    """Import (and only import) every library module the catalogue uses: this is what makes a process a zygote."""
    global _IMPORTED
    if _IMPORTED:
        return
    import importlib

    for m in _LIB_MODULES:
        importlib.import_module(m)
    _IMPORTED = True


# ---------------------------------------------------------------------------------------------- captured vectors
# (inputs only - taken from the repository's tests; no expected values are used)

V_CSBK_BITS = [
    "100001000000000000000000000000000000010011100011101001000000010011100011100100011110101000011010",
    "100001010000000000000000001000000000010011100011100100010000010011100011101001000001110111110011",
    "100001110000000000000001010000010000000000000000001010000000000000000000000100010011000001010111",
    "100110010000000000001001000000001111011011010000000001110000000000000000000000000010110001101101",
    "101001000001000000000000000000000000000000000001100111000000000000000001100110100100101110010110",
    "101001100000000011000100001000010000011001101001111000000000011001101001110101100011011001110101",
    "101010000000000000110110100000001001011011010000000001111100000000000000110011101001101100111001",
    "101110000000000000000000000000000000000000000000011001010000000000000000110010101100010000101111",
    "101111010000000000000000000000010000000000000001100110100000000000000001100111000101011011001110",
]
V_DATA_HEADER = ["01402337fc2337fe000ff83a", "023a2337fc2337fe820081a3", "434e2337fe2337fc84781bd1", "4da123386323383b05005757",
                 "800500010627fce7001bacaf", "8DA000000100000101002B97", "8DA300000100000101002B97", "8DA30000010008350100B731"]
V_FULL_LC_10 = ["00000000000620baefe8", "00000000000920baef08", "00000000086520baef40", "0400da00520034005748",
                "050000420050002000e0", "060044006d0069007408", "070000720069006900a8"]
V_EMB_BITS = ["0001000111100010", "0001001110010001", "0001010100000111", "0001011101110100"]
V_SLOT_BITS = ["01010011111100101011"]
V_PI = ["211002177afc730000090dda"]
V_BURST33 = [
    "00e527076f2a4b0f03ed010115ddff57d75df5d6f145422817d6234b6e08802018"[:66],
    "015149880ba01b3816406c80c46d5d7f77fd757e32990118206005a02341391000"[:66],
    "2522222222a632b222222222560dff57d75df5dce2822222222791522222222c11"[:66],
    "3a1f36af232d7afda01bd78255bdff57d75df5d55c045c2e3361260e501f863363"[:66],
]
V_MMDVM = [
    "444d5244192807220000090028072290864b516baded847205ae0062959308849047f7d5dd57dfd9537a101efe3ed4206e153827e70139",
    "444d52440223383b2338630006690f632e40c70153df0a83b7a8282c2509625014fdff57d75df5dcadde429028c87ae3341e24191c003c",
    "444d52440320baef0000090020baef8100000001b9e881526173002a6bb9e8815261303000a0391173002a6bb9e881526173002a6b3334",
    "444d5244022338630008fd0023383be76f944918117b3090722540f9233581a285ed5d7f77fd75709464602846c3022109c3050079002f",
    "444d52440128072200000900280722a02b2d896f167b90897c009bb941434301840d5d7f77fd757d9d6b51e02230cac7011f149419002f",
    "444d52440923383b0008fd0006690fe33391012951dd0c4d8bb40ac413a86c5094fdff57d75df5dcadfa1268aaa87b82b9d8291910003c",
]
V_IPSC = [
    "5a5a5a5a0000000042000501020000002222eeee555533334000bd0000008000150000000800fd00230038003b0038003b00b41200447eb7ffffef0844400000fd0800003b382300",
    "5a5a5a5a0000000042000501020000002222dddd555500004000000000000000000000000000020002000000000000000000000000000000b2dd503250380c00000014000000ff01",
    "5a5a5a5a0300000041000501020000002222999911110000100038d424a26d410436c0dda2f46165307000904607a54d4715ff8e3685dd23255501e3000001000900000022072800",
    "5a5a5a5a8f00000043000501020000002222222255550000409c5e06ca0ac804e823d04aa04b9d1457ff5dd7dff52001600d7039003cc12d031c003cca0a01006f0000003c382300",
    "5a5a5a5a0000000042000501020000002222eeee11111111402800000000000000000000090028000700220068291110c8291110282a1110801d0067080901000900000022072800",
    "5a5a5a5aff00000041000501020000002222bbbb1111000040548adb76e648040a81cad1c5ba0176635063f37200816df708c868af68a235db99008e76e601000900000022072800",
    "5a5a5a5a0001000041000501020000002222cccc111100004006b83a07c49456750ece2681f6413100100000250e1c20ff8689eb34e57f442cc500f607c401000900000022072800",
    "5a5a5a5ad22b00004100050102000000222244445555000040950a391d32802bb93b9221c163bd1557ff5dd7d5f52d5c5211f0218729d34aaa06006d1d3200003b38230063382300",
    "5a5a5a5a0000000042000501010000001111eeee555511114028000000000000000000006f0023003700fa00342a2c10942a2c10f42a2c10835600f0360801006f000000fa372300",
]
V_RCP = ["024108050000d20400000e03", "0241880100006803", "0245b810000100040004000000fd080000fa372300c303",
         "0245b81000010005000000000000000000000000001F03", "02471808000000000000000000cb03", "0247880100006203",
         "02040005006400000001c403", "0204800600000f690600012903", "02c910050002000101014f03", "0241080500006f0000007503",
         "025284060000010A0003E95F03", "02528406000000E90300006A03", "02c7100900040b010601050012012303", "02c8b003000b0400a803"]
V_LP = ["08a0020032000000010a2110dd0000413138333634383236313031354e343731382e383035314530313835342e34333837302e313132310b03",
        "08a002003200000003002337fb0000410000000000000000000000004e353030332e383737314530313432362e353330320000000000007003",
        "08a00100080000000a0a2338637f03"]
V_TMP = ["0980a10022000000010a01b2070a03640e4f004c004900560045005200200054004500530054007a03",
         "0980a2000D000000010a01b2070a030000003103", "09c0a200120003000000020a01b2070a03000000010203e203",
         "0980B1001400000001000000010A000835610068006F006A000203"]
V_RRS = ["9100800009" + "0a000050000000" + "0e103103", "91000200040a0000140e03", "11008200050a00002100" + "8003",
         "110003000a0a2338630000000000" + "0003"]
V_HRNP = ["7e0400fe20100000000c60e1", "7e0300fe20100000000c60e2", "7e0400002010000100189b6002040005006400000001c403",
          "7e040000102000010019d6240204800600000f690600012903", "7e0400fd10200000000c70d2",
          "7e04000020100000001873890241080500006f0000007503", "7E04001010200001000C71BE",
          "7E040000102000010014857A0247880100006203", "7E040000102000030019FDF9025284060000010A0003E95F03",
          "7E04000010200004002767790980B1001400000001000000010A000835610068006F006A000203"]
V_HSTRP = ["32420020000183040001869f04010211000300040a000064bd03", "324200000001024108050000d20400000e03",
           "32420020001383040001869f0401010241880100006803",
           "32420020000b830400066b0e0401010245b810000100040004000000fd080000fa372300c303", "32420024000083040001869f040101",
           "324200020000", "324200010005"]
V_MBXML = ["071A22042468ACE0341F4DBC778051118ECD8D118AD47B00636C0006", "070C22042468ACE0390503515355", "090922042468ACE034313C",
           "0D0F22042468ACE066118ECD8D118AD47B", "0F0622042468ACE0", "110722042468ACE038",
           "1315232F341F4AD07B2E66474326660A4D56E46B0B5620", "1313232F341F99B20E87664728A1C70A38D29F561A",
           "0d162204c00000005148610c340ad0ecf70c126c003656a2", "0d1a22047fffffff69486109950ad0ecd28338156c000856a270400a",
           "050822042468ACE05162", "040E05054150434f22042468ACE05362"]
V_TMS = ["0003D00001", "00021F00", "00049F009520", "000DE0010195446100680" + "06F006A00"]
V_ARS = ["0007F0200231310000", "000131", "0010F5000231310939393939393939393900", "0002BF01", "000174", "00013F", "00033F1080"]
V_PARSE = V_IPSC[:3] + V_MMDVM[:2] + V_HRNP[:3] + V_HSTRP[:3] + V_LP[:1] + [
    "0011223344556677889900", "5a5a5a5a0000000014", "7e31d0100a000000140000005a5a595a00000000",
    "900005e30001920c00000000001500030000000000000000000000007efdfe7efefcfe7d7e7e7c7dfefefeff",
]

MASKS = ["PiHeader", "VoiceLCHeader", "TerminatorWithLC", "CSBK", "MBCHeader", "DataHeader", "UnifiedSingleBlockData",
         "Rate12DataContinuation", "Rate34DataContinuation", "Rate1DataContinuation", "ReverseChannel"]
CRC_CFGS = ["Crc7", "Crc8", "Crc9", "Crc16", "Crc32"]
HAMMINGS = {"h743": ("hamming_7_4_3", "Hamming743", 7, 4), "h1393": ("hamming_13_9_3", "Hamming1393", 13, 9),
            "h15113": ("hamming_15_11_3", "Hamming15113", 15, 11), "h16114": ("hamming_16_11_4", "Hamming16114", 16, 11),
            "h17123": ("hamming_17_12_3", "Hamming17123", 17, 12)}


def _mask(name):
    from okdmr.dmrlib.etsi.layer2.elements.crc_masks import CrcMasks

    return CrcMasks[name]


def _hamming(code):
    import importlib

    mod, cls, n, k = HAMMINGS[code]
    return getattr(importlib.import_module("okdmr.dmrlib.etsi.fec." + mod), cls)


# ---------------------------------------------------------------------------------------------- CRC


@entry("crc16.calculate", "crc", dict(data=HexVar(0, 24), mask=Choice(MASKS)))
def _(a, T):
    from okdmr.dmrlib.etsi.crc.crc16 import CRC16

    return CRC16.calculate(T.bytes(a["data"]), _mask(a["mask"]))


@entry("crc16.check", "crc", dict(data=HexVar(0, 24), crc=Int(0, 0xFFFF), mask=Choice(MASKS)))
def _(a, T):
    from okdmr.dmrlib.etsi.crc.crc16 import CRC16

    return CRC16.check(T.bytes(a["data"]), a["crc"], _mask(a["mask"]))


@entry("crc32.calculate", "crc", dict(data=HexVar(0, 24)))
def _(a, T):
    from okdmr.dmrlib.etsi.crc.crc32 import CRC32

    return CRC32.calculate(T.bytes(a["data"]))


@entry("crc32.check", "crc", dict(data=HexVar(0, 24), crc=Int(0, 0xFFFFFFFF)))
def _(a, T):
    from okdmr.dmrlib.etsi.crc.crc32 import CRC32

    return CRC32.check(T.bytes(a["data"]), a["crc"])


@entry("crc9.calculate", "crc", dict(bits=BitsVar(0, 200), mask=Choice(MASKS)))
def _(a, T):
    from okdmr.dmrlib.etsi.crc.crc9 import CRC9

    return CRC9.calculate(T.bits(a["bits"]), _mask(a["mask"]))


@entry("crc9.from_parts", "crc", dict(data=HexVar(0, 22), sn=Int(0, 127), mask=Choice(MASKS), crc32=OneOf(Const(None), Int(0, 0xFFFFFFFF), Hex(4))))
def _(a, T):
    from okdmr.dmrlib.etsi.crc.crc9 import CRC9

    c = a["crc32"]
    return CRC9.calculate_from_parts(T.bytes(a["data"]), a["sn"], _mask(a["mask"]), T.bytes(c) if isinstance(c, str) else c)


@entry("crc9.check", "crc", dict(data=HexVar(0, 22), sn=Int(0, 127), crc9=Int(0, 511), mask=Choice(MASKS)))
def _(a, T):
    from okdmr.dmrlib.etsi.crc.crc9 import CRC9

    return CRC9.check(T.bytes(a["data"]), a["sn"], a["crc9"], _mask(a["mask"]))


@entry("crc8.calculate", "crc", dict(bits=BitsVar(0, 80)))
def _(a, T):
    from okdmr.dmrlib.etsi.crc.crc8 import CRC8

    return CRC8.calculate(T.bits(a["bits"]))


@entry("crc8.check", "crc", dict(bits=BitsVar(0, 80), crc=Int(0, 255)))
def _(a, T):
    from okdmr.dmrlib.etsi.crc.crc8 import CRC8

    return CRC8.check(T.bits(a["bits"]), a["crc"])


@entry("crc.calculator", "crc", dict(cfg=Choice(CRC_CFGS), table=Flag(), bits=BitsVar(0, 120)),
       doc="a new BitCrcCalculator (both engine modes) over a public configuration")
def _(a, T):
    from okdmr.dmrlib.etsi.crc import crc

    calc = crc.BitCrcCalculator(getattr(crc, a["cfg"]).ETSI_DMR, table_based=a["table"])
    bits = T.bits(a["bits"])
    return (calc.calculate_checksum(bits), calc.calculate_checksum(bits))


@entry("crc.custom_configuration", "crc", dict(cfg=Choice(CRC_CFGS), init=Int(0, 127), xor=Int(0, 127), rin=Flag(), rout=Flag(), table=Flag(), bits=BitsVar(0, 120)),
       doc="BitCrcCalculator over a caller-made BitCrcConfiguration (init / final xor / reverse_input_bytes / reverse_output_bytes)", ncanon=4)
def _(a, T):
    from okdmr.dmrlib.etsi.crc import crc

    base = getattr(crc, a["cfg"]).ETSI_DMR.value
    cfg = crc.BitCrcConfiguration(polynomial=base.polynomial, width_bits=base.width_bits, init_value=a["init"], final_xor_value=a["xor"],
                                  reverse_input_bytes=a["rin"], reverse_output_bytes=a["rout"])
    return crc.BitCrcCalculator(cfg, table_based=a["table"]).calculate_checksum(T.bits(a["bits"]))


@entry("crc.shared_calculator", "crc", dict(which=Choice(["CRC8", "CRC9", "CRC16", "CRC32"]), bits=BitsVar(0, 120), expect=Int(0, 0xFFFF)),
       doc="calculate_checksum / verify_checksum on the class-level calculator the front ends share")
def _(a, T):
    import importlib

    cls = getattr(importlib.import_module("okdmr.dmrlib.etsi.crc." + a["which"].lower()), a["which"])
    bits = T.bits(a["bits"])
    return (cls.CALC.calculate_checksum(bits), cls.CALC.verify_checksum(bits, a["expect"]))


@entry("crc.register_workflow", "crc", dict(cfg=Choice(CRC_CFGS), table=Flag(), chunks=ListOf(BitsVar(0, 40), 1, 3)),
       doc="documented init / update* / digest workflow on a new register")
def _(a, T):
    from okdmr.dmrlib.etsi.crc import crc

    reg = (crc.TableBasedBitCrcRegister if a["table"] else crc.BitCrcRegister)(getattr(crc, a["cfg"]).ETSI_DMR)
    reg.init()
    ups = [reg.update(T.bits(c)) for c in a["chunks"]]
    return (ups, reg.digest(), reg.reverse())


@entry("crc.lookup_table", "crc", dict(cfg=Choice(CRC_CFGS)), doc="state probe: the lru_cache'd lookup table of a public configuration", ncanon=0, canon=[{"cfg": c} for c in CRC_CFGS], no_scribble=True)
def _(a, T):
    from okdmr.dmrlib.etsi.crc import crc

    c = getattr(crc, a["cfg"]).ETSI_DMR.value
    return crc.bits_create_lookup_table(c.width_bits, c.polynomial)


@entry("fivebit.calculate", "crc", dict(data=OneOf(HexVar(0, 9), Hex(9, alts=(10,)))))
def _(a, T):
    from okdmr.dmrlib.etsi.fec.five_bit_checksum import FiveBitChecksum

    return FiveBitChecksum.calculate(T.bytes(a["data"]))


@entry("fivebit.verify", "crc", dict(data=HexVar(0, 9), cs=Int(0, 30)))
def _(a, T):
    from okdmr.dmrlib.etsi.fec.five_bit_checksum import FiveBitChecksum

    return FiveBitChecksum.verify(T.bytes(a["data"]), a["cs"])


# ---------------------------------------------------------------------------------------------- block codes


def _code_bits(which):  # spec: {code, bits} with the right length for the code (n or k), sometimes another length
    return OneOf(*[Rec(code=Const(c), bits=Bits(HAMMINGS[c][which], alts=(HAMMINGS[c][which] - 1, HAMMINGS[c][which] + 1))) for c in HAMMINGS])


@entry("hamming.generate", "fec", dict(cb=_code_bits(3)), ncanon=6)
def _(a, T):
    return _hamming(a["cb"]["code"]).generate(T.bits(a["cb"]["bits"]))


@entry("hamming.check", "fec", dict(cb=_code_bits(2)), ncanon=6)
def _(a, T):
    return _hamming(a["cb"]["code"]).check(T.bits(a["cb"]["bits"]))


@entry("hamming.check_and_correct", "fec", dict(cb=_code_bits(2)), inplace=lambda a: True, ncanon=6,
       doc="documented in-place repair (argument buffer exempt)")
def _(a, T):
    return _hamming(a["cb"]["code"]).check_and_correct(T.bits(a["cb"]["bits"]))


@entry("hamming.correct_numpy_array", "fec", dict(cb=_code_bits(2)), ncanon=6)
def _(a, T):
    return _hamming(a["cb"]["code"]).correct_numpy_array(T.np([int(c) for c in a["cb"]["bits"]]))


@entry("hamming.encode_then_repair", "fec", dict(cb=_code_bits(3), flip=Int(0, 16), flip2=OneOf(Const(None), Const(None), Int(0, 16))),
       doc="generate, then the documented in-place repair applied to the *returned* codeword with one flipped bit (flip2: a second one - a double error, "
           "which the distance-4 code must report and the distance-3 codes miscorrect in their own fixed way)", ncanon=6)
def _(a, T):
    from okdmr.dmrlib.utils.bits_bytes import numpy_array_to_bitarray

    H = _hamming(a["cb"]["code"])
    cw = numpy_array_to_bitarray(H.generate(T.bits(a["cb"]["bits"])))
    cw.invert(a["flip"] % len(cw))
    if a.get("flip2") is not None and a["flip2"] % len(cw) != a["flip"] % len(cw):
        cw.invert(a["flip2"] % len(cw))
    return H.check_and_correct(cw)


@entry("golay.generate", "fec", dict(bits=Bits(8, alts=(7, 9))))
def _(a, T):
    from okdmr.dmrlib.etsi.fec.golay_20_8_7 import Golay2087

    return Golay2087.generate(T.bits(a["bits"]))


@entry("golay.check", "fec", dict(bits=Bits(20, alts=(19,))))
def _(a, T):
    from okdmr.dmrlib.etsi.fec.golay_20_8_7 import Golay2087

    return Golay2087.check(T.bits(a["bits"]))


@entry("qr.generate", "fec", dict(bits=Bits(7, alts=(8,))))
def _(a, T):
    from okdmr.dmrlib.etsi.fec.quadratic_residue_16_7_6 import QuadraticResidue1676

    return QuadraticResidue1676.generate(T.bits(a["bits"]))


@entry("qr.check", "fec", dict(bits=Bits(16, alts=(15,))))
def _(a, T):
    from okdmr.dmrlib.etsi.fec.quadratic_residue_16_7_6 import QuadraticResidue1676

    return QuadraticResidue1676.check(T.bits(a["bits"]))


@entry("rs.generate", "fec", dict(data=Hex(9, alts=(8, 10)), mask=Hex(3)))
def _(a, T):
    from okdmr.dmrlib.etsi.fec.reed_solomon_12_9_4 import ReedSolomon1294

    return ReedSolomon1294.generate(T.bytes(a["data"]), T.bytes(a["mask"]))


@entry("rs.check", "fec", dict(data=Hex(12, alts=(11,)), mask=Hex(3)))
def _(a, T):
    from okdmr.dmrlib.etsi.fec.reed_solomon_12_9_4 import ReedSolomon1294

    return ReedSolomon1294.check(T.bytes(a["data"]), T.bytes(a["mask"]))


# ---------------------------------------------------------------------------------------------- BPTC / VBPTC / trellis


@entry("bptc.encode", "bptc", dict(bits=Bits(96, alts=(196, 95))))
def _(a, T):
    from okdmr.dmrlib.etsi.fec.bptc_196_96 import BPTC19696

    return BPTC19696.encode(T.bits(a["bits"]))


@entry("bptc.deinterleave_data_bits", "bptc", dict(bits=Bits(196, alts=(195,)), repair=Flag()), parse=True)
def _(a, T):
    from okdmr.dmrlib.etsi.fec.bptc_196_96 import BPTC19696

    return BPTC19696.deinterleave_data_bits(T.bits(a["bits"]), a["repair"])


@entry("bptc.deinterleave_all_bits", "bptc", dict(bits=Bits(196, alts=(197,))), parse=True)
def _(a, T):
    from okdmr.dmrlib.etsi.fec.bptc_196_96 import BPTC19696

    return BPTC19696.deinterleave_all_bits(T.bits(a["bits"]))


@entry("bptc.repair_if_necessary", "bptc", dict(bits=Bits(196, alts=(96,)), deinterleaved=Flag()), parse=True,
       inplace=lambda a: bool(a["deinterleaved"]), doc="in-place only with deinterleaved=True (documented)")
def _(a, T):
    from okdmr.dmrlib.etsi.fec.bptc_196_96 import BPTC19696

    return BPTC19696.repair_if_necessary(T.bits(a["bits"]), a["deinterleaved"])


@entry("bptc.codeword_with_errors", "bptc", dict(bits=Bits(96), flips=ListOf(Int(0, 195), 0, 3), deinterleaved=Flag()), parse=True,
       doc="encode, flip, decode with repair; with deinterleaved=True the in-place repair works on the buffer deinterleave_all_bits returned")
def _(a, T):
    from okdmr.dmrlib.etsi.fec.bptc_196_96 import BPTC19696

    cw = BPTC19696.encode(T.bits(a["bits"]))
    for p in a["flips"]:
        cw.invert(p)
    if a["deinterleaved"]:
        d = BPTC19696.deinterleave_all_bits(cw)
        return BPTC19696.repair_if_necessary(d, True)
    return BPTC19696.deinterleave_data_bits(cw, True)


def _vb(name):
    import importlib

    mod, cls = {"v128": ("vbptc_128_72", "VBPTC12873"), "v68": ("vbptc_68_28", "VBPTC6828"), "v32": ("vbptc_32_11", "VBPTC3211")}[name]
    return getattr(importlib.import_module("okdmr.dmrlib.etsi.fec." + mod), cls)


@entry("vbptc128.encode", "bptc", dict(bits=Bits(72, alts=(77, 128, 71))))
def _(a, T):
    return _vb("v128").encode(T.bits(a["bits"]))


@entry("vbptc128.decode", "bptc", dict(bits=Bits(128, alts=(127,)), cs5=Flag()), parse=True)
def _(a, T):
    V, b = _vb("v128"), T.bits(a["bits"])
    return (V.deinterleave_data_bits(b, a["cs5"]), V.deinterleave_all_bits(b), V.deinterleave_cs5_bits(b))


@entry("vbptc68.encode", "bptc", dict(bits=Bits(28, alts=(36, 68, 27))))
def _(a, T):
    return _vb("v68").encode(T.bits(a["bits"]))


@entry("vbptc68.decode", "bptc", dict(bits=Bits(68, alts=(67,)), crc8=Flag()), parse=True)
def _(a, T):
    V, b = _vb("v68"), T.bits(a["bits"])
    return (V.deinterleave_data_bits(b, a["crc8"]), V.deinterleave_all_bits(b), V.deinterleave_crc8_bits(b))


@entry("vbptc32.encode", "bptc", dict(bits=Bits(11, alts=(32, 10)), even=Flag()))
def _(a, T):
    return _vb("v32").encode(T.bits(a["bits"]), a["even"])


@entry("vbptc32.decode", "bptc", dict(bits=Bits(32, alts=(31,))), parse=True)
def _(a, T):
    V, b = _vb("v32"), T.bits(a["bits"])
    return (V.deinterleave_data_bits(b), V.deinterleave_all_bits(b))


@entry("trellis.encode", "bptc", dict(src=OneOf(Rec(kind=Const("bits"), v=Bits(144, alts=(150, 143))), Rec(kind=Const("bytes"), v=Hex(18, alts=(19, 17))))))
def _(a, T):
    from okdmr.dmrlib.etsi.fec.trellis import Trellis34

    s = a["src"]
    return Trellis34.encode(T.bits(s["v"]) if s["kind"] == "bits" else T.bytes(s["v"]))


@entry("trellis.decode", "bptc", dict(src=Bits(144), flip=OneOf(Const(None), Int(0, 195)), as_bytes=Flag()), parse=True,
       doc="decode of an encoded block (optionally with one inverted bit)")
def _(a, T):
    from okdmr.dmrlib.etsi.fec.trellis import Trellis34

    enc = Trellis34.encode(T.bits(a["src"]))
    if a["flip"] is not None:
        enc.invert(a["flip"])
    T.track(enc, "encoded")
    return Trellis34.decode(enc, a["as_bytes"])


@entry("trellis.decode_raw", "bptc", dict(bits=Bits(196, alts=(195,))), parse=True)
def _(a, T):
    from okdmr.dmrlib.etsi.fec.trellis import Trellis34

    return Trellis34.decode(T.bits(a["bits"]))


@entry("trellis.stages", "bptc", dict(tribits=ListOf(Int(0, 7), 49, 49), cut=Choice([49, 49, 49, 48, 50])), parse=True, ncanon=2,
       doc="the public stage helpers on an ARBITRARY tribit path - the last ('flush') tribit included, which this library's own encoder always sets "
           "to 0: tribits_to_points, points_to_dibits, interleave, dibits_to_bits; then decode of that stream (a valid trellis path as a receiver may "
           "get it) and the decoder's stage helpers on it")
def _(a, T):
    from array import array

    from okdmr.dmrlib.etsi.fec.trellis import Trellis34 as Tr

    tri = T.track(array("B", a["tribits"][: a["cut"]] + [0] * max(0, a["cut"] - 49)), "tribits")
    points = Tr.tribits_to_points(tri)
    stream = Tr.dibits_to_bits(Tr.interleave(Tr.points_to_dibits(points)))
    T.track(stream, "stream")
    back = Tr.dibits_to_points(Tr.deinterleave(Tr.bits_to_dibits(stream)))
    return (points, stream, Tr.decode(stream), back, Tr.points_to_tribits(back), Tr.tribits_to_bits(tri))


@entry("rs.helpers", "fec", dict(x=Int(0, 255), y=Int(0, 255), data=Hex(3), mask=Hex(3)), ncanon=2, doc="ReedSolomon1294.log_multiply / xor_bytes")
def _(a, T):
    from okdmr.dmrlib.etsi.fec.reed_solomon_12_9_4 import ReedSolomon1294 as R

    return (R.log_multiply(a["x"], a["y"]), R.log_multiply(a["y"], a["x"]), R.xor_bytes(T.bytes(a["data"]), T.bytes(a["mask"])))


@entry("fec.syndrome", "fec", dict(cb=_code_bits(2)), ncanon=2, doc="fec_utils.get_syndrome_for_word(word, parity check matrix of the code)")
def _(a, T):
    from okdmr.dmrlib.etsi.fec.fec_utils import get_syndrome_for_word

    H = _hamming(a["cb"]["code"])
    return get_syndrome_for_word(T.np([int(c) for c in a["cb"]["bits"]], "word"), H.PARITY_CHECK_MATRIX)


# ---------------------------------------------------------------------------------------------- bit / byte utilities


@entry("bits.byteswap_bytes", "bits", dict(data=HexVar(0, 12)))
def _(a, T):
    from okdmr.dmrlib.utils.bits_bytes import byteswap_bytes

    return byteswap_bytes(T.bytes(a["data"]))


@entry("bits.byteswap_bytearray", "bits", dict(data=HexVar(0, 12)))
def _(a, T):
    from okdmr.dmrlib.utils.bits_bytes import byteswap_bytearray

    return byteswap_bytearray(T.bytearray(a["data"], "data"))


@entry("bits.bytes_to_bits", "bits", dict(data=HexVar(0, 12), endian=Choice(["big", "little"])))
def _(a, T):
    from okdmr.dmrlib.utils.bits_bytes import bits_to_bytes, bytes_to_bits

    b = bytes_to_bits(T.bytes(a["data"]), a["endian"])
    return (b, bits_to_bytes(b))


@entry("bits.bits_to_bytes", "bits", dict(bits=BitsVar(0, 70)))
def _(a, T):
    from okdmr.dmrlib.utils.bits_bytes import bits_to_bytes

    return bits_to_bytes(T.bits(a["bits"]))


@entry("bits.numpy", "bits", dict(bits=BitsVar(1, 40)))
def _(a, T):
    from okdmr.dmrlib.utils import bits_bytes as bb

    arr = T.np([int(c) for c in a["bits"]], "array")
    return (bb.numpy_array_to_int(arr), bb.numpy_array_to_bitarray(arr), bb.bitarray_to_numpy_array(T.bits(a["bits"])))


@entry("bits.half_byte_to_bytes", "bits", dict(v=Int(0, 15), n=Int(0, 4)))
def _(a, T):
    from okdmr.dmrlib.utils.bits_bytes import half_byte_to_bytes

    return half_byte_to_bytes(a["v"], a["n"])


# ---------------------------------------------------------------------------------------------- layer-2 / layer-3 PDUs

CSBKO_IMPL = {"HyteraIPSCSync": 0b001000, "UnitToUnitVoiceServiceRequest": 0b000100, "UnitToUnitVoiceServiceAnswerResponse": 0b000101,
              "ChannelTimingCSBK": 0b000111, "NegativeAcknowledgementResponse": 0b100110, "BSOutboundActivation": 0b111000,
              "PreambleCSBK": 0b111101, "AlohaPDUsForRandomAccessProtocol": 0b011001, "AnnouncementPDUsWithoutResponse": 0b101000}
FIDS = ["00000000", "00010000", "01101000", "00000100"]


def _crc_field(n):
    return OneOf(Bits(n), Const("0" * n))


S_CSBK = OneOf(Vec(V_CSBK_BITS, bits=True),
               Cat(Bits(2), Choice([format(v, "06b") for v in CSBKO_IMPL.values()]), Choice(FIDS), Bits(64), _crc_field(16)),
               Bits(96, alts=(95, 104)))


@entry("csbk.from_bits", "pdu", dict(bits=S_CSBK), parse=True, ncanon=5)
def _(a, T):
    from okdmr.dmrlib.etsi.layer2.pdu.csbk import CSBK

    return CSBK.from_bits(T.bits(a["bits"]))


@entry("csbk.from_bytes", "pdu", dict(data=OneOf(Hex(12, alts=(11, 13)), Vec(["bd00" + "00" * 10, "b80000000000650000ca" + "c42f"]))), parse=True)
def _(a, T):
    from okdmr.dmrlib.etsi.layer2.pdu.csbk import CSBK

    return CSBK.from_bytes(T.bytes(a["data"]))


@entry("csbk.new_default", "pdu", dict(csbko=Choice(["BSOutboundActivation", "PreambleCSBK", "ChannelTimingCSBK", "AlohaPDUsForRandomAccessProtocol",
                                                     "AnnouncementPDUsWithoutResponse", "HyteraIPSCSync"]),
                                       src=Int(0, 0xFFFFFF), dst=Int(0, 0xFFFFFF)),
       doc="constructor with default arguments (default broadcast_params bitarray, raw_data, crc to be calculated)", ncanon=6)
def _(a, T):
    from okdmr.dmrlib.etsi.layer2.elements.csbk_opcodes import CsbkOpcodes
    from okdmr.dmrlib.etsi.layer2.pdu.csbk import CSBK

    return CSBK(csbko=CsbkOpcodes[a["csbko"]], source_address=a["src"], target_address=a["dst"])


DPFS = {"UnifiedDataTransport": "0000", "ResponsePacket": "0001", "DataPacketUnconfirmed": "0010", "DataPacketConfirmed": "0011", "ShortDataDefined": "1101"}
SAPS = ["0000", "0010", "0011", "0100", "0101", "1001", "1010"]
S_DATA_HEADER_BITS = OneOf(Cat(Bits(4), Choice(list(DPFS.values())), Choice(SAPS), Bits(4), Bits(48), Bits(16), _crc_field(16)), Bits(96, alts=(80,)))


@entry("data_header.from_bits", "pdu", dict(bits=S_DATA_HEADER_BITS), parse=True, ncanon=4)
def _(a, T):
    from okdmr.dmrlib.etsi.layer2.pdu.data_header import DataHeader

    return DataHeader.from_bits(T.bits(a["bits"]))


@entry("data_header.from_bytes", "pdu", dict(data=Vec(V_DATA_HEADER)), parse=True, ncanon=5)
def _(a, T):
    from okdmr.dmrlib.etsi.layer2.pdu.data_header import DataHeader

    return DataHeader.from_bytes(T.bytes(a["data"]))


@entry("data_header.new_default", "pdu", dict(dpf=Choice(["ShortDataDefined", "DataPacketUnconfirmed", "ResponsePacket"]), src=Int(0, 0xFFFFFF), dst=Int(0, 0xFFFFFF),
                                              ab=Int(0, 63)),
       doc="constructor with default arguments (default bit_padding bitarray, crc to be calculated)")
def _(a, T):
    from okdmr.dmrlib.etsi.layer2.elements.data_packet_formats import DataPacketFormats
    from okdmr.dmrlib.etsi.layer2.elements.defined_data_formats import DefinedDataFormats
    from okdmr.dmrlib.etsi.layer2.elements.full_message_flag import FullMessageFlag
    from okdmr.dmrlib.etsi.layer2.elements.sap_identifier import SAPIdentifier
    from okdmr.dmrlib.etsi.layer2.elements.sarq import SARQ
    from okdmr.dmrlib.etsi.layer2.pdu.data_header import DataHeader

    return DataHeader(dpf=DataPacketFormats[a["dpf"]], sap_identifier=SAPIdentifier.ShortData, llid_source=a["src"], llid_destination=a["dst"],
                      appended_blocks=a["ab"], blocks_to_follow=a["ab"], defined_data_format=DefinedDataFormats.Binary, sarq=SARQ.NotRequired,
                      full_message_flag=FullMessageFlag.FirstTryToCompletePacket)


FLCOS = ["000000", "000011", "000100", "000101", "000110", "000111", "001000"]
S_FLC_BITS = OneOf(Cat(Bits(2), Choice(FLCOS), Choice(FIDS), Bits(56), Bits(24)), Cat(Bits(2), Choice(FLCOS), Choice(FIDS), Bits(56), Bits(5)), Bits(96, alts=(77, 80)))


@entry("full_lc.from_bits", "pdu", dict(bits=S_FLC_BITS), parse=True, ncanon=5)
def _(a, T):
    from okdmr.dmrlib.etsi.layer2.pdu.full_link_control import FullLinkControl

    return FullLinkControl.from_bits(T.bits(a["bits"]))


@entry("full_lc.from_bytes", "pdu", dict(data=OneOf(Vec(V_FULL_LC_10), Hex(12, alts=(10,)))), parse=True, ncanon=5)
def _(a, T):
    from okdmr.dmrlib.etsi.layer2.pdu.full_link_control import FullLinkControl

    return FullLinkControl.from_bytes(T.bytes(a["data"]))


@entry("short_lc.from_bits", "pdu", dict(bits=OneOf(Cat(Choice(["0000", "0001"]), Bits(24), _crc_field(8)), Bits(36, alts=(35, 40)))), parse=True, ncanon=4)
def _(a, T):
    from okdmr.dmrlib.etsi.layer2.pdu.short_link_control import ShortLinkControl

    return ShortLinkControl.from_bits(T.bits(a["bits"]))


@entry("pi_header.from_bits", "pdu", dict(bits=OneOf(Bits(96, alts=(80,)), Vec([format(int(V_PI[0], 16), "096b")], bits=True))), parse=True)
def _(a, T):
    from okdmr.dmrlib.etsi.layer2.pdu.pi_header import PIHeader

    return PIHeader.from_bits(T.bits(a["bits"]))


@entry("slot_type.from_bits", "pdu", dict(bits=OneOf(Bits(20, alts=(19,)), Vec(V_SLOT_BITS, bits=True), Cat(Bits(8), Const("0" * 12)))), parse=True, ncanon=4)
def _(a, T):
    from okdmr.dmrlib.etsi.layer2.pdu.slot_type import SlotType

    return SlotType.from_bits(T.bits(a["bits"]))


@entry("slot_type.new", "pdu", dict(cc=Int(0, 15), dt=Int(0, 15), parity=OneOf(Const(0), Int(0, 4095))))
def _(a, T):
    from okdmr.dmrlib.etsi.layer2.pdu.slot_type import SlotType

    return SlotType(a["cc"], a["dt"], a["parity"])


@entry("emb.from_bits", "pdu", dict(bits=OneOf(Bits(16, alts=(15,)), Vec(V_EMB_BITS, bits=True), Cat(Bits(7), Const("0" * 9)))), parse=True, ncanon=4)
def _(a, T):
    from okdmr.dmrlib.etsi.layer2.pdu.embedded_signalling import EmbeddedSignalling

    return EmbeddedSignalling.from_bits(T.bits(a["bits"]))


@entry("emb.new", "pdu", dict(cc=Int(0, 15), pi=Int(0, 1), lcss=Int(0, 3), parity=OneOf(Const(0), Int(0, 511))))
def _(a, T):
    from okdmr.dmrlib.etsi.layer2.pdu.embedded_signalling import EmbeddedSignalling

    return EmbeddedSignalling(a["cc"], a["pi"], a["lcss"], a["parity"])


RATE = {"rate12": ("rate12_data", "Rate12Data", "Rate12DataTypes", 96), "rate34": ("rate34_data", "Rate34Data", "Rate34DataTypes", 144),
        "rate1": ("rate1_data", "Rate1Data", "Rate1DataTypes", 192)}
RATE_TYPES = ["Undefined", "Unconfirmed", "Confirmed", "UnconfirmedLastBlock", "ConfirmedLastBlock"]


def _rate(name):
    import importlib

    mod, cls, types, n = RATE[name]
    m = importlib.import_module("okdmr.dmrlib.etsi.layer2.pdu." + mod)
    return getattr(m, cls), getattr(m, types)


for _r, (_m, _c, _t, _n) in RATE.items():

    def _mk(r=_r, n=_n):
        @entry(f"{r}.from_bits_typed", "pdu", dict(bits=Bits(n, alts=(n - 1,)), type=Choice(RATE_TYPES), convert=OneOf(Const(None), Choice(RATE_TYPES[1:]))), parse=True,
               doc="from_bits_typed (+ optional convert to another block type)", ncanon=5)
        def _e(a, T):
            C, TY = _rate(r)
            o = C.from_bits_typed(T.bits(a["bits"]), TY[a["type"]])
            return (o, o.convert(TY[a["convert"]])) if a["convert"] else o

        @entry(f"{r}.from_bits", "pdu", dict(bits=Bits(n, alts=(n + 1,))), parse=True)
        def _f(a, T):
            return _rate(r)[0].from_bits(T.bits(a["bits"]))

    _mk()


@entry("rate12.new", "pdu", dict(data=OneOf(Hex(10), Hex(12), Hex(6), Hex(8), Hex(7)), dbsn=Int(0, 127), crc9=OneOf(Const(0), Int(0, 511)), crc32=Int(0, 0xFFFFFFFF)), ncanon=5)
def _(a, T):
    return _rate("rate12")[0](data=T.bytes(a["data"]), dbsn=a["dbsn"], crc9=a["crc9"], crc32=a["crc32"])


S_UDP = OneOf(Cat(Bits(16), Bits(8), Const("0"), Choice(["0000001", "0000010", "0000000", "1011111"]), Const("0"), Choice(["0000001", "0000000", "0000010"]), BitsVar(0, 64)),
              BitsVar(30, 100))


@entry("udp_header.from_bits", "pdu", dict(bits=S_UDP), parse=True, ncanon=4)
def _(a, T):
    from okdmr.dmrlib.etsi.layer3.pdu.udp_ipv4_compressed_header import UDPIPv4CompressedHeader

    return UDPIPv4CompressedHeader.from_bits(T.bits(a["bits"]))


@entry("udp_header.from_bytes", "pdu", dict(data=HexVar(4, 14)), parse=True)
def _(a, T):
    from okdmr.dmrlib.etsi.layer3.pdu.udp_ipv4_compressed_header import UDPIPv4CompressedHeader

    return UDPIPv4CompressedHeader.from_bytes(T.bytes(a["data"]))


@entry("service_options.new_default", "pdu", dict(prio=Int(0, 3), emergency=Flag()), doc="constructor with the default `reserved` bitarray")
def _(a, T):
    from okdmr.dmrlib.etsi.layer3.elements.service_options import ServiceOptions

    return ServiceOptions(is_emergency=a["emergency"], priority_level=a["prio"])


@entry("service_options.from_bits", "pdu", dict(bits=Bits(8, alts=(7,))), parse=True)
def _(a, T):
    from okdmr.dmrlib.etsi.layer3.elements.service_options import ServiceOptions

    return ServiceOptions.from_bits(T.bits(a["bits"]))


ELEMENTS = {
    "CsbkOpcodes": ("etsi.layer2.elements.csbk_opcodes", 6), "DataPacketFormats": ("etsi.layer2.elements.data_packet_formats", 4),
    "DefinedDataFormats": ("etsi.layer2.elements.defined_data_formats", 6), "FeatureSetIDs": ("etsi.layer2.elements.feature_set_ids", 8),
    "FLCOs": ("etsi.layer2.elements.flcos", 6), "FragmentSequenceNumber": ("etsi.layer2.elements.fragment_sequence_number", 4),
    "SAPIdentifier": ("etsi.layer2.elements.sap_identifier", 4), "SLCOs": ("etsi.layer2.elements.slcos", 4),
    "SyncPatterns": ("etsi.layer2.elements.sync_patterns", 48), "UDTFormat": ("etsi.layer2.elements.udt_format", 4),
    "ActivityID": ("etsi.layer3.elements.activity_id", 4), "AnswerResponse": ("etsi.layer3.elements.answer_response", 8),
    "ChannelTimingOpcode": ("etsi.layer3.elements.channel_timing_opcode", 2), "DynamicIdentifier": ("etsi.layer3.elements.dynamic_identifier", 2),
    "IPAddressIdentifier": ("etsi.layer3.elements.ip_address_identifier", 4), "PositionError": ("etsi.layer3.elements.position_error", 3),
    "ReasonCode": ("etsi.layer3.elements.reason_code", 8), "TalkerAliasDataFormat": ("etsi.layer3.elements.talker_alias_data_format", 2),
    "UDPPortIdentifier": ("etsi.layer3.elements.udp_port_identifier", 7),
}
SYNCS = ["755fd7df75f7", "dff57d75df5d", "7f7d5dd57dfd", "d5d7f77fd757", "77d55f7dfd77", "5d577f7757ff", "f7fdd5ddfd55", "7dffd5f55d5f", "d7557f5ff7f5", "dd7ff5d757dd"]


@entry("element.from_bits", "pdu", dict(eb=OneOf(*[Rec(cls=Const(c), bits=Bits(w)) for c, (m, w) in ELEMENTS.items()])), parse=True, ncanon=20,
       doc="from_bits (+ as_bits where defined) of a layer-2/3 information element")
def _(a, T):
    import importlib

    c = a["eb"]["cls"]
    cls = getattr(importlib.import_module("okdmr.dmrlib." + ELEMENTS[c][0]), c)
    o = cls.from_bits(T.bits(a["eb"]["bits"]))
    return (o, o.as_bits() if hasattr(o, "as_bits") else None)


# every integer-valued enum class of the library (name -> module below okdmr.dmrlib); half of them resolve unlisted values through a
# `_missing_` hook (fold onto a reserved member, or reject)
ENUM_CLASSES = {
    "AccessTypes": "etsi.layer2.elements.access_types", "CrcMasks": "etsi.layer2.elements.crc_masks", "CsbkOpcodes": "etsi.layer2.elements.csbk_opcodes",
    "DataPacketFormats": "etsi.layer2.elements.data_packet_formats", "DataTypes": "etsi.layer2.elements.data_types",
    "DefinedDataFormats": "etsi.layer2.elements.defined_data_formats", "FeatureSetIDs": "etsi.layer2.elements.feature_set_ids", "FLCOs": "etsi.layer2.elements.flcos",
    "FullMessageFlag": "etsi.layer2.elements.full_message_flag", "LCSS": "etsi.layer2.elements.lcss",
    "PreemptionPowerIndicator": "etsi.layer2.elements.preemption_power_indicator", "ResynchronizeFlag": "etsi.layer2.elements.resynchronize_flag",
    "SAPIdentifier": "etsi.layer2.elements.sap_identifier", "SARQ": "etsi.layer2.elements.sarq", "SLCOs": "etsi.layer2.elements.slcos",
    "SupplementaryFlag": "etsi.layer2.elements.supplementary_flag", "SyncPatterns": "etsi.layer2.elements.sync_patterns", "UDTFormat": "etsi.layer2.elements.udt_format",
    "VoiceBursts": "etsi.layer2.elements.voice_bursts", "Rate12DataTypes": "etsi.layer2.pdu.rate12_data", "Rate1DataTypes": "etsi.layer2.pdu.rate1_data",
    "Rate34DataTypes": "etsi.layer2.pdu.rate34_data", "ActivityID": "etsi.layer3.elements.activity_id",
    "AdditionalInformationField": "etsi.layer3.elements.additional_information_field", "AnnouncementType": "etsi.layer3.elements.announcement_type",
    "AnswerResponse": "etsi.layer3.elements.answer_response", "ChannelTimingOpcode": "etsi.layer3.elements.channel_timing_opcode",
    "DynamicIdentifier": "etsi.layer3.elements.dynamic_identifier", "IPAddressIdentifier": "etsi.layer3.elements.ip_address_identifier",
    "PositionError": "etsi.layer3.elements.position_error", "RandomAccessServiceFunction": "etsi.layer3.elements.random_access_service_function",
    "ReasonCode": "etsi.layer3.elements.reason_code", "SourceType": "etsi.layer3.elements.source_type", "TalkerAliasDataFormat": "etsi.layer3.elements.talker_alias_data_format",
    "UDPPortIdentifier": "etsi.layer3.elements.udp_port_identifier", "UDTOptionFlag": "etsi.layer3.elements.udt_option_flag",
    "CallType": "hytera.ipsc_elements.call_type", "FrameType": "hytera.ipsc_elements.frame_type", "PacketType": "hytera.ipsc_elements.packet_type",
    "SlotType": "hytera.ipsc_elements.slot_type", "Timeslot": "hytera.ipsc_elements.timeslot", "HyteraServiceType": "hytera.pdu.hdap", "HRNPOpcodes": "hytera.pdu.hrnp",
    "HSTRPOptionType": "hytera.pdu.hstrp", "LocationProtocolGeneralService": "hytera.pdu.location_protocol", "LocationProtocolResultCodes": "hytera.pdu.location_protocol",
    "LocationProtocolSpecificService": "hytera.pdu.location_protocol", "DispatchStationReceivingStatus": "hytera.pdu.radio_control_protocol",
    "RCPCallType": "hytera.pdu.radio_control_protocol", "RCPOpcode": "hytera.pdu.radio_control_protocol", "RCPResult": "hytera.pdu.radio_control_protocol",
    "RadioIpIdTarget": "hytera.pdu.radio_control_protocol", "RepeaterMode": "hytera.pdu.radio_control_protocol", "RepeaterServiceType": "hytera.pdu.radio_control_protocol",
    "RepeaterStatus": "hytera.pdu.radio_control_protocol", "StatusChangeNotificationSetting": "hytera.pdu.radio_control_protocol",
    "StatusChangeNotificationTargets": "hytera.pdu.radio_control_protocol", "RRSRadioState": "hytera.pdu.radio_registration_service",
    "RRSResult": "hytera.pdu.radio_registration_service", "RRSTypes": "hytera.pdu.radio_registration_service", "TMPResultCodes": "hytera.pdu.text_message_protocol",
    "TMPService": "hytera.pdu.text_message_protocol", "ARSPDUType": "motorola.automatic_registration_service", "Encoding": "motorola.automatic_registration_service",
    "FailureReason": "motorola.automatic_registration_service", "RegistrationEvent": "motorola.automatic_registration_service", "GlobalToken": "motorola.mbxml",
    "MBXMLTokenType": "motorola.mbxml", "TMSDeviceCapability": "motorola.text_messaging_service", "TMSEncoding": "motorola.text_messaging_service",
    "TransmissionTypes": "transmission.transmission_types",
}


def _enum_cls(name):
    import importlib

    return getattr(importlib.import_module("okdmr.dmrlib." + ENUM_CLASSES[name]), name)


@entry("enum.by_value", "pdu", dict(ev=Rec(cls=Seq(sorted(ENUM_CLASSES)), value=Int(0, 255))), parse=True, ncanon=1,
       canon=[{"ev": {"cls": "FeatureSetIDs", "value": 4}}, {"ev": {"cls": "FeatureSetIDs", "value": 0x21}}],
       doc="Enum(value) of an information element / opcode enum (defined member, value folded by `_missing_`, or rejected) + its serialisation")
def _(a, T):
    try:
        o = _enum_cls(a["ev"]["cls"])(a["ev"]["value"])
    except (ValueError, AssertionError, TypeError) as ex:  # raised by the enum machinery itself when `_missing_` declines: a plain, deterministic result
        return ("rejected", type(ex).__name__, str(ex))
    return (o, o.value, o.as_bits() if hasattr(o, "as_bits") else None, o.as_bytes() if hasattr(o, "as_bytes") else None)


@entry("enum.fold_table", "pdu", dict(cls=Seq(sorted(ENUM_CLASSES))), ncanon=0, canon=[{"cls": "FeatureSetIDs"}], no_scribble=True,
       doc="state probe: for v in 0..255 the value carried by the member Enum(v) resolves to (-1: rejected, -2: not an integer)")
def _(a, T):
    cls, out = _enum_cls(a["cls"]), []
    for v in range(256):
        try:
            m = cls(v).value
            out.append(m if isinstance(m, int) and not isinstance(m, bool) else -2)
        except Exception:
            out.append(-1)
    return out


@entry("sync.resolve_bytes", "pdu", dict(data=OneOf(Choice(SYNCS), Hex(6))), parse=True)
def _(a, T):
    from okdmr.dmrlib.etsi.layer2.elements.sync_patterns import SyncPatterns

    o = SyncPatterns.resolve_bytes(T.bytes(a["data"]))
    return (o, o.as_bits())


@entry("txgen.data_header_burst", "pdu", dict(data=Vec(V_DATA_HEADER)), ncanon=4, doc="TransmissionGenerator.generate_data_header_burst(DataHeader object), serialised")
def _(a, T):
    from okdmr.dmrlib.etsi.layer2.pdu.data_header import DataHeader
    from okdmr.dmrlib.transmission.transmission_generator import TransmissionGenerator

    dh = T.obj("data_header", a["data"], lambda: DataHeader.from_bytes(T.bytes(a["data"])))
    b = TransmissionGenerator.generate_data_header_burst(dh)
    return (b.as_bits(), repr(b))


# ---------------------------------------------------------------------------------------------- bursts, IPSC, kaitai front ends

BURST_TYPES = ["Undefined", "Vocoder", "DataAndControl"]


def _burst_obs(b):
    return (b, b.target_radio_id, b.data_type, b.interleave() if b.is_data_or_control and b.data is not None else None)


@entry("burst.new_default", "burst", {}, doc="Burst() with the default full_bits", ncanon=1)
def _(a, T):
    from okdmr.dmrlib.etsi.layer2.burst import Burst

    return Burst()


S_BURST_HEX = OneOf(Vec(V_BURST33 + [v[40:106] for v in V_MMDVM]), Hex(33, alts=(32,)))


@entry("burst.from_bytes", "burst", dict(data=S_BURST_HEX, bt=Choice(BURST_TYPES)), parse=True, ncanon=6)
def _(a, T):
    from okdmr.dmrlib.etsi.layer2.burst import Burst
    from okdmr.dmrlib.etsi.layer2.elements.burst_types import BurstTypes

    return _burst_obs(Burst.from_bytes(T.bytes(a["data"]), BurstTypes[a["bt"]]))


@entry("burst.from_bits", "burst", dict(data=S_BURST_HEX, bt=Choice(BURST_TYPES)), parse=True, ncanon=4)
def _(a, T):
    from okdmr.dmrlib.etsi.layer2.burst import Burst
    from okdmr.dmrlib.etsi.layer2.elements.burst_types import BurstTypes

    bits = T.bits(format(int(a["data"] or "0", 16), f"0{len(a['data']) * 4}b") if a["data"] else "")
    return _burst_obs(Burst.from_bits(bits, BurstTypes[a["bt"]]))


@entry("burst.from_mmdvm", "burst", dict(data=Vec(V_MMDVM)), parse=True, ncanon=6)
def _(a, T):
    from okdmr.dmrlib.etsi.layer2.burst import Burst
    from okdmr.kaitai.homebrew.mmdvm2020 import Mmdvm2020

    def build():
        cd = Mmdvm2020.from_bytes(T.bytes(a["data"])).command_data
        cd.dmr_data
        return cd

    try:  # third-party kaitai pre-parse of a (possibly mutated) vector: a rejection there is a plain, deterministic result
        cd = T.obj("kaitai_mmdvm", a["data"], build)
    except Exception as e:
        return ("kaitai rejected", type(e).__name__)
    return _burst_obs(Burst.from_mmdvm(cd))


@entry("burst.from_hytera_ipsc", "burst", dict(data=Vec(V_IPSC), kaitai=Flag()), parse=True, ncanon=9)
def _(a, T):
    from okdmr.dmrlib.etsi.layer2.burst import Burst
    from okdmr.kaitai.hytera.ip_site_connect_protocol import IpSiteConnectProtocol

    raw = T.bytes(a["data"])
    if a["kaitai"]:
        try:
            raw = T.obj("kaitai_ipsc", a["data"], lambda: IpSiteConnectProtocol.from_bytes(T.bytes(a["data"])))
        except Exception as e:
            return ("kaitai rejected", type(e).__name__)
    b = Burst.from_hytera_ipsc(raw)
    return (b, b.as_bits(), b.hytera_ipsc)


@entry("ipsc.from_kaitai", "burst", dict(data=Vec(V_IPSC)), parse=True, ncanon=4, doc="HyteraIPSC.from_kaitai(parsed kaitai object) + as_ipsc_bytes")
def _(a, T):
    from okdmr.dmrlib.hytera.hytera_ipsc import HyteraIPSC
    from okdmr.kaitai.hytera.ip_site_connect_protocol import IpSiteConnectProtocol

    try:
        k = T.obj("kaitai_ipsc", a["data"], lambda: IpSiteConnectProtocol.from_bytes(T.bytes(a["data"])))
    except Exception as e:
        return ("kaitai rejected", type(e).__name__)
    o = HyteraIPSC.from_kaitai(k)
    return (o, o.as_ipsc_bytes())


@entry("ipsc.wrap_burst", "burst", dict(data=S_BURST_HEX, bt=Choice(BURST_TYPES), seq=Int(0, 255)), doc="HyteraIPSC built around a Burst object, serialised")
def _(a, T):
    from okdmr.dmrlib.etsi.layer2.burst import Burst
    from okdmr.dmrlib.etsi.layer2.elements.burst_types import BurstTypes
    from okdmr.dmrlib.hytera import hytera_ipsc as h

    b = T.obj("burst", [a["data"], a["bt"]], lambda: Burst.from_bytes(T.bytes(a["data"]), BurstTypes[a["bt"]]))
    o = h.HyteraIPSC(call_type=h.CallType.GroupCall, frame_type=h.FrameType.Data, packet_type=h.PacketType.TypeA, slot_type=h.SlotType.CSBK,
                     timeslot=h.Timeslot.Timeslot_1, sequence_number=a["seq"], color_code=1, destination_radio_id=9, source_radio_id=2623266, payload=b)
    return (o.as_ipsc_bytes(), repr(o))


@entry("burst.serialise", "burst", dict(data=S_BURST_HEX, bt=Choice(BURST_TYPES)), doc="as_bits / as_bytes / repr of a Burst object")
def _(a, T):
    from okdmr.dmrlib.etsi.layer2.burst import Burst
    from okdmr.dmrlib.etsi.layer2.elements.burst_types import BurstTypes

    b = T.obj("burst", [a["data"], a["bt"]], lambda: Burst.from_bytes(T.bytes(a["data"]), BurstTypes[a["bt"]]), snapshot=False)  # receiver
    return (b.as_bits(), b.as_bytes(), repr(b), b.target_radio_id)


@entry("ipsc.from_ipsc_bytes", "burst", dict(data=Vec(V_IPSC)), parse=True, ncanon=4)
def _(a, T):
    from okdmr.dmrlib.hytera.hytera_ipsc import HyteraIPSC

    o = HyteraIPSC.from_ipsc_bytes(T.bytes(a["data"]))
    return (o, o.is_wakeup())


@entry("ipsc_sync.from_bits", "burst", dict(data=Hex(33), wakeup=Flag()), parse=True)
def _(a, T):
    from okdmr.dmrlib.etsi.layer2.elements.burst_types import BurstTypes
    from okdmr.dmrlib.hytera.hytera_ipsc_sync import HyteraIPSCSync
    from okdmr.dmrlib.hytera.hytera_ipsc_wakeup import HyteraIPSCWakeup

    bits = T.bits(format(int(a["data"], 16), "0264b"))
    o = (HyteraIPSCWakeup if a["wakeup"] else HyteraIPSCSync).from_bits(bits, BurstTypes.Undefined)
    return (o.as_bits(), o.as_bytes(), o.has_emb, o.sync_or_embedded_signalling)


@entry("parsing.try_parse_packet", "burst", dict(data=OneOf(Vec(V_PARSE), HexVar(0, 40))), parse=True, ncanon=8)
def _(a, T):
    from okdmr.dmrlib.utils.parsing import try_parse_packet

    return try_parse_packet(T.bytes(a["data"]))


@entry("parsing.parse_hytera_data", "burst", dict(data=Vec(V_IPSC[:3] + V_HRNP[:3] + V_HSTRP[:3] + V_LP[:1])), parse=True, ncanon=6)
def _(a, T):
    from okdmr.dmrlib.utils.parsing import parse_hytera_data

    return parse_hytera_data(T.bytes(a["data"]))


# ---------------------------------------------------------------------------------------------- Hytera application protocols

# structured wire frames (pure Python builders; every opcode / variant a dispatcher implements is one *mode* of the spec)


def _hb(lo, hi, n=1, le=False):
    """n-byte integer field in [lo, hi] as hex (one mode, random data)"""
    return Map(Int(lo, hi), lambda v: v.to_bytes(n, "little" if le else "big").hex())


def _hdap_frame(d):
    """HDAP: service | opcode(2) | payload length(2) | payload | checksum | 03"""
    payload, op = bytes.fromhex(d["payload"]), bytes.fromhex(d["op"])
    checked = op + len(payload).to_bytes(2, "little" if d["le"] else "big") + payload
    cs = ((((sum(checked) & 0xFF) ^ 0xFF) + 0x33) & 0xFF)
    return (bytes([d["svc"] | (0x80 if d["rel"] else 0)]) + checked + bytes([cs, 0x03])).hex()


def _hdap(svc, le, op_hex, *payload):
    return Map(Rec(svc=Const(svc), rel=Flag(), op=Const(op_hex), le=Const(le), payload=Cat(*payload) if payload else Const("")), _hdap_frame)


def _rcp(opcode, *payload):
    return _hdap(0x02, True, opcode.to_bytes(2, "little").hex(), *payload)


_ID4 = lambda: _hb(1, 0xFFFFFF, 4, True)
S_RCP = OneOf(
    _rcp(0x0841, _hb(0, 0x0F), _ID4()),                                                   # CallRequest
    _rcp(0x8841, _hb(0, 1)),                                                              # CallReply
    _rcp(0xB845, _hb(0, 1, 2, True), _hb(0, 0x0F, 2, True), _hb(0, 7, 2, True), _hb(0, 0x0F, 2, True), _ID4(), _ID4()),  # RepeaterBroadcastTransmitStatus
    _rcp(0x1847, _hb(0, 7), Const("00" * 7)),                                             # BroadcastMessageConfigurationRequest
    _rcp(0x8847, _hb(0, 1)),
    _rcp(0x0452, _hb(0, 1)),                                                              # RadioIDAndRadioIPQueryRequest
    _rcp(0x8452, _hb(0, 1), _hb(0, 1), Hex(4)),
    _rcp(0x10C9, Const("02"), Hex(4)),                                                    # BroadcastStatusConfigurationRequest
    _rcp(0x80C9, _hb(0, 1)),
    _rcp(0x0852, _hb(0, 0x0F), _ID4(), _ID4(), _hb(0, 3), Const("04"), Map(Int(0, 25 ** 4 - 1), lambda v: "".join("%02x" % (0x41 + (v // 25 ** i) % 25) for i in range(4)))),  # SendTalkerAliasRequest
    _rcp(0x8852, _hb(0, 1), _hb(0, 0x0F), _ID4(), _ID4()),
    _rcp(0x00C4, Hex(5)),                                                                 # ZoneAndChannelOperationRequest
    _rcp(0x80C4, Hex(12)),
    _rcp(0x10C7, Const("02"), _hb(1, 0x16), _hb(0, 1), _hb(1, 0x16), _hb(0, 1)),          # StatusChangeNotificationRequest (two pairs)
    _rcp(0x10C7, Const("01"), _hb(1, 0x16), _hb(0, 2)),
    _rcp(0x10C7, Const("04"), _hb(1, 0x16), _hb(0, 1), _hb(1, 0x16), _hb(0, 1), _hb(1, 0x16), _hb(0, 1), _hb(1, 0x16), _hb(0, 1)),
    _rcp(0x80C7, _hb(0, 1)),
    _rcp(0xB0C8, _hb(1, 0x16), Hex(2)),                                                   # RadioStatusReport
    _rcp(0x0204, Hex(5)),                                                                 # unknown service: raw payload kept
    _rcp(0x0842, Hex(5)),                                                                 # known opcode without parser: documented ValueError
)


def _tmp(flags_op, *body, option=None):
    parts = ([Const("%04x" % (len(option) // 2))] if option is not None else []) + list(body) + ([Const(option)] if option is not None else [])
    return _hdap(0x09, False, flags_op, *parts)


_IP4 = lambda: Cat(Const("0a"), Hex(3))
_TMP_RESULT = lambda: _hb(3, 12)
_TEXT = lambda: Map(Int(0, 25 ** 6 - 1), lambda v: "".join("%02x00" % (0x41 + (v // 25 ** i) % 25) for i in range(6)))
S_TMP = OneOf(
    _tmp("80a1", Hex(4), _IP4(), _IP4(), _TEXT()), _tmp("00b1", Hex(4), _IP4(), _IP4(), _TEXT()),
    _tmp("80a2", Hex(4), _IP4(), _IP4(), _TMP_RESULT()), _tmp("00b2", Hex(4), _IP4(), _TMP_RESULT()),
    _tmp("80ae", Hex(4), _IP4(), _IP4(), Hex(5)), _tmp("00af", Hex(4), _IP4(), _IP4(), _TMP_RESULT()),
    _tmp("80be", Hex(4), _IP4(), _IP4(), Hex(5)), _tmp("00bf", Hex(4), _IP4(), _TMP_RESULT()),
    _tmp("c0a2", Hex(4), _IP4(), _IP4(), _TMP_RESULT(), option="010203"), _tmp("c0a1", Hex(4), _IP4(), _IP4(), _TEXT(), option="0a0b"),
    _tmp("c0a1", Hex(4), _IP4(), _IP4(), _TEXT(), option=""),
)


def _gps_hex(d):
    txt = ("A" if d["valid"] else "V") + "%02d%02d%02d" % (d["h"], d["mi"], d["s"]) + "%02d%02d%02d" % (d["d"], d["mo"], d["y"]) + "N" \
        + "%09.4f" % (d["lat"] / 10000) + "E" + "%010.4f" % (d["lon"] / 10000) + "%03.1f" % (d["speed"] / 10) + "%03d" % d["dir"]
    return txt.encode("ascii").hex()


S_GPS = Map(Rec(valid=Flag(), h=Int(0, 23), mi=Int(0, 59), s=Int(0, 59), d=Int(1, 28), mo=Int(1, 12), y=Int(0, 99), lat=Int(0, 89_999_999),
                lon=Int(0, 179_999_999), speed=Int(0, 99), dir=Int(0, 359)), _gps_hex)
S_LP = OneOf(_hdap(0x08, False, "a001", Hex(4), _IP4()), _hdap(0x08, False, "a002", Hex(4), _IP4(), Choice(["0000", "0006", "0069"]), S_GPS))
S_RRS = OneOf(_hdap(0x11, False, "0003", _IP4()), _hdap(0x11, False, "0001", _IP4()), _hdap(0x11, False, "0002", _IP4()),
              _hdap(0x11, False, "0080", _IP4(), _hb(0, 2), _hb(1, 0xFFFE, 4)), _hdap(0x11, False, "0082", _IP4(), _hb(0, 1)))
S_HDAP = OneOf(S_RCP, S_TMP, S_LP, S_RRS)


def _hrnp_frame(d):
    data = bytes.fromhex(d["data"])
    head = bytes([0x7E, d["version"], d["block"], d["op"], d["src"], d["dst"]]) + d["pn"].to_bytes(2, "big") + (12 + len(data)).to_bytes(2, "big")
    checked = head + data + (b"\x00" if (len(head) + len(data)) % 2 else b"")
    c = sum(int.from_bytes(checked[i:i + 2], "big") for i in range(0, len(checked), 2))
    while c >> 16:
        c = (c & 0xFFFF) + (c >> 16)
    c = (~c & 0xFFFF) if d["good"] else 0x1234
    return (head + c.to_bytes(2, "big") + data).hex()


def _hrnp(op, data=None):
    return Map(Rec(version=Choice([4, 3]), block=Const(0), op=Const(op), src=Choice([0x20, 0x10]), dst=Choice([0x10, 0x20]), pn=Int(0, 65535),
                   good=Choice([True, False]), data=data if data is not None else Const("")), _hrnp_frame)


S_HRNP = OneOf(*([_hrnp(op) for op in (0xFE, 0xFD, 0xFC, 0xFB, 0xFA, 0x10)] + [_hrnp(0x00, _rcp(0x0841, _hb(0, 0x0F), _ID4())), _hrnp(0x00, S_RRS.specs[3])]))
_HSTRP_OPTS = lambda: Cat(Const("8304"), Hex(4), Const("0401"), _hb(1, 2))
S_HSTRP = OneOf(
    Cat(Const("32420002"), Const("0000")), Cat(Const("32420001"), Hex(2)), Cat(Const("32420008"), Const("0000")), Cat(Const("32420010"), Const("0000")),
    Cat(Const("32420004"), Const("0000")), Cat(Const("32420024"), Const("0000"), _HSTRP_OPTS()), Cat(Const("32420005"), Hex(2)),
    Cat(Const("32420020"), Hex(2), _HSTRP_OPTS(), _rcp(0x8841, _hb(0, 1))), Cat(Const("32420020"), Hex(2), _HSTRP_OPTS(), S_RRS.specs[3]),
    Cat(Const("32420000"), Hex(2), _rcp(0x0841, _hb(0, 0x0F), _ID4())),
)
S_TMS = OneOf(Seq(["0003D00001", "0003D00002"]), Seq(["00021F00", "00025F00"]), Seq(["00049F009520", "00049F009640"]), Seq(["00029000", "00021000"]),
              Seq(["000DE0010195446100680" + "06F006A00", "000DE0010296446200690" + "070006B00"]), Seq(["000BA00101" + "6100680" + "06F006A00", "000BA00102" + "6200690" + "070006B00"]))
S_ARS = OneOf(Seq(["0007F0200231310000", "0007F0200232330000"]), Seq(["000131", "000111"]),
              Seq(["0010F5000231310939393939393939393900", "0010F5000232320938383838383838383800"]), Seq(["0002BF01", "0002BF02"]), Seq(["0002FF03", "0002FF07"]),
              Seq(["000174", "000154"]), Seq(["00013F", "00017F"]), Seq(["00033F1080", "00037F1080"]), Seq(["00067002313200" + "00", "00067002333400" + "00"]))
S_MBXML = OneOf(*[Seq([v, v.replace("2468ACE0", "13579BDF")]) for v in V_MBXML[:6] + V_MBXML[10:]],
                Seq(V_MBXML[6:8]), Seq(V_MBXML[8:10]))



@entry("hdap.from_bytes", "hytera", dict(data=OneOf(Vec(V_RCP[:4] + V_LP + V_TMP + V_RRS), S_HDAP)), parse=True, ncanon=8)
def _(a, T):
    from okdmr.dmrlib.hytera.pdu.hdap import HDAP

    return HDAP.from_bytes(T.bytes(a["data"]))


@entry("hdap.checksum", "hytera", dict(data=HexVar(0, 20), first=Int(0, 255)))
def _(a, T):
    from okdmr.dmrlib.hytera.pdu.hdap import HDAP

    return (HDAP.get_hdap_checksum(T.bytes(a["data"])), HDAP.get_reliable_and_service(a["first"] & 0x93))


@entry("rcp.from_bytes", "hytera", dict(data=OneOf(Vec(V_RCP), S_RCP)), parse=True, ncanon=14)
def _(a, T):
    from okdmr.dmrlib.hytera.pdu.radio_control_protocol import RadioControlProtocol

    return RadioControlProtocol.from_bytes(T.bytes(a["data"]))


@entry("rcp.new_default", "hytera", dict(opcode=Choice(["StatusChangeNotificationRequest", "CallReply", "BroadcastMessageConfigurationRequest", "RadioIDAndRadioIPQueryRequest"]),
                                         reliable=Flag()),
       doc="constructor with default arguments (default status_change_settings dict)", ncanon=4)
def _(a, T):
    from okdmr.dmrlib.hytera.pdu.radio_control_protocol import RadioControlProtocol, RCPOpcode

    return RadioControlProtocol(opcode=RCPOpcode[a["opcode"]], is_reliable=a["reliable"])


@entry("rcp.status_change_request", "hytera", dict(settings=ListOf(Rec(target=Int(0, 8), setting=Int(0, 1)), 0, 4)),
       doc="status change request built from a caller-owned settings dict")
def _(a, T):
    from okdmr.dmrlib.hytera.pdu import radio_control_protocol as r

    d = {}
    for s in a["settings"]:
        d[r.StatusChangeNotificationTargets(s["target"])] = r.StatusChangeNotificationSetting(s["setting"])
    T.track(d, "settings")
    return r.RadioControlProtocol(opcode=r.RCPOpcode.StatusChangeNotificationRequest, status_change_settings=d)


@entry("lp.from_bytes", "hytera", dict(data=OneOf(Vec(V_LP), S_LP)), parse=True)
def _(a, T):
    from okdmr.dmrlib.hytera.pdu.location_protocol import LocationProtocol

    return LocationProtocol.from_bytes(T.bytes(a["data"]))


@entry("lp.new_default", "hytera", dict(opcode=Choice(["StandardReport", "StandardRequest"]), rid=Int(0, 0xFFFFFFFF), ip=Hex(4)),
       doc="constructor with the default GPS data object")
def _(a, T):
    from okdmr.dmrlib.hytera.pdu.location_protocol import LocationProtocol, LocationProtocolSpecificService

    return LocationProtocol(opcode=LocationProtocolSpecificService[a["opcode"]], request_id=a["rid"], radio_ip=T.bytes(a["ip"]))


@entry("gps.from_bytes", "hytera", dict(data=OneOf(Vec([V_LP[0][30:110], V_LP[1][30:110]]), Hex(40, alts=(39,)))), parse=True, ncanon=4)
def _(a, T):
    from okdmr.dmrlib.hytera.pdu.location_protocol import GPSData

    return GPSData.from_bytes(T.bytes(a["data"]))


@entry("tmp.from_bytes", "hytera", dict(data=OneOf(Vec(V_TMP), S_TMP)), parse=True, ncanon=4)
def _(a, T):
    from okdmr.dmrlib.hytera.pdu.text_message_protocol import TextMessageProtocol

    return TextMessageProtocol.from_bytes(T.bytes(a["data"]))


@entry("rrs.from_bytes", "hytera", dict(data=OneOf(Vec(V_RRS), S_RRS)), parse=True, ncanon=4)
def _(a, T):
    from okdmr.dmrlib.hytera.pdu.radio_registration_service import RadioRegistrationService

    return RadioRegistrationService.from_bytes(T.bytes(a["data"]))


@entry("radio_ip.from_bytes", "hytera", dict(data=Hex(4, alts=(3,)), endian=Choice(["big", "little"])), parse=True)
def _(a, T):
    from okdmr.dmrlib.hytera.pdu.radio_ip import RadioIP

    o = RadioIP.from_bytes(T.bytes(a["data"]), a["endian"])
    return (o, o.as_ip(), RadioIP.from_ip(o.as_ip(), a["endian"]))


@entry("hrnp.from_bytes", "hytera", dict(data=OneOf(Vec(V_HRNP), S_HRNP)), parse=True, ncanon=10)
def _(a, T):
    from okdmr.dmrlib.hytera.pdu.hrnp import HRNP

    return HRNP.from_bytes(T.bytes(a["data"]))


@entry("hrnp.new_default", "hytera", dict(pn=Int(0, 65535)), doc="HRNP() with default header/version/checksum arguments", ncanon=2)
def _(a, T):
    from okdmr.dmrlib.hytera.pdu.hrnp import HRNP

    return HRNP(packet_number=a["pn"])


@entry("hstrp.from_bytes", "hytera", dict(data=OneOf(Vec(V_HSTRP), S_HSTRP)), parse=True, ncanon=7)
def _(a, T):
    from okdmr.dmrlib.hytera.pdu.hstrp import HSTRP

    return HSTRP.from_bytes(T.bytes(a["data"]))


@entry("hstrp_options.from_bytes", "hytera", dict(data=OneOf(Vec(["83040001869f040102", "83040001869f040101", "0100", "8100" + "0401" + "01"]), HexVar(0, 10))), parse=True, ncanon=4)
def _(a, T):
    from okdmr.dmrlib.hytera.pdu.hstrp import HSTRPOptions, HSTRPPacketType

    o = HSTRPOptions.from_bytes(T.bytes(a["data"]))
    return (o, len(o), HSTRPPacketType.from_bytes(T.bytes(a["data"])[:1] or b"\x00"), HSTRPPacketType())


@entry("hrnp.wrap_hdap", "hytera", dict(data=OneOf(Vec(V_RCP[:4] + V_LP[:1] + V_TMP[:1] + V_RRS[:1]), S_LP, S_RRS), pn=Int(0, 65535)), ncanon=4,
       doc="HRNP DATA packet built around a parsed HDAP object, serialised")
def _(a, T):
    from okdmr.dmrlib.hytera.pdu.hdap import HDAP
    from okdmr.dmrlib.hytera.pdu.hrnp import HRNP, HRNPOpcodes

    hd = T.obj("hdap", a["data"], lambda: HDAP.from_bytes(T.bytes(a["data"])))
    o = HRNP(data=hd, opcode=HRNPOpcodes.DATA, packet_number=a["pn"])
    return (o.as_bytes(), len(o), repr(o))


@entry("hstrp.wrap_hdap", "hytera", dict(data=OneOf(Vec(V_RCP[:4] + V_LP[:1] + V_TMP[:1] + V_RRS[:1]), S_LP, S_RRS), sn=Int(0, 65535)), ncanon=4,
       doc="HSTRP packet built around a parsed HDAP object and an options object, serialised")
def _(a, T):
    from okdmr.dmrlib.hytera.pdu.hdap import HDAP
    from okdmr.dmrlib.hytera.pdu.hstrp import HSTRP, HSTRPOptions, HSTRPOptionType, HSTRPPacketType

    hd = T.obj("hdap", a["data"], lambda: HDAP.from_bytes(T.bytes(a["data"])))
    opts = T.obj("hstrp_options", "device", lambda: HSTRPOptions().add_option(HSTRPOptionType.DeviceID, b"\x00\x01\x86\x9f"))
    o = HSTRP(pkt_type=HSTRPPacketType(have_options=True), sn=a["sn"], options=opts, payload=hd)
    return (o.as_bytes(), repr(o))


@entry("lp.with_gps", "hytera", dict(gps=OneOf(Vec([V_LP[0][30:110], V_LP[1][30:110]], mutate=False), S_GPS), rid=Int(0, 0xFFFFFFFF)),
       doc="LocationProtocol report built around a parsed GPSData object, serialised")
def _(a, T):
    from okdmr.dmrlib.hytera.pdu.location_protocol import GPSData, LocationProtocol, LocationProtocolSpecificService

    g = T.obj("gps", a["gps"], lambda: GPSData.from_bytes(T.bytes(a["gps"])))
    o = LocationProtocol(opcode=LocationProtocolSpecificService.StandardReport, request_id=a["rid"], radio_ip=b"\x0a\x00\x00\x50", gpsdata=g)
    return (o.as_bytes(), repr(o))


# ---------------------------------------------------------------------------------------------- Motorola (MBXML / LRRP, TMS, ARS)

LRRP_DOCS = ["LRRP_ImmediateLocationRequest_NCDT", "LRRP_ImmediateLocationReport_NCDT", "LRRP_TriggeredLocationRequest_NCDT", "LRRP_TriggeredLocationReport_NCDT",
             "LRRP_TriggeredLocationStopRequest_NCDT", "LRRP_TriggeredLocationStopAnswer_NCDT", "LRRP_UnsolicitedLocationReport_NCDT"]


@entry("mbxml.from_bytes", "mbxml", dict(data=OneOf(Vec(V_MBXML), S_MBXML), debug=Choice([False, False, False, True])), parse=True, ncanon=12)
def _(a, T):
    from okdmr.dmrlib.motorola.mbxml import MBXML

    return MBXML.from_bytes(T.bytes(a["data"]), a["debug"])


@entry("mbxml.varints", "mbxml", dict(u=Int(0, 4294967295), s=Int(-2147483647, 2147483647), num=Int(0, 10**7), den=Choice([10, 100, 128, 1000, 16384]), p=Int(1, 3)),
       canon=[{"u": 300, "s": -70000, "num": 1234567, "den": 1000, "p": 3}, {"u": 16384, "s": 64, "num": 98765, "den": 100, "p": 2}],
       doc="write_* / read_* of uintvar, sintvar, ufloatvar, sfloatvar (directed: fractions of two and three septets)")
def _(a, T):
    from okdmr.dmrlib.motorola.mbxml import MBXML

    f = a["num"] / a["den"]
    wu, ws, wf, wsf = MBXML.write_uintvar(a["u"]), MBXML.write_sintvar(a["s"]), MBXML.write_ufloatvar(f, a["p"]), MBXML.write_sfloatvar(-f, a["p"])
    return (wu, ws, wf, wsf, MBXML.read_uintvar(wu, 0), MBXML.read_sintvar(ws, 0), MBXML.read_ufloatvar(wf, 0), MBXML.read_sfloatvar(wsf, 0))


VAR_KINDS = ["uint", "sint", "sint_neg", "ufloat", "sfloat", "sfloat_neg"]


@entry("mbxml.write_var", "mbxml", dict(kind=Choice(VAR_KINDS), m=Int(0, 2**31 - 1), frac=Int(0, 999), p=Int(1, 3)), ncanon=2,
       doc="ONE variable-length writer (uintvar / sintvar / ufloatvar / sfloatvar; the sibling writers share the value arguments: magnitude m, "
           "fraction frac/1000, precision p) and the matching reader on what it wrote")
def _(a, T):
    from okdmr.dmrlib.motorola.mbxml import MBXML

    k, m, f = a["kind"], a["m"], a["m"] + a["frac"] / 1000
    if k == "uint":
        w = MBXML.write_uintvar(m)
        return (w, MBXML.read_uintvar(w, 0))
    if k in ("sint", "sint_neg"):
        w = MBXML.write_sintvar(-m if k == "sint_neg" else m)
        return (w, MBXML.read_sintvar(w, 0))
    if k == "ufloat":
        w = MBXML.write_ufloatvar(f, a["p"])
        return (w, MBXML.read_ufloatvar(w, 0))
    w = MBXML.write_sfloatvar(-f if k == "sfloat_neg" else f, a["p"])
    return (w, MBXML.read_sfloatvar(w, 0))


@entry("mbxml.read", "mbxml", dict(data=Cat(Hex(6), Const("00")), idx=Int(0, 3)), parse=True, doc="read_* on arbitrary bytes (terminated by a byte without continuation bit)")
def _(a, T):
    from okdmr.dmrlib.motorola.mbxml import MBXML

    d = T.bytes(a["data"])
    return (MBXML.read_uintvar(d, a["idx"]), MBXML.read_sintvar(d, a["idx"]), MBXML.read_uint8(d, a["idx"]), MBXML.read_opaque(d, a["idx"]), MBXML.read_opaque_defined_size(d, a["idx"], 2))


@entry("mbxml.write_geo", "mbxml", dict(lat=Int(-90_000_000, 90_000_000), lon=Int(0, 359_999_999),
                                        t=Rec(y=Int(1, 9999), mo=Int(1, 12), d=Int(1, 28), h=Int(0, 23), mi=Int(0, 59), s=Int(0, 59))))
def _(a, T):
    from okdmr.dmrlib.motorola.mbxml import MBXML

    t = a["t"]
    stamp = f"{t['y']:04}{t['mo']:02}{t['d']:02}{t['h']:02}{t['mi']:02}{t['s']:02}"
    return (MBXML.write_latitude(abs(a["lat"]) / 1e6), MBXML.write_longitude(a["lon"] / 1e6), MBXML.write_infotime(stamp), MBXML.write_infotime(int(stamp)) if t["y"] >= 1000 else None)


def _tok(name, value, attributes, is_request):
    return Rec(name=name, value=value, attributes=attributes, is_request=is_request)


S_TOKEN = OneOf(
    _tok(Choice(["request-id", 0x22]), Rec(k=Const("hex"), v=HexVar(1, 6)), Const({}), Flag()),
    _tok(Choice(["ret-info", 0x50, 0x51, 0x52, 0x53]), Const(None), Choice([{}, {"ret-info-accuracy": 73}, {"ret-info-time": 73}, {"ret-info-accuracy": 73, "ret-info-time": 73}, {"ret-info-accuracy": 5}]), Const(True)),
    _tok(Choice(["result", 0x37, 0x39, 0x39]), Rec(k=Const("hex"), v=HexVar(0, 4)), OneOf(Rec(**{"result-code": Int(0, 20)}), Rec(**{"34": Int(0, 300)}), Const({})), Const(False)),
    _tok(Choice(["result", 0x38]), Rec(k=Const("hex"), v=Const("")), Choice([{"35": 0}, {"result-code": 0}, {}]), Const(False)),
    _tok(Choice(["interval", "trg-condition", "request-hor-acc", 0x31, "periodic-trigger", "oneshot-trigger", "nonexistant"]), Rec(k=Const("int"), v=Int(0, 100000)), Const({}), Const(True)),
    _tok(Choice(["speed-hor", "direction-hor", "lev-conf", "protocol-version"]), Rec(k=Const("int"), v=Int(0, 255)), Const({}), Const(False)),
)
TOK_DIRECTED = [
    {"name": 0x39, "value": {"k": "hex", "v": "515355"}, "attributes": {"result-code": 5}, "is_request": False},
    {"name": "result", "value": {"k": "hex", "v": "515355"}, "attributes": {"result-code": 5}, "is_request": False},
    {"name": "result", "value": {"k": "hex", "v": ""}, "attributes": {"35": 0}, "is_request": False},
    {"name": "ret-info", "value": None, "attributes": {"ret-info-accuracy": 73, "ret-info-time": 73}, "is_request": True},
    {"name": "request-id", "value": {"k": "hex", "v": "2468ace0"}, "attributes": {}, "is_request": False},
]


def _tok_args(t):
    v = t["value"]
    value = None if v is None else (bytes.fromhex(v["v"]) if v["k"] == "hex" else v["v"])
    attrs = {(int(k) if k.isdigit() else k): val for k, val in t["attributes"].items()}
    return dict(name=t["name"], value=value, attributes=attrs, is_request=t["is_request"])


@entry("lrrp.get_token", "mbxml", dict(doc=Choice(LRRP_DOCS), tok=S_TOKEN), ncanon=4, canon=[{"doc": "LRRP_ImmediateLocationReport_NCDT", "tok": t} for t in TOK_DIRECTED], doc="LRRP(...).get_token(name, value, attributes, is_request)")
def _(a, T):
    from okdmr.dmrlib.motorola.lrrp import LRRP
    from okdmr.dmrlib.motorola.mbxml import MBXMLDocumentIdentifier

    kw = _tok_args(a["tok"])
    T.track(kw["attributes"], "attributes")
    return LRRP(document_id=MBXMLDocumentIdentifier[a["doc"]]).get_token(**kw)


@entry("lrrp.get_attribute", "mbxml", dict(name=Choice(["result-code", "ret-info-accuracy", "ret-info-time", "ret-info-no-req-id", 0x22, 0x23, 0x50, 0x55, "nonexistant"]), value=OneOf(Const(None), Int(0, 100), Const(73)), is_request=Flag()))
def _(a, T):
    from okdmr.dmrlib.motorola.lrrp import LRRP

    return LRRP.get_attribute(a["name"], a["value"], a["is_request"])


@entry("lrrp.build", "mbxml", dict(doc=Choice(LRRP_DOCS), toks=ListOf(S_TOKEN, 1, 3)), ncanon=3, canon=[{"doc": "LRRP_ImmediateLocationReport_NCDT", "toks": [TOK_DIRECTED[4], TOK_DIRECTED[0]]}], doc="document assembled through get_token, serialised with MBXML.as_bytes and parsed back")
def _(a, T):
    from okdmr.dmrlib.motorola.lrrp import LRRP
    from okdmr.dmrlib.motorola.mbxml import MBXML, MBXMLDocumentIdentifier

    d = LRRP(document_id=MBXMLDocumentIdentifier[a["doc"]])
    for t in a["toks"]:
        d.parts.append(d.get_token(**_tok_args(t)))
    raw = MBXML.as_bytes(d)
    return (d, raw, MBXML.from_bytes(raw))


@entry("mbxml.tables", "mbxml", dict(doc=Choice(LRRP_DOCS)), doc="state probe: get_configuration / build_constants_table / known tokens of a document type", ncanon=2, no_scribble=True)
def _(a, T):
    from okdmr.dmrlib.motorola.lrrp import LRRP
    from okdmr.dmrlib.motorola.mbxml import MBXML, MBXMLDocumentIdentifier

    di = MBXMLDocumentIdentifier[a["doc"]]
    return (MBXML.build_constants_table(di), LRRP.get_configuration(di), LRRP.get_known_tokens(True), LRRP.get_known_tokens(False), LRRP.get_known_attributes())


@entry("mbxml.serialise_doc", "mbxml", dict(data=OneOf(Vec(V_MBXML, mutate=False), S_MBXML)), ncanon=6, doc="MBXML.as_bytes(doc) / doc.as_xml() of a parsed document object")
def _(a, T):
    from okdmr.dmrlib.motorola.mbxml import MBXML

    d = T.obj("mbxml_doc", a["data"], lambda: MBXML.from_bytes(T.bytes(a["data"]))[0])
    return (MBXML.as_bytes(d), d.as_xml(), repr(d))


@entry("tms.from_bytes", "motorola", dict(data=OneOf(Vec(V_TMS), S_TMS), endian=Choice(["big", "big", "little"])), parse=True, ncanon=4)
def _(a, T):
    from okdmr.dmrlib.motorola.text_messaging_service import TextMessagingService

    return TextMessagingService.from_bytes(T.bytes(a["data"]), a["endian"])


@entry("ars.from_bytes", "motorola", dict(data=OneOf(Vec(V_ARS), S_ARS)), parse=True, ncanon=7)
def _(a, T):
    from okdmr.dmrlib.motorola.automatic_registration_service import AutomaticRegistrationService

    return AutomaticRegistrationService.from_bytes(T.bytes(a["data"]))


@entry("ars.len_val", "motorola", dict(data=HexVar(0, 8), text=Choice(["", "11", "user", "ž"])))
def _(a, T):
    from okdmr.dmrlib.motorola.automatic_registration_service import AutomaticRegistrationService as A

    enc = A.encode_len_val(T.bytes(a["data"]))
    return (enc, A.encode_len_val(a["text"]), A.read_len_val(enc, 0))


# ============================================================================================== oracles

RULE = (
    "case = history of 1..12 calls; a call is {e: catalogue entry id, a: plain-JSON arguments (hex for bytes, '0101' for bits, ints)}; the "
    "argument objects are built inside the forked child.  Hypothesis draws histories of seven kinds (random mix; calls of one group = module family; "
    "one entry with different arguments/lengths; one entry with one argument changed per step; curated (writer, reader) pairs with noise in between; a history whose last call repeats an earlier "
    "one; constructors with default arguments mixed with parsers; half of the histories are followed by a fixed suffix of 'state probe' calls that dump the cached CRC "
    "tables, the LRRP token tables and default-argument objects) plus the complete set of ordered pairs of canonical calls (pairs sub-check).  "
    "A step may be compound: scribble_repeat (call, damage in place the caller's own argument objects and the buffer(s) returned as the call's value, "
    "call again with rebuilt arguments) or reuse (call with a, write b into the same argument buffers and call, call with a fresh a); every record must equal the "
    "fresh-state observation of the plain call.  pairs additionally covers every *mode* of every entry (each-choice over opcode / variant / length switches "
    "of the argument specs: all RCP/TMP/LP/RRS/HRNP/HSTRP/TMS/ARS opcodes, CSBK opcodes, data header formats, FLCOs, LRRP documents, block types, codes) with "
    "two same-shape calls: ordered pairs both ways, re-use both ways, scribble-and-repeat of each.  Rejected variants: for every entry, calls with one argument just outside its spec (integers lo-1 / -1 / hi+1 / 2**width (+ 2**32, 2**64 for wide "
    "fields); buffers one unit too short / too long / empty), kept when the library answers them with an exception in a fresh state (<= 4 per entry, one per "
    "(argument, exception type)); pairs runs (rejected variant, first canonical call of every entry of the group) as exact ordered pairs, history has the kind "
    "rejected_then_valid.  Object arguments (kaitai IPSC / MMDVM objects, Burst, HDAP, GPSData, MBXML document, DataHeader passed to other entry points): the "
    "object's attribute tree is snapshotted before and compared after the call (argument_object_unchanged); same_object steps build the object once and run "
    "X(obj), X(obj) and X(obj), Y(obj), X(obj) for entries taking the same type of object.  Unusual variants: one enum-coded switch (opcode, MFID, format ... given as a choice of codes) set to a code of the same width the spec does not list; "
    "pairs runs (unusual variant, first canonical call of every entry of the group and every mode of the entry itself), history has unusual_then_ordinary.  "
    "Rejected variants are also derived under every setting of the entry's boolean mode flags (failed call with debug=True, then valid call).  "
    "serialise_later steps: 2..4 calls keep their results, then every result is observed / serialised again (last first) after the others existed.  "
    "Representation variants: a plain call may build its bit-string arguments as little-endian or frozen bitarrays (same bit sequence), its octet-string "
    "arguments as bytearray (same octets).  "
    "Related sub-check (round 7): clusters of calls that share a coarse key although they differ in entry point, mode or raw value - (fold) for every enum whose "
    "lookup folds unlisted values onto a member (the fold table 0..255 is the one the library under test answers in a fresh state): the target value and the "
    "lowest / a middle / the highest raw value folding onto it, through Enum(value), from_bits of the element and every PDU site that carries the field "
    "(CSBK / full LC / short LC / data header / slot type / UDP header bits, CSBK / full LC / data header / ARS / TMS / IPSC octets, RCP status change); "
    "(code) one data word and one error position 0..16 through every Hamming code, double errors next to single errors, the same word through generate / "
    "check / repair / numpy repair / syndrome of every code, a BPTC(196,96) codeword with one error and with two errors in one matrix column next to "
    "repairs by the sibling codes; (varint) one magnitude per bit length 1..31 through the six writers uintvar / +-sintvar / ufloatvar / +-sfloatvar; "
    "(mode_switch) the first canonical call under every value of each switch argument (mask, configuration, endianness, burst type, block type, flag); "
    "(transplant) the value one entry's canonical call gives an argument, handed to every entry of the group with a bit-string / octet-string / integer "
    "argument of the same name; (radio_ip) the same four octets in either byte order through RadioIP, RRS, RCP, LP, TMP.  Every cluster runs as a circuit "
    "(a history in which every ordered pair of its calls is adjacent once), serialise_later steps keeping all results alive (both orders), and explicit "
    "triples X, Y, X in their own children.  (twins) per entry returning objects, both calls of every mode and near-twins of the first (one octet with the "
    "top bit flipped / 0x7F / 0xFF, a zero octet appended / removed) are created in one child and all observed again (keep_alive step: later observation "
    "= first observation; three of the batch also = fresh state).  (refused) a call refused for a wrong-typed argument (None / float / numeric string), "
    "then directly the first canonical call of every entry of the group, alternating in one child.  A failing circuit / batch / alternation is cut down "
    "to the pair or triple that still fails.  Observation order: the library's serialisation, then the attribute tree, then repr.  Non-trivial: >= 2 calls of the same group in one history (the later one is compared against its run in a fresh state); distinct by hash of the "
    "history.  Clock sub-check: the same call lists evaluated in four fresh interpreters (clocks pinned to 2026-09-26, 1971-01-02, 2099-12-30 + different random "
    "streams; first clock again with PYTHONMALLOC=debug so that uninitialised memory reads 0xCD); besides all canonical calls and generated histories it feeds "
    "GPS / LP / MBXML info-time inputs whose dates lie the day before / of / after each clock and in the two-digit years 00, 24..27, 31, 69..72, 98, 99."
)
ASSUMPTIONS = [
    "a forked child of a process that has imported the library and executed none of its functions is 'a fresh interpreter state' (import-time state "
    "such as class-level CRC calculators and default-argument objects is part of it)",
    "observation of a result: primitives verbatim, buffers by content (+ bitarray endianness, numpy dtype), library objects by type, attribute tree, "
    "repr and the library's own serialisation; object identity is not observed",
    "a catalogue entry may be a short fixed script around the call under test (build the object, call, serialise); it is a deterministic function of its "
    "JSON arguments",
    "scribble scope (scribble_repeat step): damaged in place is only what is unambiguously the caller's own: (1) every argument object the caller built and "
    "passed (bitarray / bytearray / numpy buffers; dict / list arguments get a key / element added); (2) the result itself when the entry point returns a "
    "mutable buffer as its value - a bitarray / bytearray / numpy array / array, or a list / tuple whose elements are scalars or such buffers (every buffer "
    "element, and a returned flat list by an appended element), including, inside a returned tuple / list, elements that are themselves such flat lists / "
    "tuples (one level).  Never touched: attributes of returned objects, dict / set results, containers inside returned objects, object elements of returned "
    "containers, anything deeper, results of the state-probe entries marked no_scribble (crc.lookup_table, mbxml.tables).  Writing into attributes of returned "
    "objects or into tables a helper handed out is not a library call and is outside the statement (latent aliasing hazards at the anchored default-argument "
    "sites are listed in DESIGN.md as observations, patches kept unapplied in scratch/C19/)",
    "object arguments: an object explicitly passed to another entry point is snapshotted (full attribute tree); the *receiver* of the methods under test is "
    "not (its private lazy memo fields, e.g. Burst._target_radio_id_resolve_attempt, are its own business) - for receivers only the results of repeated calls "
    "are compared",
    "representation variants (little-endian / frozen bitarray arguments, bytearray octet strings) are judged by purity only: the call must give the same observation as the same call "
    "(same container) in a fresh state and leave the buffer unchanged; whether the value computed for a little-endian container is *right* is C05/C06's business",
    "pinned clocks: 2026-09-26 (the project's present), 1971-01-02 and 2099-12-30, 12:00 UTC; patched before the library is imported (datetime.date / "
    "datetime.datetime subclasses, time.time, time.time_ns), so every library module sees them",
    "exemptions for argument buffers: HammingCommon.check_and_correct and BPTC19696.repair_if_necessary(deinterleaved=True) (documented in-place repair)",
    "a result that differs between CPython's normal and debug (0xCD-filling) allocator depends on uninitialised memory, i.e. on what earlier calls left "
    "on the heap; this is judged under the first clause of the statement (same arguments, same result)",
    "refused variants with a wrong-typed argument (related sub-check) hand None / a float / a numeric string to the library as they are; they are stimulus: "
    "judged is that the refusal is the same as in a fresh state and that the valid calls after it give their fresh-state observations.  No integer is "
    "handed over where a buffer is expected (bitarray(7) is seven uninitialised bits)",
    "the fold tables used to build the fold clusters are read from the library under test (enum.fold_table in a forked child); they steer the stimulus only",
    "keep_alive batches compare the later observation of every result with its first observation in the same child (both must equal the fresh-state "
    "observation, which is checked for three calls of the batch); a failing batch is cut down to a two-call serialise_later step judged against fresh states",
    "not in the catalogue (not codec entry points or setters by contract): transmission/terminal/timeslot tracking, datagram protocols, storage, tools, SNMP, "
    "fill_encoding_table / set_parity (write into their numpy argument by name), object setters (set_sequence_no, add_option, context, ...)",
]

CHILD_TIMEOUT = 120.0
_B_CACHE: dict = {}
_LAST: dict = {}


def _key(call) -> str:
    return json.dumps(call, sort_keys=True, separators=(",", ":"))


def _first_diff(x, y, path="$", la="in_history", lb="alone"):
    if type(x) is not type(y):
        return {"at": path, la: _clip(x), lb: _clip(y)}
    if isinstance(x, dict):
        for k in list(x.keys()) + [k for k in y.keys() if k not in x]:
            if k not in x or k not in y:
                return {"at": f"{path}.{k}", la: _clip(x.get(k, "<absent>")), lb: _clip(y.get(k, "<absent>"))}
            d = _first_diff(x[k], y[k], f"{path}.{k}", la, lb)
            if d:
                return d
        return None
    if isinstance(x, list):
        if len(x) != len(y):
            return {"at": path + ".length", la: len(x), lb: len(y), la + "_value": _clip(x), lb + "_value": _clip(y)}
        for i, (p, q) in enumerate(zip(x, y)):
            d = _first_diff(p, q, f"{path}[{i}]", la, lb)
            if d:
                return d
        return None
    return None if x == y else {"at": path, la: _clip(x), lb: _clip(y)}


def _clip(v, n=400):
    s = json.dumps(v)
    return v if len(s) <= n else s[:n] + "…"


VOLATILE = {"lp.new_default"}  # after the LP repair the default GPS data reads date.today() per call: never cached across cases


def _alone(call) -> dict:
    if call["e"] in VOLATILE:
        return fork_run([call], CHILD_TIMEOUT)[0]
    k = _key(call)
    if k not in _B_CACHE:
        if len(_B_CACHE) > 50000:
            _B_CACHE.clear()
        _B_CACHE[k] = fork_run([call], CHILD_TIMEOUT)[0]
    return _B_CACHE[k]


def _check_catalogue_call(c):
    if not isinstance(c, dict) or c.get("e") not in CATALOGUE or not isinstance(c.get("a"), dict):
        raise HarnessError(f"malformed call in case: {c!r}")
    if c.get("op") not in (None, "scribble_repeat", "reuse", "same_object", "serialise_later", "keep_alive") or c.get("r") not in (None, "little", "frozen", "bytearray") or (c.get("op") == "reuse" and not isinstance(c.get("b"), dict)):
        raise HarnessError(f"malformed compound step in case: {c!r}")
    if c.get("op") in ("same_object", "serialise_later", "keep_alive") and not (isinstance(c.get("seq"), list) and c["seq"] and all(isinstance(q, dict) and q.get("e") in CATALOGUE and isinstance(q.get("a"), dict) for q in c["seq"])):
        raise HarnessError(f"malformed same_object step in case: {c!r}")


MUT_EXPECTED = "every bit/byte buffer passed to the call equals the deep copy taken before the call"
COMPOUND = {
    "scribble_repeat": ("scribble_and_repeat_same_result", ["call", "call again after the caller damaged, in place, its argument objects and the buffer(s) the first call returned as its value"]),
    "reuse": ("argument_reuse_same_result", ["call with arguments a", "call with arguments b written in place into the buffers of the first call", "call with a fresh copy of arguments a"]),
    "same_object": ("same_object_again_same_result", None),
    "serialise_later": ("serialise_later_same_result", None),
    "keep_alive": ("serialise_later_same_result", None),
}
KEEP_ALIVE_FRESH = 3  # of a keep_alive batch, this many calls (first, middle, last) are also compared with their fresh-state observations
OBJ_EXPECTED = "the attribute tree (recursive, buffers by content) of every object passed as an argument equals the snapshot taken before the call"


def _parts(step):
    """the plain calls whose fresh-state observations a step's records must equal"""
    x = {"e": step["e"], "a": step["a"]}
    if step.get("op") == "scribble_repeat":
        return [x, x]
    if step.get("op") == "reuse":
        return [x, {"e": step["e"], "a": step["b"]}, x]
    if step.get("op") == "same_object":
        return [{"e": q["e"], "a": q["a"]} for q in step["seq"]]
    if step.get("op") in ("serialise_later", "keep_alive"):
        seq = [{k: q[k] for k in ("e", "a", "r") if k in q} for q in step["seq"]]
        return seq + seq[::-1]
    if step.get("r"):
        x["r"] = step["r"]
    return [x]


def _records(step, rec):
    return rec["multi"] if step.get("op") else [rec]


def _judge_mutations(i, step, rec):
    for r, plain in zip(_records(step, rec), _parts(step)):
        if r.get("mut"):
            raise Fail("argument_buffers_unchanged", observed={"call_index": i, "entry": plain["e"], "changed": _clip(r["mut"], 600), "op": step.get("op")}, expected=MUT_EXPECTED, klass=plain["e"])
        if r.get("objmut"):
            raise Fail("argument_object_unchanged", observed={"call_index": i, "entry": plain["e"], "op": step.get("op"),
                                                              "changed": [{"object": m["object"], "type": m["type"], "first_difference": _first_diff(m["after"], m["before"], "$", "after", "before")} for m in r["objmut"]]},
                       expected=OBJ_EXPECTED, klass=plain["e"])


def _judge_step_alone(i, step, rec):
    """A step run in a fresh state: argument buffers unchanged; every record of a compound step equals the fresh-state
    observation of the plain call."""
    _judge_mutations(i, step, rec)
    if step.get("op") == "keep_alive":
        # every result observed again after all results of the batch existed: equal to its own first observation (which, for a
        # sample of the batch, is also compared with the fresh-state observation of the plain call)
        n, parts = len(step["seq"]), _parts(step)
        if len(rec["multi"]) != 2 * n:
            raise HarnessError("keep_alive step returned a different number of records")
        for k in range(n):
            first, later = rec["multi"][k], rec["multi"][2 * n - 1 - k]
            if first != later:
                raise Fail("serialise_later_same_result", observed={"call_index": i, "entry": parts[k]["e"], "call": parts[k], "step": f"result of call {k + 1} of {n} observed / serialised again after all {n} results existed",
                                                                   "first_difference": _first_diff(later, first, "$", "observed_later", "observed_at_once")},
                           expected="the observation taken right after the call (results of other calls must not alter it)", klass=parts[k]["e"])
        for k in sorted({0, n // 2, n - 1})[:KEEP_ALIVE_FRESH]:
            B = _alone(parts[k])
            if rec["multi"][k] != B:
                raise Fail("serialise_later_same_result", observed={"call_index": i, "entry": parts[k]["e"], "call": parts[k], "step": f"call {k + 1} of {n}", "first_difference": _first_diff(rec["multi"][k], B, "$", "observed", "fresh_state")},
                           expected="the observation the plain call gives in a fresh interpreter state", klass=parts[k]["e"])
        return
    if step.get("op"):
        clause, labels = COMPOUND[step["op"]]
        for k, (r, plain) in enumerate(zip(rec["multi"], _parts(step))):
            B = _alone(plain)
            if r != B:
                if labels:
                    label = labels[k]
                elif step["op"] == "serialise_later":
                    n = len(step["seq"])
                    label = f"call {k + 1} of {n} ({plain['e']})" if k < n else f"result of call {2 * n - k} of {n} ({plain['e']}) observed / serialised again after all {n} results existed"
                else:
                    label = f"call {k + 1} of {len(rec['multi'])} ({plain['e']}) with the object argument(s) built once and passed again"
                raise Fail(clause, observed={"call_index": i, "entry": plain["e"], "step": label, "first_difference": _first_diff(r, B, "$", "observed", "fresh_state")},
                           expected="the observation the plain call gives in a fresh interpreter state", klass=plain["e"])


def oracle_history(case):
    """case = {calls: [step, ...], kind?}; a step is a plain call {e, a} or a compound step {op: scribble_repeat | reuse, e, a[, b]}.
    Child A runs the history, child B_i runs step i alone."""
    calls = case["calls"]
    if not calls:
        return
    for c in calls:
        _check_catalogue_call(c)
    import_library()
    A = fork_run(calls, CHILD_TIMEOUT)
    if len(A) != len(calls):
        raise HarnessError("child returned a different number of observations")
    if calls[0]["e"] not in VOLATILE:
        _B_CACHE.setdefault(_key(calls[0]), A[0])
    _LAST.clear()
    _LAST.update(raised=sum(1 for c, o in zip(calls, A) for r in _records(c, o) if "raised" in r), n=len(calls), first=_records(calls[0], A[0])[0])
    for i, (c, o) in enumerate(zip(calls, A)):
        _judge_mutations(i, c, o)
    for i in range(len(calls)):
        B = _alone(calls[i])
        _judge_step_alone(i, calls[i], B)
        if i == 0 or A[i] == B:
            continue
        culprit = None
        for j in range(i):
            if fork_run([calls[j], calls[i]], CHILD_TIMEOUT)[1] != B:
                culprit = j
                break
        raise Fail(
            "result_independent_of_history",
            observed={"call_index": i, "entry": calls[i]["e"], "culprit_index": culprit, "culprit_entry": calls[culprit]["e"] if culprit is not None else None,
                      "first_difference": _first_diff(A[i], B)},
            expected="the observation the same call gives in a fresh interpreter state",
            klass=(f"writer={calls[culprit]['e']}" if culprit is not None else f"reader={calls[i]['e']}"),
        )


_PAIR = None
_PAIR_PID = 0


def _zygotes() -> ZygotePair:
    """The pair of clock zygotes of *this* process (a pair inherited through fork belongs to the parent: never shared)."""
    global _PAIR, _PAIR_PID
    import os

    if _PAIR is not None and _PAIR_PID != os.getpid():
        _PAIR.forget()
        _PAIR = None
    if _PAIR is None:
        _PAIR = ZygotePair("props.c19")
        _PAIR_PID = os.getpid()
        import atexit

        atexit.register(_close_zygotes)
    return _PAIR


def _close_zygotes():
    global _PAIR
    import os

    if _PAIR is not None and _PAIR_PID == os.getpid():
        _PAIR.close()
    _PAIR = None


def oracle_clock(case):
    """case = {calls: [...]}.  Four fresh interpreters run the calls: Z0 (clock pinned to 2026-09-26), Z1 (1971-01-02, other
    random streams), Z2 (2099-12-30, other random streams), Z3 (as Z0 but PYTHONMALLOC=debug: fresh memory is filled with 0xCD).
    Every call must be observed identically in Z0 and Z3 (a result must not depend on uninitialised memory); every *parsing*
    call identically in Z0, Z1 and Z2."""
    calls = case["calls"]
    for c in calls:
        _check_catalogue_call(c)
    o0, o1, o2, o3 = _zygotes().run(calls, CHILD_TIMEOUT)
    _LAST.clear()
    _LAST.update(nonparsing_differences=[])
    for i, c in enumerate(calls):
        if o0[i] != o3[i]:
            raise Fail("result_independent_of_uninitialised_memory", observed={"call_index": i, "entry": c["e"], "first_difference": _first_diff(o0[i], o3[i], "$", "normal_allocator", "debug_allocator_0xCD_fill")},
                       expected="equal observations in two interpreters that differ only in the content of freshly allocated memory", klass=c["e"])
    for other, k in ((o1, 1), (o2, 2)):
        for i, c in enumerate(calls):
            if o0[i] == other[i]:
                continue
            if not CATALOGUE[c["e"]].parse:
                if c["e"] not in _LAST["nonparsing_differences"]:
                    _LAST["nonparsing_differences"].append(c["e"])
                continue
            raise Fail("parsing_independent_of_clock_and_randomness", observed={"call_index": i, "entry": c["e"], "first_difference": _first_diff(o0[i], other[i], "$", "clock_" + PIN_DATES[0], "clock_" + PIN_DATES[k])},
                       expected="equal observations under pinned clocks far apart (" + ", ".join(PIN_DATES) + ") and different random streams", klass=c["e"])


# ============================================================================================== generators

PAIRS = [
    ("lrrp.get_token", "mbxml.from_bytes"), ("lrrp.get_token", "lrrp.get_token"), ("lrrp.get_token", "lrrp.build"), ("lrrp.build", "mbxml.from_bytes"),
    ("mbxml.from_bytes", "mbxml.from_bytes"), ("mbxml.from_bytes", "lrrp.get_token"), ("lrrp.get_token", "mbxml.tables"), ("lrrp.get_attribute", "lrrp.get_token"),
    ("bits.byteswap_bytearray", "crc32.calculate"), ("bits.byteswap_bytearray", "ipsc.from_ipsc_bytes"), ("bits.byteswap_bytes", "crc32.calculate"),
    ("crc.shared_calculator", "crc16.calculate"), ("crc.shared_calculator", "crc32.calculate"), ("crc.shared_calculator", "crc9.calculate"),
    ("crc.shared_calculator", "crc8.calculate"), ("crc.lookup_table", "crc16.calculate"), ("crc.calculator", "crc.lookup_table"), ("crc.register_workflow", "crc.calculator"),
    ("crc16.calculate", "csbk.from_bits"), ("crc16.calculate", "crc16.calculate"), ("crc32.calculate", "crc32.calculate"), ("crc9.from_parts", "rate12.from_bits_typed"),
    ("crc8.calculate", "short_lc.from_bits"), ("crc8.calculate", "vbptc68.encode"),
    ("csbk.new_default", "csbk.from_bits"), ("csbk.from_bits", "csbk.new_default"), ("data_header.new_default", "data_header.from_bits"),
    ("data_header.from_bits", "data_header.new_default"), ("burst.new_default", "burst.from_bytes"), ("burst.from_bits", "burst.new_default"),
    ("burst.from_bytes", "burst.new_default"), ("burst.from_hytera_ipsc", "burst.new_default"), ("burst.from_mmdvm", "burst.from_bytes"),
    ("rcp.status_change_request", "rcp.new_default"), ("rcp.from_bytes", "rcp.new_default"), ("rcp.new_default", "rcp.from_bytes"),
    ("lp.from_bytes", "lp.new_default"), ("lp.new_default", "lp.from_bytes"), ("gps.from_bytes", "lp.new_default"),
    ("service_options.from_bits", "service_options.new_default"), ("full_lc.from_bits", "service_options.new_default"),
    ("hamming.check_and_correct", "hamming.generate"), ("hamming.encode_then_repair", "hamming.check"), ("hamming.correct_numpy_array", "bptc.encode"),
    ("bptc.codeword_with_errors", "bptc.encode"), ("bptc.repair_if_necessary", "bptc.deinterleave_data_bits"), ("bptc.encode", "burst.from_bytes"),
    ("vbptc128.encode", "vbptc128.decode"), ("vbptc68.encode", "vbptc68.decode"), ("vbptc32.encode", "vbptc32.decode"), ("trellis.decode", "trellis.encode"),
    ("tms.from_bytes", "tms.from_bytes"), ("ars.from_bytes", "ars.from_bytes"), ("hstrp.from_bytes", "hstrp_options.from_bytes"),
    ("hrnp.from_bytes", "hrnp.new_default"), ("hdap.from_bytes", "hstrp.from_bytes"), ("tmp.from_bytes", "hdap.from_bytes"),
]
DEFAULT_ENTRIES = ["burst.new_default", "service_options.new_default", "csbk.new_default", "data_header.new_default", "rcp.new_default", "lp.new_default",
                   "hrnp.new_default", "hstrp_options.from_bytes", "rcp.status_change_request"]


# state probes: calls whose result is a dump of shared state (cached tables, token tables, default-argument objects); appended to
# half of the generated histories (their fresh-state observations are cached, so they cost no extra child)
PROBES = (
    [{"e": "crc.lookup_table", "a": {"cfg": c}} for c in CRC_CFGS]
    + [{"e": "mbxml.tables", "a": {"doc": d}} for d in ("LRRP_ImmediateLocationRequest_NCDT", "LRRP_ImmediateLocationReport_NCDT")]
    + [{"e": "burst.new_default", "a": {}},
       {"e": "rcp.new_default", "a": {"opcode": "StatusChangeNotificationRequest", "reliable": False}},
       {"e": "csbk.new_default", "a": {"csbko": "AnnouncementPDUsWithoutResponse", "src": 1, "dst": 2}},
       {"e": "data_header.new_default", "a": {"dpf": "ShortDataDefined", "src": 1, "dst": 2, "ab": 1}},
       {"e": "service_options.new_default", "a": {"prio": 0, "emergency": False}},
       {"e": "hstrp_options.from_bytes", "a": {"data": ""}},
       {"e": "hrnp.new_default", "a": {"pn": 0}}]
)


# entries that take a parsed / constructed OBJECT argument, by the type of the object; `fixed` pins the arguments that select the object path
OBJECT_ENTRIES = {
    "kaitai_ipsc": {"burst.from_hytera_ipsc": {"kaitai": True}, "ipsc.from_kaitai": {}},
    "kaitai_mmdvm": {"burst.from_mmdvm": {}},
    "burst": {"ipsc.wrap_burst": {}, "burst.serialise": {}},
    "hdap": {"hrnp.wrap_hdap": {}, "hstrp.wrap_hdap": {}},
    "gps": {"lp.with_gps": {}},
    "mbxml_doc": {"mbxml.serialise_doc": {}},
    "data_header": {"txgen.data_header_burst": {}},
}
_REJECTED: dict = {}


def _observe_quickly(call):
    k = _key(call)
    if k not in _B_CACHE:
        _B_CACHE[k] = fork_run([call], 20.0)[0]
    return _B_CACHE[k]


def _rejected(eid: str, keep: int = 6):
    """The rejected variants of an entry: candidates derived from the argument specs (one argument just outside its spec, under
    every setting of the entry's boolean mode flags) that the library actually answers with an exception in a fresh state
    (observed, cached); at most ``keep`` per entry, one per (argument + flag setting, exception type)."""
    if eid not in _REJECTED:
        import_library()
        out, sigs = [], set()
        for c in reject_candidates(CATALOGUE[eid]):
            call = {"e": c["e"], "a": c["a"]}
            try:
                o = _observe_quickly(call)
            except HarnessError:
                continue  # the entry script cannot hand the value to the library, or the call does not return in time
            if "raised" in o and (c["arg"], o["raised"][0]) not in sigs and len(out) < keep:
                sigs.add((c["arg"], o["raised"][0]))
                out.append(call)
        _REJECTED[eid] = out
    return _REJECTED[eid]


_REFUSED: dict = {}


def _refused(eid: str, keep: int = 2):
    """wrong-typed variants of an entry's first canonical call (None / a float / a numeric string in place of one argument) that the
    library answers with an exception in a fresh state; at most ``keep`` per entry, one per (argument, exception type), arguments first"""
    if eid not in _REFUSED:
        import_library()
        found, sigs = [], set()
        for c in wrong_type_candidates(CATALOGUE[eid]):
            call = {"e": c["e"], "a": c["a"]}
            try:
                o = _observe_quickly(call)
            except HarnessError:
                continue  # refused by the entry script itself, before the library saw it
            if "raised" in o and (c["arg"], o["raised"][0]) not in sigs:
                sigs.add((c["arg"], o["raised"][0]))
                found.append((c["arg"], call))
        out, args = [], []
        for arg, call in found:  # one per argument first
            if arg not in args and len(out) < keep:
                args.append(arg)
                out.append(call)
        _REFUSED[eid] = out
    return _REFUSED[eid]


_UNUSUAL: dict = {}


def _unusual(eid: str, keep: int = 8):
    """The unusual variants of an entry: one enum-coded switch set to a code the spec does not list (unlisted manufacturer id,
    reserved opcode / format ...), whatever the library answers (accepted with a fallback member, or rejected)."""
    if eid not in _UNUSUAL:
        import_library()
        out = []
        for c in unusual_candidates(CATALOGUE[eid]):
            call = {"e": c["e"], "a": c["a"]}
            try:
                _observe_quickly(call)
            except HarnessError:
                continue
            out.append(call)
        if len(out) > keep:  # spread over the candidates (they are grouped by switch)
            step = (len(out) - 1) / (keep - 1)
            out = [out[round(i * step)] for i in range(keep)]
        _UNUSUAL[eid] = out
    return _UNUSUAL[eid]


def _same_object_steps(x):
    """same_object steps for a call x of an object-taking entry: X(obj), X(obj); and X(obj), Y(obj), X(obj) for every other entry
    Y taking the same type of object (Y's remaining arguments: its first canonical variant)."""
    out = []
    for tag, ents in OBJECT_ENTRIES.items():
        if x["e"] not in ents:
            continue
        ax = {**x["a"], **ents[x["e"]]}
        X = {"e": x["e"], "a": ax}
        out.append({"e": x["e"], "a": ax, "op": "same_object", "seq": [X, X]})
        for y, fixed in ents.items():
            if y != x["e"]:
                ay = dict(canonical_calls(CATALOGUE[y], 1)[-1]["a"])
                ay.update({n: v for n, v in ax.items() if n in CATALOGUE[y].args and n not in fixed and n in ("data", "bt", "gps")})
                ay.update(fixed)
                out.append({"e": x["e"], "a": ax, "op": "same_object", "seq": [X, {"e": y, "a": ay}, X]})
    return out


# ---------------------------------------------------------------------------------------------- related values (round 7)
#
# A *cluster* is a small set of calls that share a coarse key although they differ in entry point, mode or raw value: the fold target of
# an enum and raw values that `_missing_` folds onto it, in every PDU family that carries the field; one value through every sibling
# writer / code / mode of an entry; one argument value through every entry of the group that takes an argument of that name; the same
# four octets as an IP address in either byte order through every Hytera PDU that carries one; near-twins of one message that differ
# in a single octet (top bit flipped, 0x7F / 0xFF).  A memo, register or enum singleton keyed by the coarse key carries state between
# exactly such calls.  Every cluster runs as: one *circuit* (a history in which every ordered pair of its calls occurs adjacently,
# hence also X, Y, X for every X, Y), explicit triples X, Y, X (each in its own child: the first X is the first use of the shared
# state), and a serialise_later step that keeps all results alive and observes them again.


def _euler(n: int):
    """indices 0..n-1 in an order in which every ordered pair (i, j), i != j, occurs adjacently exactly once (Eulerian circuit of the
    complete digraph); length n(n-1)+1"""
    if n < 2:
        return list(range(n))
    nxt = {i: [j for j in range(n - 1, -1, -1) if j != i] for i in range(n)}
    stack, circuit = [0], []
    while stack:
        v = stack[-1]
        if nxt[v]:
            stack.append(nxt[v].pop())
        else:
            circuit.append(stack.pop())
    return circuit[::-1]


def _rbits(tag: str, n: int) -> str:
    import random

    return format(random.Random("C19/site/" + tag).getrandbits(n), f"0{n}b") if n else ""


def _put(s: str, off: int, w: int, v: int) -> str:
    return s[:off] + format(v & ((1 << w) - 1), f"0{w}b") + s[off + w:]


def _puthex(h: str, byte: int, v: int, mask: int = 0xFF, shift: int = 0) -> str:
    b = bytearray(bytes.fromhex(h))
    b[byte] = (b[byte] & ~(mask << shift) & 0xFF) | ((v & mask) << shift)
    return bytes(b).hex()


_B_CSBK = "10" + "111000" + "00000000" + _rbits("csbk", 64) + "0" * 16              # BS outbound activation
_B_CSBK_ANN = "10" + "101000" + "00000000" + _rbits("csbk-ann", 64) + "0" * 16      # announcement PDU (announcement type: first 5 bits of the data)
_B_FLC = "00" + "000000" + "00000000" + _rbits("flc", 56) + _rbits("flc-rs", 24)    # group voice channel user
_B_SLC = "0000" + _rbits("slc", 24) + "0" * 8
_B_SLC_ACT = "0001" + _rbits("slc-act", 24) + "0" * 8                               # activity update
_B_DH = _rbits("dh", 4) + "0010" + "0100" + _rbits("dh2", 68) + "0" * 16            # unconfirmed data, SAP IP based
_B_DH_SDD = "0000" + "1101" + "1010" + _rbits("dh-sdd", 68) + "0" * 16              # short data defined
_B_DH_UDT = "0000" + "0000" + "0000" + _rbits("dh-udt", 68) + "0" * 16              # unified data transport
_B_ST = "0001" + "0011" + "0" * 12
_B_UDP = _rbits("udp", 16) + "0000" + "0001" + "0" + "0000001" + "0" + "0000010" + _rbits("udp-data", 32)
_B_EMB = "0001" + "0" + "00" + "0" * 9
# (enum, entry, argument, base value, offset, width) - bit strings
BIT_SITES = [
    ("CsbkOpcodes", "csbk.from_bits", "bits", _B_CSBK, 2, 6), ("FeatureSetIDs", "csbk.from_bits", "bits", _B_CSBK, 8, 8),
    ("AnnouncementType", "csbk.from_bits", "bits", _B_CSBK_ANN, 16, 5), ("FLCOs", "full_lc.from_bits", "bits", _B_FLC, 2, 6),
    ("FeatureSetIDs", "full_lc.from_bits", "bits", _B_FLC, 8, 8), ("FeatureSetIDs", "full_lc.from_bits", "bits", _B_FLC[:77], 8, 8),
    ("SLCOs", "short_lc.from_bits", "bits", _B_SLC, 0, 4),
    ("ActivityID", "short_lc.from_bits", "bits", _B_SLC_ACT, 4, 4), ("ActivityID", "short_lc.from_bits", "bits", _B_SLC_ACT, 8, 4),
    ("DataPacketFormats", "data_header.from_bits", "bits", _B_DH, 4, 4), ("SAPIdentifier", "data_header.from_bits", "bits", _B_DH, 8, 4),
    ("SAPIdentifier", "data_header.from_bits", "bits", _B_DH_SDD, 8, 4), ("DefinedDataFormats", "data_header.from_bits", "bits", _B_DH_SDD, 64, 6),
    ("UDTFormat", "data_header.from_bits", "bits", _B_DH_UDT, 12, 4), ("CsbkOpcodes", "data_header.from_bits", "bits", _B_DH_UDT, 74, 6),
    ("DataTypes", "slot_type.from_bits", "bits", _B_ST, 4, 4),
    ("IPAddressIdentifier", "udp_header.from_bits", "bits", _B_UDP, 16, 4), ("IPAddressIdentifier", "udp_header.from_bits", "bits", _B_UDP, 20, 4),
    ("UDPPortIdentifier", "udp_header.from_bits", "bits", _B_UDP, 25, 7), ("UDPPortIdentifier", "udp_header.from_bits", "bits", _B_UDP, 33, 7),
    ("LCSS", "emb.from_bits", "bits", _B_EMB, 5, 2),
]
# (enum, entry, argument, base value, octet, mask, shift, other arguments) - hex strings
HEX_SITES = [
    ("FeatureSetIDs", "csbk.from_bytes", "data", "b800" + "0000000065" + "0000ca" + "c42f", 1, 0xFF, 0, {}),
    ("FeatureSetIDs", "full_lc.from_bytes", "data", "0000" + "000000062" + "0baefe8" + "0000", 1, 0xFF, 0, {}),
    ("FeatureSetIDs", "full_lc.from_bytes", "data", V_FULL_LC_10[0], 1, 0xFF, 0, {}),
    ("DataPacketFormats", "data_header.from_bytes", "data", V_DATA_HEADER[1], 0, 0x0F, 0, {}), ("SAPIdentifier", "data_header.from_bytes", "data", V_DATA_HEADER[1], 1, 0x0F, 4, {}),
    ("FailureReason", "ars.from_bytes", "data", "0002ff00", 3, 0xFF, 0, {}), ("FailureReason", "ars.from_bytes", "data", "0004ff001080", 3, 0xFF, 0, {}),
    ("TMSEncoding", "tms.from_bytes", "data", "000DE00101954461006800" + "6F006A00", 6, 0x1F, 0, {"endian": "big"}),
    ("PacketType", "ipsc.from_ipsc_bytes", "data", V_IPSC[0], 8, 0xFF, 0, {}), ("FrameType", "ipsc.from_ipsc_bytes", "data", V_IPSC[0], 22, 0xFF, 0, {}),
    ("PacketType", "burst.from_hytera_ipsc", "data", V_IPSC[0], 8, 0xFF, 0, {"kaitai": False}),
]


def _rcp_status_frame(target: int, setting: int) -> str:
    return _hdap_frame({"svc": 0x02, "rel": False, "op": (0x10C7).to_bytes(2, "little").hex(), "le": True, "payload": "01%02x%02x" % (target & 0xFF, setting & 0xFF)})


def _enum_sites(cls: str):
    """[(label, value -> call)]: the places of the catalogue where a value of the enum enters the library"""
    out = [("enum.by_value", lambda v: {"e": "enum.by_value", "a": {"ev": {"cls": cls, "value": v}}})]
    if cls in ELEMENTS:
        w = ELEMENTS[cls][1]
        out.append(("element.from_bits", lambda v: {"e": "element.from_bits", "a": {"eb": {"cls": cls, "bits": format(v, f"0{w}b")}}} if v < (1 << w) else None))
    for c, e, arg, base, off, w in BIT_SITES:
        if c == cls:
            out.append((f"{e}[{off}:{off + w}]/{len(base)}", lambda v, e=e, arg=arg, base=base, off=off, w=w: {"e": e, "a": {arg: _put(base, off, w, v)}} if v < (1 << w) else None))
    for c, e, arg, base, byte, mask, shift, other in HEX_SITES:
        if c == cls:
            out.append((f"{e}[{byte}]/{len(base) // 2}", lambda v, e=e, arg=arg, base=base, byte=byte, mask=mask, shift=shift, other=other:
                        {"e": e, "a": {arg: _puthex(base.lower(), byte, v, mask, shift), **other}} if v <= mask else None))
    if cls == "DataTypes":
        out.append(("slot_type.new", lambda v: {"e": "slot_type.new", "a": {"cc": 1, "dt": v, "parity": 0}}))
    if cls == "LCSS":
        out.append(("emb.new", lambda v: {"e": "emb.new", "a": {"cc": 1, "pi": 0, "lcss": v, "parity": 0}}))
    if cls == "StatusChangeNotificationTargets":
        out.append(("rcp.from_bytes", lambda v: {"e": "rcp.from_bytes", "a": {"data": _rcp_status_frame(v, 1)}}))
        out.append(("rcp.status_change_request", lambda v: {"e": "rcp.status_change_request", "a": {"settings": [{"target": v, "setting": 1}]}}))
    if cls == "StatusChangeNotificationSetting":
        out.append(("rcp.from_bytes", lambda v: {"e": "rcp.from_bytes", "a": {"data": _rcp_status_frame(2, v)}}))
        out.append(("rcp.status_change_request", lambda v: {"e": "rcp.status_change_request", "a": {"settings": [{"target": 2, "setting": v}]}}))
    return out


_FOLDS: dict = {}


def _folds(cls: str) -> dict:
    """{target value: [raw values 0..255 that the library resolves to the member carrying the target value]} as the library under
    test answers in a fresh state (one forked child per enum, cached; computed in the parent so that the workers inherit it)"""
    if cls not in _FOLDS:
        import_library()
        try:
            tab = _observe_quickly({"e": "enum.fold_table", "a": {"cls": cls}}).get("ok")
        except HarnessError:
            tab = None
        d: dict = {}
        if isinstance(tab, list) and len(tab) == 256:
            for v, t in enumerate(tab):
                if isinstance(t, int) and t >= 0 and t != v:
                    d.setdefault(t, []).append(v)
        _FOLDS[cls] = d
    return _FOLDS[cls]


def _spread(vals, k: int):
    vals = list(vals)
    if len(vals) <= k:
        return vals
    step = (len(vals) - 1) / (k - 1)
    return [vals[round(i * step)] for i in range(k)]


def _dedup(calls):
    out, seen = [], set()
    for c in calls:
        if c is not None and _key(c) not in seen:
            seen.add(_key(c))
            out.append(c)
    return out


def fold_clusters(max_sites: int = 6):
    """per enum and fold target: the target value and <= 3 raw values that fold onto it (lowest, a middle one, highest), each through
    every site of the enum"""
    out = []
    for cls in sorted(ENUM_CLASSES):
        sites = _enum_sites(cls)[:max_sites]
        for t, raws in sorted(_folds(cls).items()):
            vals = [t] + _spread(raws, 3)
            calls = _dedup([fn(v) for v in vals for _, fn in sites])
            if len(calls) >= 2:
                out.append({"rel": f"fold:{cls}->{t}", "calls": calls, "anchor": len(sites)})
    return out


def code_clusters():
    """block codes: the same data word and the same error position through every Hamming code (siblings that share k or n, or
    nothing but a table), through generate / repair / numpy repair / syndrome"""
    import random

    out = []
    word = format(random.Random("C19/code-word").getrandbits(17), "017b")
    for p in range(17):
        calls = []
        for code, (_, _, n, k) in HAMMINGS.items():
            if p < n:
                calls.append({"e": "hamming.encode_then_repair", "a": {"cb": {"code": code, "bits": word[:k]}, "flip": p}})
        out.append({"rel": f"code:error_position={p}", "calls": calls, "anchor": len(calls)})
    for p, q in ((0, 1), (0, 15), (2, 9), (3, 12), (5, 6), (7, 14), (10, 11), (4, 16)):  # double errors next to single errors at the same positions
        calls = []
        for code, (_, _, n, k) in HAMMINGS.items():
            if p < n:
                calls.append({"e": "hamming.encode_then_repair", "a": {"cb": {"code": code, "bits": word[:k]}, "flip": p, "flip2": q % n}})
                calls.append({"e": "hamming.encode_then_repair", "a": {"cb": {"code": code, "bits": word[:k]}, "flip": q % n}})
        out.append({"rel": f"code:double_error={p},{q}", "calls": calls, "anchor": 0})
    # BPTC(196,96): a single error, the Hamming codes of its rows and columns (and their siblings) at the same position, then two errors in one
    # column of the 13 x 15 matrix (transmitted index of matrix cell (r, c): 13 * (15 r + c + 1) mod 196)
    data96 = format(random.Random("C19/bptc-data").getrandbits(96), "096b")
    cell = lambda r, c: (13 * (15 * r + c + 1)) % 196
    for c in range(15):
        r1, r2 = c % 9, (c % 9) + 2 + c % 3
        calls = [{"e": "bptc.codeword_with_errors", "a": {"bits": data96, "flips": [cell(r1, c)], "deinterleaved": False}}]
        calls += [{"e": "hamming.encode_then_repair", "a": {"cb": {"code": code, "bits": word[:HAMMINGS[code][3]]}, "flip": c % HAMMINGS[code][2]}} for code in ("h16114", "h1393", "h17123")]
        calls += [{"e": "bptc.codeword_with_errors", "a": {"bits": data96, "flips": [cell(r1, c), cell(r2, c)], "deinterleaved": d}} for d in (False, True)]
        out.append({"rel": f"code:bptc_column={c}", "calls": calls, "anchor": 0})
    for which, eids in ((3, ["hamming.generate"]), (2, ["hamming.check", "hamming.check_and_correct", "hamming.correct_numpy_array", "fec.syndrome"])):
        for j in range(2):
            w = format(random.Random(f"C19/code-word/{which}/{j}").getrandbits(17), "017b")
            out.append({"rel": f"code:same_word_every_code_{'k' if which == 3 else 'n'}{j}", "anchor": 0,
                        "calls": [{"e": e, "a": {"cb": {"code": code, "bits": w[:HAMMINGS[code][which]]}}} for e in eids for code in HAMMINGS]})
    return out


def varint_clusters():
    """one magnitude (one per bit length 1..31: the top bit and a random tail) through every sibling writer"""
    import random

    out = []
    for L in range(1, 32):
        m = (1 << (L - 1)) | random.Random(f"C19/varint/{L}").getrandbits(L - 1) if L > 1 else 1
        for m_ in sorted({m, 1 << (L - 1)}):
            out.append({"rel": f"varint:bit_length={L}", "anchor": len(VAR_KINDS),
                        "calls": [{"e": "mbxml.write_var", "a": {"kind": k, "m": m_, "frac": 0 if m_ == 1 << (L - 1) else 250, "p": 2}} for k in VAR_KINDS]})
    return out


def _arg_kind(sp):
    import random

    try:
        v = sp.canon(random.Random("C19/kind"), 0)
    except Exception:
        return None
    if isinstance(v, bool):
        return "flag"
    if isinstance(v, int):
        return "int"
    if isinstance(v, str) and not isinstance(sp, (Choice, Const, Seq)):
        return "bits" if sp.unit() == "0" else "hex"
    return None


def _fits(sp, kind: str, v) -> bool:
    """may the value v (of that kind) stand for an argument described by sp?  strings: any length where the spec is of variable /
    structured shape, the exact length for fixed-length specs; integers: inside the range"""
    if kind in ("bits", "hex"):
        u = 1 if kind == "bits" else 2
        if isinstance(sp, (Bits, Hex)):
            return len(v) // u in (sp.n,) + tuple(sp.alts)
        return True
    if kind == "int":
        return isinstance(sp, Int) and sp.lo <= v <= sp.hi
    return False


def mode_switch_clusters():
    """one call under every value of one switch argument (Choice / Flag: CRC mask, configuration, endianness, burst type, block type,
    debug ...), every other argument identical: the same value through every sibling mode"""
    out = []
    for eid in sorted(CATALOGUE):
        e = CATALOGUE[eid]
        base = canonical_calls(e, 1)
        if not base or e.no_scribble:
            continue
        base = base[-1]["a"]
        for n, sp in sorted(e.args.items()):
            if isinstance(sp, Choice) and len(set(map(json.dumps, sp.values))) >= 2:
                vals = []
                for v in sp.values:
                    if v not in vals:
                        vals.append(v)
                out.append({"rel": f"mode_switch:{eid}.{n}", "anchor": 0, "calls": [{"e": eid, "a": {**base, n: v}} for v in vals]})
    return out


def transplant_clusters(max_size: int = 10):
    """per group and argument name: the value one entry's canonical call gives that argument, handed to every entry of the group that
    takes a bit string / octet string / integer argument of the same name (the same frame through every parser, the same bits
    through every CRC front end and calculator, the same word through check / repair / numpy repair ...)"""
    out = []
    for g, eids in sorted(_groups().items()):
        names = sorted({n for x in eids for n in CATALOGUE[x].args})
        for n in names:
            holders = [x for x in eids if n in CATALOGUE[x].args and not CATALOGUE[x].no_scribble]
            for src in holders:
                sc = canonical_calls(CATALOGUE[src], 1)
                kind = _arg_kind(CATALOGUE[src].args[n])
                if not sc or kind not in ("bits", "hex", "int"):
                    continue
                X, v = sc[-1], sc[-1]["a"][n]
                calls = [X]
                for y in holders:
                    if y == src or _arg_kind(CATALOGUE[y].args[n]) != kind or not _fits(CATALOGUE[y].args[n], kind, v):
                        continue
                    yc = canonical_calls(CATALOGUE[y], 1)
                    if yc:
                        calls.append({"e": y, "a": {**yc[-1]["a"], n: v}})
                calls = _dedup(calls)[:max_size]
                if len(calls) >= 2:
                    out.append({"rel": f"transplant:{g}.{n}<-{src}", "anchor": 1, "calls": calls})
    return out


def ip_clusters():
    """the same four octets as a radio IP, in either byte order, through every Hytera entry that carries an address"""
    out = []
    for ip in ("0a000050", "0a2338fc"):
        rev = bytes.fromhex(ip)[::-1].hex()
        calls = []
        for x in (ip, rev):
            calls += [
                {"e": "radio_ip.from_bytes", "a": {"data": x, "endian": "big"}}, {"e": "radio_ip.from_bytes", "a": {"data": x, "endian": "little"}},
                {"e": "rrs.from_bytes", "a": {"data": _hdap_frame({"svc": 0x11, "rel": False, "op": "0003", "le": False, "payload": x})}},
                {"e": "rrs.from_bytes", "a": {"data": _hdap_frame({"svc": 0x11, "rel": False, "op": "0080", "le": False, "payload": x + "00" + "00000e10"})}},
                {"e": "rcp.from_bytes", "a": {"data": _hdap_frame({"svc": 0x02, "rel": False, "op": (0x8452).to_bytes(2, "little").hex(), "le": True, "payload": "0001" + x})}},
                {"e": "rcp.from_bytes", "a": {"data": _hdap_frame({"svc": 0x02, "rel": False, "op": (0x8452).to_bytes(2, "little").hex(), "le": True, "payload": "0000" + x})}},
                {"e": "lp.from_bytes", "a": {"data": _hdap_frame({"svc": 0x08, "rel": False, "op": "a001", "le": False, "payload": "00000001" + x})}},
                {"e": "tmp.from_bytes", "a": {"data": _hdap_frame({"svc": 0x09, "rel": False, "op": "80a2", "le": False, "payload": "00000001" + x + x + "05"})}},
                {"e": "lp.new_default", "a": {"opcode": "StandardRequest", "rid": 1, "ip": x}},
            ]
        out.append({"rel": f"radio_ip:{ip}", "anchor": 0, "calls": _dedup(calls)})
    return out


def _twins(v: str, bits: bool, cap: int = 8):
    """near-twins of a bit / octet string: one octet replaced (top bit flipped, 0x7F, 0xFF): every octet of a short string, the first
    and last four of a longer one"""
    u = 8 if bits else 2
    n = len(v) // u
    pos = list(range(n)) if n <= cap else list(range(cap // 2)) + list(range(n - cap // 2, n))
    out = []
    for i in pos:
        b = int(v[i * u:(i + 1) * u], 2 if bits else 16)
        for nb in (b ^ 0x80, 0x7F, 0xFF):
            if nb != b:
                out.append(v[:i * u] + (format(nb, "08b") if bits else "%02x" % nb) + v[(i + 1) * u:])
    zero = "0" * u
    out.append(v + zero)  # the same octets followed by a zero octet / with the trailing zero octet removed
    if v.endswith(zero) and len(v) > u:
        out.append(v[:-u])
    return out


def twin_batches(cap: int = 400):
    """per entry that returns objects (parsers, constructors): every mode's first call and its near-twins, all kept alive in one
    keep_alive step (a memoised sub-object shared by two results shows when the earlier result is serialised again)"""
    out = []
    for eid in sorted(CATALOGUE):
        e = CATALOGUE[eid]
        if not (e.parse or eid.endswith(".new_default") or eid.endswith(".new")) or e.no_scribble or eid in VOLATILE:
            continue
        seq = []
        for fam in mode_families(e):
            x = fam[0]
            seq += fam
            for n, sp in sorted(e.args.items()):
                kind = _arg_kind(sp)
                v = x["a"].get(n)
                if kind in ("bits", "hex") and isinstance(v, str) and v:
                    seq += [{"e": eid, "a": {**x["a"], n: t}} for t in _twins(v, kind == "bits", 8 if e.group in ("motorola", "mbxml", "pdu") else 4)]
        seq = _dedup(seq)
        if len(seq) > cap:  # spread over the modes
            seq = _spread(seq, cap)
        if len(seq) >= 2:
            out.append({"rel": f"twins:{eid}", "seq": seq})
    return out


def all_clusters():
    return fold_clusters() + code_clusters() + varint_clusters() + mode_switch_clusters() + transplant_clusters() + ip_clusters()


def cluster_cases(cl, triples: bool = True):
    """the histories of one cluster: the circuit, the kept-alive step (both orders), explicit triples X, Y, X (X: the first `anchor` calls -
    the calls with the anchor value - or, with anchor 0, every call; Y: the next call of the cluster in a rotation)"""
    calls, rel = cl["calls"], cl["rel"]
    n = len(calls)
    out = [{"kind": "related_circuit", "rel": rel, "calls": [calls[i] for i in _euler(n)]}]
    for order in (calls, calls[::-1]):
        out.append({"kind": "related_kept_alive", "rel": rel, "calls": [{"e": order[0]["e"], "a": order[0]["a"], "op": "serialise_later", "seq": list(order)}]})
    if triples:
        for i in range(cl.get("anchor") or n):
            for j in {(i + 1 + (i % max(1, n - 1))) % n, (i + (cl.get("anchor") or 1)) % n}:
                if j != i and i < n:
                    out.append({"kind": "related_triple", "rel": rel, "calls": [calls[i], calls[j], calls[i]]})
    return out


def _groups():
    g = {}
    for e in sorted(CATALOGUE):
        g.setdefault(CATALOGUE[e].group, []).append(e)
    return g


def _self_check():
    for w, r in PAIRS:
        if w not in CATALOGUE or r not in CATALOGUE:
            raise HarnessError(f"PAIRS names unknown entry {w} / {r}")
    for e in DEFAULT_ENTRIES:
        if e not in CATALOGUE:
            raise HarnessError(f"DEFAULT_ENTRIES names unknown entry {e}")
    for ents in OBJECT_ENTRIES.values():
        for e, fixed in ents.items():
            if e not in CATALOGUE or any(n not in CATALOGUE[e].args for n in fixed):
                raise HarnessError(f"OBJECT_ENTRIES names unknown entry / argument {e} {fixed}")


def history_strategy(max_len: int = 12, probes: bool = True):
    from hypothesis import strategies as st

    ids = sorted(CATALOGUE)
    call_of = {e: args_strategy(CATALOGUE[e]).map(lambda a, e=e: {"e": e, "a": a}) for e in ids}
    any_call = st.one_of([call_of[e] for e in ids])
    groups = _groups()
    group_call = {g: st.one_of([call_of[e] for e in es]) for g, es in groups.items()}
    default_call = st.one_of([call_of[e] for e in DEFAULT_ENTRIES])

    def kind(name, s):
        return st.tuples(s, st.booleans() if probes else st.just(False)).map(
            lambda t: {"kind": name + ("+probes" if t[1] else ""), "calls": t[0][:max_len] + (list(PROBES) if t[1] else [])})

    def perturbed(e):
        """one entry: a base call, then calls that differ from their predecessor in exactly one argument"""
        specs = CATALOGUE[e].args
        if not specs:
            return st.just([{"e": e, "a": {}}] * 2)
        def change(n):
            fresh = st.tuples(st.just(n), st.just("fresh"), specs[n].strat())
            if isinstance(specs[n], BitsVar):  # same zero-padded octets, other bit length
                return st.one_of(fresh, st.tuples(st.just(n), st.just("zeros"), st.integers(1, 8)))
            return fresh

        one = st.sampled_from(sorted(specs)).flatmap(change)

        def build(t):
            base, changes = t
            calls, cur = [{"e": e, "a": base}], dict(base)
            for n, how, v in changes:
                cur = dict(cur)
                cur[n] = v if how == "fresh" else cur[n] + "0" * v
                calls.append({"e": e, "a": cur})
            return calls

        return st.tuples(args_strategy(CATALOGUE[e]), st.lists(one, min_size=1, max_size=4)).map(build)

    def compound(e):
        """scribble-and-repeat of one call, or argument re-use between two calls of the entry (second arguments: fresh, or the
        first ones with one argument redrawn)"""
        a = args_strategy(CATALOGUE[e])
        specs = CATALOGUE[e].args
        b = a
        if specs:
            b = st.one_of(a, st.tuples(a, st.sampled_from(sorted(specs)).flatmap(lambda n: st.tuples(st.just(n), specs[n].strat()))).map(lambda t: {**t[0], t[1][0]: t[1][1]}))
        return st.one_of(a.map(lambda x: {"e": e, "a": x, "op": "scribble_repeat"}), st.tuples(a, b).map(lambda t: {"e": e, "a": t[0], "b": t[1], "op": "reuse"}))

    any_compound = st.sampled_from(ids).flatmap(compound)
    obj_ids = sorted(e for ents in OBJECT_ENTRIES.values() for e in ents)

    def rejected_then_valid(e):
        rej = _rejected(e)
        first = st.sampled_from(rej) if rej else call_of[e]
        return st.tuples(st.lists(first, min_size=1, max_size=2), st.lists(group_call[CATALOGUE[e].group], min_size=1, max_size=3)).map(lambda t: t[0] + t[1])

    def unusual_then_ordinary(e):
        unu = _unusual(e)
        first = st.sampled_from(unu) if unu else call_of[e]
        return st.tuples(first, st.lists(st.one_of(group_call[CATALOGUE[e].group], call_of[e]), min_size=1, max_size=3)).map(lambda t: [t[0]] + t[1])

    def serialise_later(g):
        return st.tuples(st.lists(group_call[g], min_size=2, max_size=4), st.lists(any_call, max_size=2)).map(
            lambda t: [{"e": t[0][0]["e"], "a": t[0][0]["a"], "op": "serialise_later", "seq": t[0]}] + t[1])

    def with_representation(calls_s):
        """a quarter of the plain calls get their bit-string arguments as little-endian / frozen bitarrays"""
        return st.tuples(calls_s, st.lists(st.sampled_from([None, None, None, None, None, None, "little", "frozen", None, "bytearray"]), min_size=12, max_size=12)).map(
            lambda t: [({**c, "r": t[1][i % 12]} if t[1][i % 12] and not c.get("op") else c) for i, c in enumerate(t[0])])

    def same_object_again(e):
        return st.tuples(call_of[e], st.integers(0, 7), st.lists(any_call, max_size=2)).map(lambda t: [(lambda ss: ss[t[1] % len(ss)])(_same_object_steps(t[0]))] + t[2])

    pools = [cl["calls"] for cl in all_clusters()] + [b["seq"] for b in twin_batches(60)]

    def related(pool):
        """two or three calls of one cluster of related calls (see 'related values'), as X, Y, X / X, noise, Y, X / a kept-alive step"""
        def build(t):
            xs, noise, shape = t
            x, y = xs[0], xs[1 % len(xs)]
            if shape == "kept_alive":
                return [{"e": x["e"], "a": x["a"], "op": "serialise_later", "seq": xs}] + noise
            return [x] + (noise if shape == "noise" else []) + [y] + ([xs[2]] if len(xs) > 2 and shape == "xyzx" else []) + [x]

        return st.tuples(st.lists(st.sampled_from(pool), min_size=2, max_size=3), st.lists(any_call, max_size=2), st.sampled_from(["xyx", "xyx", "noise", "xyzx", "kept_alive"])).map(build)

    return st.one_of(
        kind("rejected_then_valid", st.sampled_from(ids).flatmap(rejected_then_valid)),
        kind("unusual_then_ordinary", st.sampled_from(ids).flatmap(unusual_then_ordinary)),
        kind("serialise_later", st.sampled_from(sorted(groups)).flatmap(serialise_later)),
        kind("representation", with_representation(st.sampled_from(sorted(groups)).flatmap(lambda g: st.lists(group_call[g], min_size=2, max_size=6)))),
        kind("same_object_again", st.sampled_from(obj_ids).flatmap(same_object_again)),
        kind("related", st.sampled_from(range(len(pools))).flatmap(lambda i: related(pools[i]))),
        kind("scribble_and_repeat", st.tuples(st.lists(any_compound, min_size=1, max_size=3), st.lists(any_call, max_size=3)).map(lambda t: t[0] + t[1])),
        kind("random", st.lists(any_call, min_size=1, max_size=max_len)),
        kind("group", st.sampled_from(sorted(groups)).flatmap(lambda g: st.lists(group_call[g], min_size=2, max_size=min(10, max_len)))),
        kind("same_entry", st.sampled_from(ids).flatmap(lambda e: st.lists(call_of[e], min_size=2, max_size=5))),
        kind("same_entry_one_argument_changed", st.sampled_from(ids).flatmap(perturbed)),
        kind("pair", st.sampled_from(PAIRS).flatmap(lambda wr: st.tuples(st.lists(call_of[wr[0]], min_size=1, max_size=2), st.lists(any_call, max_size=2), call_of[wr[1]]).map(lambda t: t[0] + t[1] + [t[2]]))),
        kind("repeat", st.tuples(st.lists(any_call, min_size=1, max_size=6), st.integers(0, 5)).map(lambda t: t[0] + [t[0][t[1] % len(t[0])]])),
        kind("defaults", st.lists(st.one_of(default_call, default_call, any_call), min_size=2, max_size=8)),
    )


def _same_group_twice(calls) -> bool:
    seen = set()
    for c in calls:
        g = CATALOGUE[c["e"]].group
        if g in seen:
            return True
        seen.add(g)
    return False


def _record(sub):
    def rec(case, t: Tally):
        calls = case["calls"]
        n = len(calls)
        kind = case.get("kind", "?")
        if kind.endswith("+probes"):
            calls = calls[: -len(PROBES)]
            n = len(calls)
            t.cls(sub, "with_state_probes")
        t.case(sub, key=case, nontrivial=_same_group_twice(calls), cls="kind=" + kind.replace("+probes", ""))
        t.cls(sub, "len=" + ("1" if n == 1 else "2-3" if n <= 3 else "4-7" if n <= 7 else "8-12"))
        for c in calls:
            if c.get("op"):
                t.cls(sub, "steps_" + c["op"])
        t.cls(sub, "calls_total", n)
        if kind.startswith("rejected_then_valid"):
            t.cls(sub, "rejected_then_valid_first_call_rejected" if "raised" in _LAST.get("first", {}) else "rejected_then_valid_first_call_accepted")
        t.cls(sub, "calls_raised", _LAST.get("raised", 0))
        for g in sorted({CATALOGUE[c["e"]].group for c in calls}):
            t.cls(sub, "touches_group=" + g)
        for c in calls:
            t.extra.setdefault("calls_per_entry", {})
            t.extra["calls_per_entry"][c["e"]] = t.extra["calls_per_entry"].get(c["e"], 0) + 1

    return rec


# ============================================================================================== drivers


def drv_history(ctx: Ctx, sub: SubCheck):
    _self_check()
    import_library()
    strat = history_strategy()

    def work(shard, t: Tally):
        ctx.hypothesis(sub.name, strat, oracle_history, ctx.pick(40, 800), tally=t, shard=shard, record=_record(sub.name))

    ctx.shards(work, list(range(16)))
    ctx.tally.extra["catalogue_entries"] = len(CATALOGUE)
    ctx.tally.extra["catalogue_groups"] = {g: len(es) for g, es in _groups().items()}


def _canon(cap: int = 99):
    out = []
    for e in sorted(CATALOGUE):
        out.extend(canonical_calls(CATALOGUE[e], cap))
    return out


def drv_pairs(ctx: Ctx, sub: SubCheck):
    """Ordered pairs (writer, reader) of canonical calls.  thorough: every ordered pair, each in its own child.  quick: every
    ordered pair inside a group in its own child; across groups one *sweep* per writer (writer followed by the first
    canonical call of every entry of the other groups in one child; a difference is re-examined as an exact pair)."""
    _self_check()
    import_library()
    calls = _canon(ctx.pick(2, 4))
    first = {}
    for c in calls:
        first.setdefault(c["e"], c)
    grp = lambda c: CATALOGUE[c["e"]].group

    def exact(w, r, t: Tally):
        case = {"kind": "canonical_pair", "calls": [w, r]}
        held = ctx.run_case(sub.name, oracle_history, case, t)
        same = grp(w) == grp(r)
        t.case(sub.name, nontrivial=same, cls="pair_same_group" if same else "pair_cross_group")
        if w["e"] == r["e"]:
            t.cls(sub.name, "pair_same_entry_identical_call" if _key(w) == _key(r) else "pair_same_entry_other_arguments")
        return held

    def sweep(w, readers, t: Tally):
        while readers:
            case = {"kind": "sweep", "calls": [w] + readers}
            try:
                oracle_history(case)
                t.case(sub.name, nontrivial=False, cls="sweep_cross_group")
                t.cls(sub.name, "sweep_reader_calls", len(readers))
                return
            except Fail as f:
                i = (f.observed or {}).get("call_index", 0)
                if i == 0 or exact(w, case["calls"][i], t):  # the exact pair holds (or the writer itself failed): report the sweep
                    ctx.judge(sub.name, case, f, t)
                    t.case(sub.name, cls="failing")
                readers = readers[i:] if i else []

    def one_argument_changed(w):
        """calls that differ from w in exactly one argument (value taken from the entry's next generated variant)"""
        e = CATALOGUE[w["e"]]
        gen = [c for c in canonical_calls(e, 2) if c["a"] not in e.canon]
        if len(gen) < 2 or _key(w) != _key(gen[0]):
            return []
        out = []
        for n in sorted(e.args):
            if gen[1]["a"][n] != w["a"][n]:
                a = dict(w["a"])
                a[n] = gen[1]["a"][n]
                out.append({"e": w["e"], "a": a})
        return out if len(out) > 1 else []

    def compound_single(step, t: Tally):
        ctx.run_case(sub.name, oracle_history, {"kind": "scribble_and_repeat", "calls": [step]}, t)
        t.case(sub.name, nontrivial=True, cls="step_" + step["op"])

    def same_octets_other_length(x):
        """for every variable-length bit-string argument: the same bits cut to a length that is not a multiple of 8, then
        extended by one zero bit / zero-filled to the next octet (equal zero-padded octets, different bit strings)"""
        out = []
        for n, spec in sorted(CATALOGUE[x["e"]].args.items()):
            v = x["a"].get(n)
            if isinstance(spec, BitsVar) and isinstance(v, str) and len(v) >= 4:
                base = v[: len(v) - 3 if len(v) % 8 in (0, 3) else len(v)]
                for ext in (base + "0", base + "0" * (-len(base) % 8)):
                    out.append(({"e": x["e"], "a": {**x["a"], n: base}}, {"e": x["e"], "a": {**x["a"], n: ext}}))
        return out

    def family_work(fam, t: Tally):
        """one mode (opcode / variant / length) of one entry, two calls of the same shape: ordered pairs both ways, the argument
        re-use form both ways, scribble-and-repeat of each"""
        for x in fam:
            compound_single({"e": x["e"], "a": x["a"], "op": "scribble_repeat"}, t)
        for x in fam:
            for y in fam:
                if x is not y:
                    ctx.run_case(sub.name, oracle_history, {"kind": "canonical_pair", "calls": [x, y]}, t)
                    t.case(sub.name, nontrivial=True, cls="pair_same_mode_other_data")
                    compound_single({"e": x["e"], "a": x["a"], "b": y["a"], "op": "reuse"}, t)
        for x, y in same_octets_other_length(fam[0]):
            for pair in ((x, y), (y, x)):
                ctx.run_case(sub.name, oracle_history, {"kind": "canonical_pair", "calls": list(pair)}, t)
                t.case(sub.name, nontrivial=True, cls="pair_same_octets_other_bit_length")
        t.cls(sub.name, "modes_covered")

    def entry_work(eid, t: Tally):
        """per entry: (rejected variant, first canonical call of every entry of the group) and (unusual variant, the same readers
        + every mode of the entry itself) as exact ordered pairs; same_object steps for object-taking entries; serialise_later
        steps for entries returning objects; little-endian / frozen bit containers"""
        e = CATALOGUE[eid]
        readers = [c for x, c in sorted(first.items()) if CATALOGUE[x].group == e.group]
        fams = mode_families(e)
        rej = _rejected(eid)
        for R in rej:
            for r in readers:
                ctx.run_case(sub.name, oracle_history, {"kind": "rejected_then_valid", "calls": [R, r]}, t)
                t.case(sub.name, nontrivial=True, cls="pair_rejected_then_valid")
        t.cls(sub.name, "rejected_variants", len(rej))
        if not rej:
            t.cls(sub.name, "entries_without_rejected_variant")
        unu = _unusual(eid)
        own_modes = [f[0] for f in fams]
        for U in unu:
            for r in readers + [m for m in own_modes if _key(m) not in {_key(x) for x in readers}]:
                ctx.run_case(sub.name, oracle_history, {"kind": "unusual_then_ordinary", "calls": [U, r]}, t)
                t.case(sub.name, nontrivial=True, cls="pair_unusual_then_ordinary")
        t.cls(sub.name, "unusual_variants", len(unu))
        if any(eid in ents for ents in OBJECT_ENTRIES.values()):
            xs = [c for c in calls if c["e"] == eid] + own_modes
            seen = set()
            for x in xs:
                for step in _same_object_steps(x):
                    if _key(step) not in seen:
                        seen.add(_key(step))
                        ctx.run_case(sub.name, oracle_history, {"kind": "same_object_again", "calls": [step]}, t)
                        t.case(sub.name, nontrivial=True, cls="step_same_object_" + ("XX" if len(step["seq"]) == 2 else "XYX"))
        # serialise_later: results of different modes of the entry (and of one unusual variant) created first, all serialised afterwards
        if e.parse or eid.endswith(".new_default") or eid.endswith(".new"):
            pool = own_modes + unu[:2]
            for i in range(0, len(pool), 3):
                seq = pool[i:i + 3] if len(pool[i:i + 3]) > 1 else pool[i:i + 3] + own_modes[:1]
                step = {"e": eid, "a": seq[0]["a"], "op": "serialise_later", "seq": seq}
                ctx.run_case(sub.name, oracle_history, {"kind": "serialise_later", "calls": [step]}, t)
                t.case(sub.name, nontrivial=len(seq) > 1, cls="step_serialise_later")
        # representation variants of bit-string arguments: same bit sequence in a little-endian / frozen bitarray
        if fams and any(isinstance(sp, (Bits, BitsVar)) or getattr(sp, "unit", lambda: "00")() == "0" for sp in e.args.values()):
            x = fams[0][0]
            for r in ("little", "frozen"):
                xr = {**x, "r": r}
                for pair in ((x, xr), (xr, x), (xr, fams[0][-1])):
                    ctx.run_case(sub.name, oracle_history, {"kind": "representation", "calls": list(pair)}, t)
                    t.case(sub.name, nontrivial=True, cls="pair_other_bit_container_" + r)
        # the same octets handed over as bytearray instead of bytes (a memo keyed by the value must not mix the containers up); no memoryview:
        # slices of it stay memoryviews inside the parsed objects and their reprs carry addresses
        if fams and any(_arg_kind(sp) == "hex" for sp in e.args.values()):
            x = fams[0][0]
            for r in ("bytearray",):
                xr = {**x, "r": r}
                for pair in ((x, xr), (xr, x)):
                    ctx.run_case(sub.name, oracle_history, {"kind": "representation", "calls": list(pair)}, t)
                    t.case(sub.name, nontrivial=True, cls="pair_other_octet_container_" + r)
        if rej:
            t.sample(sub.name, {"kind": "rejected_then_valid", "calls": [rej[0], readers[0]]})

    def work(chunk, t: Tally):
        if chunk and isinstance(chunk[0], str):
            for eid in chunk:
                entry_work(eid, t)
            return
        if chunk and isinstance(chunk[0], list):
            for fam in chunk:
                family_work(fam, t)
            t.sample(sub.name, {"kind": "scribble_and_repeat", "calls": [{"e": chunk[0][0]["e"], "a": chunk[0][0]["a"], "b": chunk[0][-1]["a"], "op": "reuse"}]})
            return
        for w in chunk:
            if first[w["e"]] is w or not ctx.quick:
                compound_single({"e": w["e"], "a": w["a"], "op": "scribble_repeat"}, t)
            rs = calls if not ctx.quick else [c for c in calls if grp(c) == grp(w)]
            for r in rs:
                exact(w, r, t)
            for v in one_argument_changed(w):
                for pair in ((w, v), (v, w)):
                    ctx.run_case(sub.name, oracle_history, {"kind": "canonical_pair", "calls": list(pair)}, t)
                    t.case(sub.name, nontrivial=True, cls="pair_same_entry_one_argument_changed")
            if ctx.quick and first[w["e"]] is w:
                sweep(w, [c for e, c in sorted(first.items()) if grp(c) != grp(w)], t)
            t.sample(sub.name, {"kind": "canonical_pair", "calls": [w, rs[len(rs) // 2]]})

    families = [f for e in sorted(CATALOGUE) for f in mode_families(CATALOGUE[e])]
    eids = sorted(CATALOGUE)
    items = [calls[i::64] for i in range(64)] + [families[i::48] for i in range(48)] + [eids[i::48] for i in range(48)]
    ctx.shards(work, [c for c in items if c])
    ctx.tally.exhaustive[sub.name] = True
    ctx.tally.extra["canonical_calls"] = len(calls)
    ctx.tally.extra["modes_of_entries"] = len(families)
    ctx.tally.extra["canonical_pair_space"] = (
        "every ordered pair of the canonical calls (directed argument sets + <=4 generated variants per entry), one child per pair" if not ctx.quick else
        "every ordered pair of canonical calls (directed + <=2 generated variants per entry) inside a group, one child per pair; across groups one sweep per entry")
    ctx.tally.notes.append("pairs: exhaustive over ordered pairs of the fixed canonical calls only (not over arguments); every mode of every entry "
                           "(each-choice over opcode / variant / length switches of the argument specs) with two same-shape calls: ordered pairs, argument re-use, scribble-and-repeat")


def drv_related(ctx: Ctx, sub: SubCheck):
    """Clusters of related calls (see 'related values' above): circuit, kept-alive steps and explicit triples of every cluster;
    near-twin batches kept alive.  A failing circuit / batch is re-examined as the smallest history that still fails."""
    _self_check()
    import_library()
    clusters = all_clusters()  # fold tables are observed here, in forked children of the parent; the workers inherit them
    batches = twin_batches(ctx.pick(400, 1200))

    def shrink_history(case, f: Fail, t: Tally) -> bool:
        """candidates cut from a failing circuit around the judged call; True when one of them failed (and was recorded)"""
        cs, o = case["calls"], f.observed or {}
        i, j = o.get("call_index"), o.get("culprit_index")
        if not isinstance(i, int) or i <= 0:
            return False
        cands = ([[cs[j], cs[i]]] if isinstance(j, int) else []) + [[cs[i - 1], cs[i]], [cs[i], cs[i - 1], cs[i]]] + ([[cs[i - 2], cs[i - 1], cs[i]]] if i >= 2 else [])
        for cand in cands:
            if not ctx.run_case(sub.name, oracle_history, {"kind": "related_triple", "rel": case.get("rel"), "calls": cand}, t):
                return True
        return False

    def shrink_batch(case, f: Fail, t: Tally) -> bool:
        seq, call = case["calls"][0]["seq"], (f.observed or {}).get("call")
        if not call:
            return False
        for other in seq:
            if _key(other) == _key(call):
                continue
            for order in ([call, other], [other, call]):
                step = {"e": order[0]["e"], "a": order[0]["a"], "op": "serialise_later", "seq": order}
                if not ctx.run_case(sub.name, oracle_history, {"kind": "related_kept_alive", "rel": case.get("rel"), "calls": [step]}, t):
                    return True
        return False

    def run(case, t: Tally, cls: str, shrink=None):
        if shrink is None:
            ctx.run_case(sub.name, oracle_history, case, t)
        else:
            try:
                oracle_history(case)
            except Fail as f:
                if not shrink(case, f, t):
                    ctx.judge(sub.name, case, f, t)
                t.case(sub.name, cls="failing")
        t.case(sub.name, nontrivial=True, cls=cls)

    first = {}
    for eid in sorted(CATALOGUE):
        cc = canonical_calls(CATALOGUE[eid], 1)
        if cc and not CATALOGUE[eid].no_scribble:
            first[eid] = cc[-1]

    def refused_work(eid, t: Tally):
        """a call refused for a wrong-typed argument, then - directly after it - the first canonical call of every entry of the group
        (one child: R, r1, R, r2, ...; a difference is re-examined as the exact pair)"""
        readers = [first[eid]] + [c for x, c in sorted(first.items()) if CATALOGUE[x].group == CATALOGUE[eid].group and x != eid] if eid in first else []
        for R in _refused(eid) if readers else []:
            hist = [c for r in readers for c in (R, r)]
            run({"kind": "refused_then_valid", "rel": f"refused:{eid}", "calls": hist}, t, "refused_wrong_type_then_valid", shrink_history)
            t.cls(sub.name, "refused_wrong_type_reader_calls", len(readers))

    def work(chunk, t: Tally):
        for it in chunk:
            if isinstance(it, str):
                refused_work(it, t)
                continue
            fam = it["rel"].split(":")[0]
            if "seq" in it:
                seq = it["seq"]
                run({"kind": "twins_kept_alive", "rel": it["rel"], "calls": [{"e": seq[0]["e"], "a": seq[0]["a"], "op": "keep_alive", "seq": seq}]}, t, "twins_kept_alive_batch", shrink_batch)
                t.cls(sub.name, "twins_kept_alive_calls", len(seq))
                continue
            for case in cluster_cases(it):
                run(case, t, f"{fam}_{case['kind'][8:]}", shrink_history if case["kind"] == "related_circuit" else None)
            t.cls(sub.name, "clusters_" + fam)
            t.cls(sub.name, "cluster_calls_" + fam, len(it["calls"]))
        if chunk and not isinstance(chunk[0], str):
            t.sample(sub.name, cluster_cases(chunk[0])[-1] if "seq" not in chunk[0] else {"kind": "twins_kept_alive", "rel": chunk[0]["rel"], "calls": [{"e": chunk[0]["seq"][0]["e"], "a": chunk[0]["seq"][0]["a"], "op": "keep_alive", "seq": chunk[0]["seq"][:4]}]})

    items = sorted(batches, key=lambda b: -len(b["seq"])) + clusters + sorted(CATALOGUE)
    ctx.shards(work, [c for c in (items[i::64] for i in range(64)) if c])
    ctx.tally.exhaustive[sub.name] = True
    ctx.tally.extra["related_clusters"] = len(clusters)
    ctx.tally.extra["fold_targets_observed"] = {cls: {str(t): len(r) for t, r in sorted(d.items())} for cls, d in sorted(_FOLDS.items()) if d}
    ctx.tally.notes.append("related: exhaustive over the fixed clusters only (fold targets x sites, error positions x codes, bit lengths x writers, switch values, "
                           "same-named arguments inside a group, two IP addresses, near-twins of every mode's first call); the fold targets are those the library under test answers")


def _clock_cases():
    """parsers fed with dates on both sides of every pinned clock: the day before / of / after / two days after each clock, and a
    fixed day in the two-digit years {00, 24, 25, 26, 27, 31, 69, 70, 71, 72, 98, 99}; as GPS data, LP StandardReport (also through
    HDAP / HRNP / HSTRP wrapping) and MBXML info-time"""
    import datetime as dt

    days = []
    for d in PIN_DATES:
        base = dt.date.fromisoformat(d)
        days += [base + dt.timedelta(days=k) for k in (-1, 0, 1, 2)]
    days += [dt.date(1900 + yy if yy >= 69 else 2000 + yy, 6, 15) for yy in (0, 24, 25, 26, 27, 31, 69, 70, 71, 72, 98, 99)]
    out = []
    for i, d in enumerate(days):
        gps = _gps_hex({"valid": True, "h": 11, "mi": 22, "s": 33, "d": d.day, "mo": d.month, "y": d.year % 100, "lat": 50033877, "lon": 14265302, "speed": 12, "dir": 251})
        frame = _hdap_frame({"svc": 0x08, "rel": False, "op": "a002", "le": False, "payload": "%08x" % (i + 1) + "0a2338fc" + "0000" + gps})
        out.append({"e": "gps.from_bytes", "a": {"data": gps}})
        out.append({"e": "lp.from_bytes", "a": {"data": frame}})
        out.append({"e": "lp.with_gps", "a": {"gps": gps, "rid": i}})
        if i % 4 == 0:
            out.append({"e": "hdap.from_bytes", "a": {"data": frame}})
            out.append({"e": "hrnp.from_bytes", "a": {"data": _hrnp_frame({"version": 4, "block": 0, "op": 0, "src": 0x20, "dst": 0x10, "pn": i, "good": True, "data": frame})}})
            out.append({"e": "hstrp.from_bytes", "a": {"data": "32420020%04x" % i + "83040001869f040101" + frame}})
        y = d.year
        stamp = (y * 2 ** 26 + d.month * 2 ** 22 + d.day * 2 ** 17 + 11 * 2 ** 12 + 22 * 2 ** 6 + 33).to_bytes(5, "big").hex()
        out.append({"e": "mbxml.from_bytes", "a": {"data": "0d0c22042468ace034" + stamp, "debug": False}})
        out.append({"e": "mbxml.serialise_doc", "a": {"data": "0d0c22042468ace034" + stamp}})
        out.append({"e": "mbxml.write_geo", "a": {"lat": 50033877, "lon": 14265302, "t": {"y": y, "mo": d.month, "d": d.day, "h": 11, "mi": 22, "s": 33}}})
    return out


def drv_clock(ctx: Ctx, sub: SubCheck):
    _self_check()
    _close_zygotes()  # a pair started by regression / witness replays in this process must not be inherited by the workers
    strat = history_strategy(max_len=5, probes=False)
    full = _canon()
    dated = _clock_cases()

    def work(shard, t: Tally):
        try:
            for c in full[shard::4]:
                case = {"kind": "canonical_single", "calls": [c]}
                ctx.run_case(sub.name, oracle_clock, case, t)
                t.case(sub.name, key=case, nontrivial=CATALOGUE[c["e"]].parse, cls="single_parse" if CATALOGUE[c["e"]].parse else "single_other")
                for e in _LAST.get("nonparsing_differences", []):
                    t.cls(sub.name, "nonparsing_call_depends_on_clock_or_randomness:" + e)
            for c in dated[shard::4]:
                case = {"kind": "date_near_a_clock", "calls": [c]}
                ctx.run_case(sub.name, oracle_clock, case, t)
                t.case(sub.name, key=case, nontrivial=CATALOGUE[c["e"]].parse, cls="date_on_both_sides_of_a_clock")

            def rec(case, tt: Tally):
                tt.case(sub.name, key=case, nontrivial=any(CATALOGUE[c["e"]].parse for c in case["calls"]), cls="history")
                tt.cls(sub.name, "parse_calls", sum(1 for c in case["calls"] if CATALOGUE[c["e"]].parse))
                for e in _LAST.get("nonparsing_differences", []):
                    tt.cls(sub.name, "nonparsing_call_depends_on_clock_or_randomness:" + e)

            ctx.hypothesis(sub.name, strat, oracle_clock, ctx.pick(60, 1500), tally=t, shard=shard, record=rec)
        finally:
            _close_zygotes()

    ctx.shards(work, list(range(4)))
    if any(k.startswith(sub.name + ":nonparsing_call_depends") for k in ctx.tally.classes):
        ctx.tally.notes.append("calls that are not parsing were observed to depend on the import date (e.g. the default GPS data of LocationProtocol is "
                               "GPSData.zero() evaluated at import: date.today()); outside the statement's clock clause, listed under coverage.classes")


SUBCHECKS = [
    SubCheck("history", oracle_history, drv_history, "Hypothesis histories of 1..12 steps (plain calls, rejected-then-valid, unusual-then-ordinary, serialise-later, representation variants, scribble-and-repeat, argument re-use, same-object-again): child A (history) vs children B_i (step alone); argument buffers and argument objects unchanged"),
    SubCheck("pairs", oracle_history, drv_pairs, "ordered pairs of canonical calls (writer, reader); every mode of every entry: same-shape ordered pairs, argument re-use, scribble-and-repeat; rejected / unusual variant then every entry of the group; same-object and serialise-later steps; little-endian / frozen containers; same differential oracle"),
    SubCheck("related", oracle_history, drv_related, "clusters of calls that share a coarse key (enum fold target and raw values folding onto it through every site; one word / error position through every block code; one magnitude through every varint writer; one call under every value of a switch argument; one argument value through every entry of the group; the same IP octets in both byte orders; near-twins of every mode's first call): circuit with every ordered pair adjacent, X Y X triples, results kept alive and serialised again; same differential oracle"),
    SubCheck("clock", oracle_clock, drv_clock, "four fresh interpreters: parsing calls agree under clocks pinned to 2026-09-26, 1971-01-02 and 2099-12-30 (inputs with dates on both sides of each clock) and different random streams; all calls agree under a 0xCD-filling allocator"),
]


PREDICATES = {}
