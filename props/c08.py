"""C08 — transmission tracking emits well-formed start/end events for any burst sequence.

Histories of parseable bursts (library-serialised PDU -> Burst -> as_bytes -> Burst.from_bytes; voice bursts from a sync
pattern or an EMB word plus hash-expanded vocoder bits) are fed to one Terminal (two timeslots).  Observers: terminal level
[raiser, recorder, raiser]; per timeslot [terminal, recorder, raiser, recorder]; a raiser raises (when switched on) from every
callback or from one callback kind only, one of 7 exception types.  After every burst the runner checks the
invariants I1..I7 (see RULE).  While a runner lives ``secrets.token_bytes`` (on the real ``secrets`` module, and every name
in an okdmr.dmrlib module namespace that is bound to that function) is replaced by a counter, so that "fresh stream id" is
exact; a probe verifies that the library's stream ids really come from the counter, otherwise freshness is judged against
the recent ids only (see StreamIds).  Library internals are only touched defensively (getattr with fallbacks).
"""
from __future__ import annotations

import hashlib

from vp.core import Ctx, Fail, HarnessError, SubCheck, Tally, lib_raised, make_machine, replay_ops_oracle

LEVEL = "exploration"
RULE = (
    "history = list of ops; op = one burst of the property's alphabet {voice LC header / terminator with LC (Full LC: group, "
    "unit-to-unit, and the rare variants the parser accepts: GPS info, talker alias header / blocks 1-3 with arbitrary octets - "
    "text in the four alias encodings incl. octets >= 0x80, fills, random), "
    "voice burst with one of the 4 voice syncs, voice burst with EMB, data header (confirmed / unconfirmed / response / "
    "defined short data / UDT; blocks-to-follow 0..6, 127; SAP incl. UDP/IP compression), preamble CSBK (blocks-to-follow "
    "0..8, 255), other CSBK (5 opcodes built field by field; 'raw pool': every CSBK opcode and every data packet format the "
    "parser accepts, 4 hash-expanded 96-bit patterns each, octets biased to 00/FF/80/C5), rate 1/2, 3/4, 1 data block (octets "
    "biased to 00/80/FF)} on timeslot 1 or 2 "
    "(optionally repeated n times), or a toggle that switches a raising observer (terminal level before the recorder - on by "
    "default -, terminal level behind the recorder, timeslot level between two recorders) on / off, selects the callback kind "
    "it raises from (all / started / data_ended / voice_ended) and the exception (a plain Exception subclass, ValueError, "
    "KeyError, AssertionError, UnicodeDecodeError, StopIteration, an exception whose str() raises).  Histories come from a Hypothesis RuleBasedStateMachine; half of them start with a scripted prefix "
    "(complete / truncated data call with preambles, complete / open voice call header, sync, EMB bursts, terminator, "
    "a >256-burst voice run, raiser toggles).  Invariants after every burst: I1 process_incoming_burst does not raise; "
    "I2 every *_ended closes a started notification of the same kind on that timeslot that is still open; I3 its header "
    "is a header of that kind received since that start and its blocks are exactly the CSBK / data header / rate-x PDUs "
    "received on that timeslot since (and including) the burst that caused the start; I4 after a call that delivered "
    "an ended and no later started, the tracker is Idle and the returned stream id was never seen before; I5 inside a "
    "voice transmission a voice-sync burst is labelled A and the voice bursts that follow it B..F, A.. until a "
    "non-voice burst intervenes; I6 sequence_no = previous + 1 mod 256, restarting at the timeslot's first value after "
    "a call that delivered an ended; I7 every recorder (behind a raising observer or not) saw the same events, "
    "timeslot recorders only their own.  'short_data_boundary' adds a deterministic enumeration of complete 2-3 burst data "
    "calls (3 SAPs x confirmed/unconfirmed x rate 1/2 + one other rate x blocks-to-follow 1, 2) whose first six user-data "
    "octets take values from {00,01,7F,80,81,FF} on two positions at a time (positions (3,4): all 36 pairs x 3 fills x "
    "both timeslots; the other position pairs: 4 sampled pairs each); 'long_runs' adds 24 deterministic histories with >= 512 "
    "bursts on one timeslot before the first ended, then the end and a second call.  'near_sync' places valid EMB bursts whose 48 centre bits are at Hamming distance 1..3 from each of the 10 SYNC words at "
    "every position B..F of a superframe (such bursts are also a machine rule and part of the scripted voice calls); 'repeats' "
    "runs each burst class 300 times in each tracker mode and 2-3 op blocks N times (N up to 300; the machine has a repeat rule "
    "with the same counts).  'raising_observers' hands every rare header / block variant (72 Full LCs, 25 data headers, "
    "every raw-pool CSBK) over in an ended notification under each of 13 raiser configurations, followed by ordinary calls.  "
    "Machine histories that held are judged again (every 8th) after the history's own bursts went through repr / str, "
    "another terminal and a TransmissionWatcher (prelude_for).  In about half of all histories (every "
    "sub-check) the parsed Burst objects are stamped, before they are fed, with the metadata a transport adapter "
    "(Burst.from_hytera_ipsc / from_mmdvm) sets: a hash-derived sequence_no 0..255, a non-empty (mostly already used) "
    "stream_no, radio ids, timeslot; ops may also feed the same Burst object again (it then carries the library's own "
    "earlier numbering / label).  Distinct = hash of the op list; non-trivial = at least one ended notification, "
    "or a start while another transmission was open, or both timeslots used."
)
ASSUMPTIONS = [
    "'parseable' bursts are the ones Burst.from_bytes accepts with the burst type its caller knows from the transport "
    "framing (Vocoder for voice bursts, DataAndControl otherwise); bursts are serialised by the library itself.  Not in the "
    "property's alphabet and not generated: PI header, MBC, idle, USBD bursts, data bursts with a reserved data type, "
    "vocoder bursts carrying the 'reserved' or the MS-sourced RC sync pattern, link-control opcodes whose parser raises "
    "(terminator data link control, undefined values), data packet formats / CSBK opcodes whose parser raises NotImplementedError",
    "a burst of data type voice LC header / terminator with LC that carries a Full LC the library's parser accepts - GPS info, "
    "talker alias header / block with arbitrary octets - is a parseable burst of the alphabet's classes 'voice LC header' / "
    "'terminator' (Burst.from_bytes accepts it, the tracker opens / ends a voice transmission with it and hands the PDU over); "
    "on the air such LCs travel embedded in voice bursts, the statement quantifies over parseable bursts, not over conformant "
    "transmitters.  FIDs generated for them: 0x00, 0x10, 0x08",
    "raising observers are inside the domain (statement: 'an observer that raises never prevents other observers or later "
    "events'; quantifier: 'observers that do or do not raise'): they are registered through the constructor / add_observer like "
    "the recorders and raise Exception subclasses only (not KeyboardInterrupt / SystemExit / GeneratorExit); with them "
    "registered processing must not fail either, and the recorders must still see the well-formed event stream",
    "I2/I3 are read existentially: an ended notification must match *some* still-open started notification of its kind on "
    "that timeslot (the statement does not say that a new start abandons older ones); the header may be any header of "
    "that kind received since that start",
    "'restart after an end': the sequence number of the burst after the one whose processing delivered the end equals the "
    "number the first burst on that timeslot got",
    "no liveness is demanded (the statement does not say *when* a transmission must end) - that part is C07's",
    "voice bursts that precede the first voice-sync burst of a voice transmission (late entry) carry no label requirement",
    "Timeslot.last_packet_received (wall clock) is not observed",
    "an op whose burst the library under test cannot serialise / parse is skipped and counted (excluded_by_construction "
    "'op_skipped_burst_not_parseable_on_this_tree', class history_with_unparseable_burst_skipped): it is not a parseable burst; on "
    "/repo the count is 0",
    "library surface the harness relies on (all used by the repository's own tests or documented as the observation points of the "
    "property): Terminal(dmrid, observers), Terminal.timeslots[n], WithObservers.add_observer, Terminal.process_incoming_burst, "
    "the three observer callbacks, Burst.from_bytes / as_bytes and the Burst attributes sequence_no, stream_no, voice_burst, the "
    "PDU classes' constructors / as_bits / from_bits and the rate blocks' data, crc32, dbsn, is_confirmed(), is_last_block().  "
    "Tracker state is read as timeslot.transmission.type (fallback: .is_idle; if neither exists the idle clause is skipped and "
    "counted), stream ids additionally as timeslot.transmission.stream_no (recording only).  blocks_expected, blocks_received, "
    "reset_rx_sequence, last_voice_burst and other internals are never read",
    "inbound metadata is stamped on Burst.from_bytes objects by attribute assignment (sequence_no, stream_no, source_radio_id, "
    "target_radio_id, timeslot) - the attributes from_hytera_ipsc / from_mmdvm populate; the hytera_ipsc frame object itself is "
    "not attached.  I4 and I6 judge the values on the Burst returned by process_incoming_burst",
]

LABELS = ["VoiceBurstA", "VoiceBurstB", "VoiceBurstC", "VoiceBurstD", "VoiceBurstE", "VoiceBurstF"]
VOICE_SYNCS = ["BsSourcedVoice", "MsSourcedVoice", "Tdma1Voice", "Tdma2Voice"]
DATA_SYNCS = ["BsSourcedData", "MsSourcedData", "Tdma1Data", "Tdma2Data"]
HDR_FORMATS = ["confirmed", "unconfirmed", "response", "short_defined", "udt"]
SAPS = ["UDP_IP_compression", "IP_PacketData", "ShortData", "Proprietary", "TCP_IP_compression", "ARP", "UDT"]
CSBK_KINDS = ["bs_down", "timing", "hytera", "aloha", "uu_req"]
RATES = {"1/2": 12, "3/4": 18, "1": 24}
BURST_KINDS = ("vhdr", "term", "vsync", "vemb", "dhdr", "pre", "csbk", "data")
RARE_FLCOS = {"gps": "GPSInfo", "ta_hdr": "TalkerAliasHeader", "ta_b1": "TalkerAliasBlock1", "ta_b2": "TalkerAliasBlock2", "ta_b3": "TalkerAliasBlock3"}
ALL_FLCOS = ["group", "unit"] + sorted(RARE_FLCOS)
RAISE_WHAT = ["all", "started", "data_ended", "voice_ended"]
RAISE_EXC = ["boom", "value", "key", "assert", "unicode", "stop", "badstr"]
# 7 octets for the 56 information bits of a rare Full LC: 7-bit text, UTF-8 / ISO 8-bit / UTF-16-LE text with octets >= 0x80, fills
LC_OCTETS = ["4f4b31444d5220", "c5bd6f66696520", "c5bd6c75c5a56f", "e9e8e0fce4f6df", "7d01610069006500"[:14], "fffe410042000a", "00" * 7, "ff" * 7, "80" + "00" * 6, "00" * 6 + "80", "7f" * 7,
             "41" * 6 + "c3", "efbbbf4f4b3144", "0d0a0009001b7e"]


def _h(x, n):
    out, i = b"", 0
    while len(out) < n:
        out += hashlib.sha256(f"{x}:{i}".encode()).digest()
        i += 1
    return out[:n]


# ---------------------------------------------------------------------------------------------- library access


class _Lib:
    _ns = None

    @classmethod
    def get(cls):
        if cls._ns is None:
            from bitarray import bitarray
            from bitarray.util import int2ba

            import secrets as real_secrets_module

            import okdmr.dmrlib.transmission.transmission  # noqa: F401  (make sure the tracker modules are loaded)
            from okdmr.dmrlib.etsi.layer2.burst import Burst
            from okdmr.dmrlib.etsi.layer2.elements.burst_types import BurstTypes
            from okdmr.dmrlib.etsi.layer2.elements.csbk_opcodes import CsbkOpcodes
            from okdmr.dmrlib.etsi.layer2.elements.data_packet_formats import DataPacketFormats
            from okdmr.dmrlib.etsi.layer2.elements.data_types import DataTypes
            from okdmr.dmrlib.etsi.layer2.elements.defined_data_formats import DefinedDataFormats
            from okdmr.dmrlib.etsi.layer2.elements.feature_set_ids import FeatureSetIDs
            from okdmr.dmrlib.etsi.layer2.elements.flcos import FLCOs
            from okdmr.dmrlib.etsi.layer2.elements.full_message_flag import FullMessageFlag
            from okdmr.dmrlib.etsi.layer2.elements.resynchronize_flag import ResynchronizeFlag
            from okdmr.dmrlib.etsi.layer2.elements.sap_identifier import SAPIdentifier
            from okdmr.dmrlib.etsi.layer2.elements.sarq import SARQ
            from okdmr.dmrlib.etsi.layer2.elements.supplementary_flag import SupplementaryFlag
            from okdmr.dmrlib.etsi.layer2.elements.sync_patterns import SyncPatterns
            from okdmr.dmrlib.etsi.layer2.elements.udt_format import UDTFormat
            from okdmr.dmrlib.etsi.layer2.elements.voice_bursts import VoiceBursts
            from okdmr.dmrlib.etsi.layer2.pdu.csbk import CSBK
            from okdmr.dmrlib.etsi.layer2.pdu.data_header import DataHeader
            from okdmr.dmrlib.etsi.layer2.pdu.embedded_signalling import EmbeddedSignalling
            from okdmr.dmrlib.etsi.layer2.pdu.full_link_control import FullLinkControl
            from okdmr.dmrlib.etsi.layer2.pdu.rate1_data import Rate1Data, Rate1DataTypes
            from okdmr.dmrlib.etsi.layer2.pdu.rate12_data import Rate12Data, Rate12DataTypes
            from okdmr.dmrlib.etsi.layer2.pdu.rate34_data import Rate34Data, Rate34DataTypes
            from okdmr.dmrlib.etsi.layer2.pdu.slot_type import SlotType
            from okdmr.dmrlib.etsi.layer3.elements.service_options import ServiceOptions
            from okdmr.dmrlib.etsi.layer3.elements.udt_option_flag import UDTOptionFlag
            from okdmr.dmrlib.transmission.terminal import Terminal
            from okdmr.dmrlib.transmission.transmission_observer_interface import TransmissionObserverInterface
            from okdmr.dmrlib.transmission.transmission_types import TransmissionTypes

            class Recorder(TransmissionObserverInterface):
                def __init__(self, name):
                    self.name = name
                    self.events = []

                def transmission_started(self, transmission_type):
                    self.events.append(("started", transmission_type, None))

                def data_transmission_ended(self, transmission_header, blocks):
                    self.events.append(("data_ended", transmission_header, list(blocks)))

                def voice_transmission_ended(self, voice_header, blocks):
                    self.events.append(("voice_ended", voice_header, list(blocks)))

            class ObserverBoom(Exception):
                pass

            class ObserverBoomBadStr(Exception):
                """an exception object that cannot be formatted"""

                def __str__(self):
                    raise ObserverBoom("str() of the observer's exception raises")

                __repr__ = __str__

            def make_exc(kind, msg):
                if kind == "value":
                    return ValueError(msg)
                if kind == "key":
                    return KeyError(msg)
                if kind == "assert":
                    return AssertionError(msg)
                if kind == "unicode":
                    return UnicodeDecodeError("ascii", b"\xc5\xbd", 0, 1, msg)
                if kind == "stop":
                    return StopIteration(msg)
                if kind == "badstr":
                    return ObserverBoomBadStr(msg)
                return ObserverBoom(msg)

            class Raiser(TransmissionObserverInterface):
                """raises (when switched on) from every callback, or from one callback kind only (``what``)"""

                def __init__(self, name, on):
                    self.name = name
                    self.on = on
                    self.what = "all"  # all | started | data_ended | voice_ended
                    self.exc = "boom"  # see make_exc
                    self.fired = 0
                    self.fired_in = set()

                def _boom(self, what):
                    if self.on and self.what in ("all", what):
                        self.fired += 1
                        self.fired_in.add(what)
                        raise make_exc(self.exc, f"{self.name} raises from {what}")

                def transmission_started(self, transmission_type):
                    self._boom("started")

                def data_transmission_ended(self, transmission_header, blocks):
                    self._boom("data_ended")

                def voice_transmission_ended(self, voice_header, blocks):
                    self._boom("voice_ended")

            real_token_bytes = real_secrets_module.token_bytes
            if getattr(real_token_bytes, "_vp_counter", False):
                raise HarnessError("secrets.token_bytes is still patched by an earlier runner")

            cls._ns = dict(locals())
        return cls._ns


# ---------------------------------------------------------------------------------------------- burst construction


_BUILD_CACHE = {}


def build_burst(op):
    """op (plain JSON) -> (33 octets, 'Vocoder' | 'DataAndControl'); memoised (pure function of the op's burst fields)."""
    import json

    key = json.dumps({k: v for k, v in op.items() if k not in ("ts", "rep")}, sort_keys=True)
    hit = _BUILD_CACHE.get(key)
    if hit is None:
        if len(_BUILD_CACHE) > 20000:
            _BUILD_CACHE.clear()
        hit = _BUILD_CACHE[key] = _build_burst(op)
    return hit


def _build_burst(op):
    """Harness code: a failure here is a harness error."""
    L = _Lib.get()
    bitarray, int2ba = L["bitarray"], L["int2ba"]
    k = op["k"]
    x = op.get("x", 0)
    cc = op.get("cc", 1)
    if k in ("vsync", "vemb"):
        voice = bitarray()
        voice.frombytes(_h(("voice", x), 27))
        if k == "vsync":
            center = L["SyncPatterns"][op.get("sync", "BsSourcedVoice")].as_bits()
        else:
            emb = L["EmbeddedSignalling"](colour_code=cc, preemption_and_power_control_indicator=op.get("pi", 0), link_control_start_stop=op.get("lcss", 0)).as_bits()
            center = emb[:8] + int2ba(op.get("e32", 0), length=32) + emb[8:]
        full = voice[:108] + center + voice[108:]
        return full.tobytes(), "Vocoder"  # the 33 octets as they come off the air (on /repo identical to Burst(full).as_bytes())

    DT = L["DataTypes"]
    if k in ("vhdr", "term") and op.get("flco", "group") in RARE_FLCOS:
        # rare Full LC variants in a voice LC header / terminator burst: GPS info, talker alias header / blocks with arbitrary
        # octets.  Laid out by hand (9.1.6: PF, R, FLCO, FID, 56 bits, 24 check bits), typed by the library's parser.
        lc = bytes.fromhex(op.get("lc", "00" * 7))
        if len(lc) != 7:
            raise HarnessError(f"LC op with {len(lc)} octets")
        bits = bitarray([op.get("pf", 0) & 1, 0]) + L["FLCOs"][RARE_FLCOS[op["flco"]]].as_bits() + int2ba([0x00, 0x10, 0x08][x % 3], length=8)
        payload = bitarray()
        payload.frombytes(lc)
        pdu = L["FullLinkControl"].from_bits(bits + payload + int2ba(op.get("crc", 0) & 0xFFFFFF, length=24))
        dt = DT.VoiceLCHeader if k == "vhdr" else DT.TerminatorWithLC
    elif k in ("csbk", "dhdr") and "bits" in op:
        # rare variants of a CSBK / data header: 96 information bits typed by the library's parser (see raw_pdu_pool)
        raw = bitarray()
        raw.frombytes(bytes.fromhex(op["bits"]))
        if len(raw) != 96:
            raise HarnessError(f"raw PDU op with {len(raw)} bits")
        pdu = (L["CSBK"] if k == "csbk" else L["DataHeader"]).from_bits(raw)
        dt = DT.CSBK if k == "csbk" else DT.DataHeader
    elif k in ("vhdr", "term"):
        unit = op.get("flco", "group") == "unit"
        so = L["ServiceOptions"].from_bits(int2ba(op.get("so", 0) & 0xFF, length=8))
        kw = dict(target_address=1 + (x % 0xFFFFFF)) if unit else dict(group_address=1 + (x % 0xFFFFFF))
        pdu = L["FullLinkControl"](
            protect_flag=op.get("pf", 0), flco=L["FLCOs"].UnitToUnitVoiceChannelUser if unit else L["FLCOs"].GroupVoiceChannelUser,
            fid=L["FeatureSetIDs"]([0x00, 0x10, 0x08][x % 3]), crc=int2ba(op.get("crc", 0) & 0xFFFFFF, length=24), service_options=so,
            source_address=1 + ((x // 7) % 0xFFFFFF), **kw,
        )
        dt = DT.VoiceLCHeader if k == "vhdr" else DT.TerminatorWithLC
    elif k == "dhdr":
        fmt = op.get("fmt", "unconfirmed")
        btf = op.get("btf", 0)
        common = dict(
            sap_identifier=L["SAPIdentifier"][op.get("sap", "IP_PacketData")], llid_destination=1 + (x % 0xFFFFFF), llid_source=1 + ((x // 5) % 0xFFFFFF),
            full_message_flag=L["FullMessageFlag"](x & 1),
        )
        DPF = L["DataPacketFormats"]
        if fmt == "confirmed":
            pdu = L["DataHeader"](dpf=DPF.DataPacketConfirmed, is_group=(x >> 1) & 1, is_response_requested=bool(op.get("a", True)), pad_octet_count=op.get("poc", 0),
                                  blocks_to_follow=btf, resynchronize_flag=L["ResynchronizeFlag"]((x >> 2) & 1), send_sequence_number=(x >> 3) & 7,
                                  fragment_sequence_number=(x >> 6) & 15, **common)
        elif fmt == "unconfirmed":
            pdu = L["DataHeader"](dpf=DPF.DataPacketUnconfirmed, is_group=(x >> 1) & 1, is_response_requested=bool(op.get("a", False)), pad_octet_count=op.get("poc", 0),
                                  blocks_to_follow=btf, fragment_sequence_number=(x >> 6) & 15, **common)
        elif fmt == "response":
            pdu = L["DataHeader"](dpf=DPF.ResponsePacket, blocks_to_follow=btf, response_class=(x >> 1) & 3, response_type=(x >> 3) & 7, response_status=(x >> 6) & 7, **common)
        elif fmt == "short_defined":
            pdu = L["DataHeader"](dpf=DPF.ShortDataDefined, is_group=(x >> 1) & 1, is_response_requested=bool(op.get("a", False)), appended_blocks=min(btf, 63),
                                  defined_data_format=L["DefinedDataFormats"]((x >> 2) % 25), sarq=L["SARQ"]((x >> 7) & 1), bit_padding=int2ba((x >> 8) & 0xFF, length=8), **common)
        elif fmt == "udt":
            pdu = L["DataHeader"](dpf=DPF.UnifiedDataTransport, is_group=(x >> 1) & 1, is_response_requested=bool(op.get("a", False)), is_emergency=(x >> 2) & 1,
                                  udt_option_flag=L["UDTOptionFlag"]((x >> 3) & 1), udt_format=L["UDTFormat"]((x >> 4) & 7), pad_nibbles_count=(x >> 7) & 31,
                                  appended_blocks=min(btf, 3), supplementary_flag=L["SupplementaryFlag"]((x >> 12) & 1), udt_opcode=L["CsbkOpcodes"].PreambleCSBK if (x >> 13) & 1 else L["CsbkOpcodes"].UnitToUnitVoiceServiceRequest,
                                  **common)
        else:
            raise HarnessError(f"unknown header format {fmt}")
        dt = DT.DataHeader
    elif k == "pre":
        pdu = L["CSBK"](csbko=L["CsbkOpcodes"].PreambleCSBK, source_address=1 + ((x // 5) % 0xFFFFFF), target_address=1 + (x % 0xFFFFFF), blocks_to_follow=op.get("btf", 0),
                        target_address_is_individual=bool(x & 1), csbk_content_follows_preambles=bool((x >> 1) & 1), last_block=True)
        dt = DT.CSBK
    elif k == "csbk":
        kind = op.get("op", "bs_down")
        CO = L["CsbkOpcodes"]
        if kind == "bs_down":
            pdu = L["CSBK"](csbko=CO.BSOutboundActivation, bs_address=1 + (x % 0xFFFFFF), source_address=1 + ((x // 5) % 0xFFFFFF))
        elif kind == "timing":
            pdu = L["CSBK"](csbko=CO.ChannelTimingCSBK, sync_age=x & 2047, generation=(x >> 11) & 31, leader_identifier=(x * 7) & 0xFFFFF, new_leader=(x >> 1) & 1,
                            leader_dynamic_identifier=(x >> 2) & 3, channel_timing_opcode=(x >> 4) & 3, source_identifier=(x * 13) & 0xFFFFF, source_dynamic_identifier=(x >> 6) & 3)
        elif kind == "hytera":
            pdu = L["CSBK"](csbko=CO.HyteraIPSCSync, manufacturers_feature_set_id=L["FeatureSetIDs"].HytScienceTech, raw_data=_h(("hyt", x), 8))
        elif kind == "aloha":
            pdu = L["CSBK"](csbko=CO.AlohaPDUsForRandomAccessProtocol, target_address=1 + (x % 0xFFFFFF), aloha_mask=x & 31, nrand_wait=(x >> 5) & 15, tscc_backoff=1 + ((x >> 9) % 15),
                            system_identity_code=(x >> 3) & 0xFFFF)
        elif kind == "uu_req":
            pdu = L["CSBK"](csbko=CO.UnitToUnitVoiceServiceRequest, service_options=L["ServiceOptions"].from_bits(int2ba(x & 0xF3, length=8)), target_address=1 + (x % 0xFFFFFF),
                            source_address=1 + ((x // 5) % 0xFFFFFF))
        else:
            raise HarnessError(f"unknown csbk kind {kind}")
        dt = DT.CSBK
    elif k == "data":
        rate = op["rate"]
        octets = bytes.fromhex(op["hex"])
        if len(octets) != RATES[rate]:
            raise HarnessError(f"data op with {len(octets)} octets for rate {rate}")
        if rate == "1/2":
            pdu, dt = L["Rate12Data"](data=octets, packet_type=L["Rate12DataTypes"].Unconfirmed), DT.Rate12Data
        elif rate == "3/4":
            pdu, dt = L["Rate34Data"](data=octets, packet_type=L["Rate34DataTypes"].Unconfirmed), DT.Rate34Data
        else:
            pdu, dt = L["Rate1Data"](data=octets, packet_type=L["Rate1DataTypes"].Unconfirmed), DT.Rate1Data
    else:
        raise HarnessError(f"unknown op kind {k}")
    b = L["Burst"](burst_type=L["BurstTypes"].DataAndControl)
    b.has_emb = False
    b.sync_or_embedded_signalling = L["SyncPatterns"][DATA_SYNCS[(x >> 3) % 4]]
    b.slot_type = L["SlotType"](colour_code=cc, data_type=dt)
    b.data = pdu
    return b.as_bytes(), "DataAndControl"


def _bits01(o):
    return o.as_bits().to01()


_RAW_POOL = {}


def raw_pdu_pool(per_variant=4):
    """{"csbk": [(96 bits as hex, opcode name)], "dhdr": [(hex, format name)]}: rare variants of the two 96-bit PDU classes of
    the alphabet that carry an opcode / format field.  For every value of the 6-bit CSBK opcode and of the 4-bit data packet
    format, ``per_variant`` hash-expanded bit patterns (octets biased to 00 / FF / 80 / non-ASCII) are offered to the
    library's parser; kept are those it accepts and whose burst survives as_bytes -> from_bytes on this tree (everything else is
    not a parseable burst).  Deterministic; the kept patterns are stored in the cases, so replays do not depend on the pool."""
    if "v" in _RAW_POOL:
        return _RAW_POOL["v"]
    L = _Lib.get()
    bitarray, int2ba = L["bitarray"], L["int2ba"]
    out = {"csbk": [], "dhdr": []}
    for kind, cls, field, width in (("csbk", L["CSBK"], slice(2, 8), 6), ("dhdr", L["DataHeader"], slice(4, 8), 4)):
        for value in range(1 << width):
            kept = 0
            implemented = True
            for j in range(600):
                # variants whose parser rejects most field values (undefined reason codes ...) get more attempts; variants the
                # parser does not implement at all get 24
                if kept >= per_variant or (j >= per_variant * 6 and not implemented):
                    break
                body = bytearray(_h(("raw", kind, value, j), 12))
                for i in range(12):  # bias: a third of the octets become 00 / FF / 80 / C5
                    sel = body[i] % 12
                    if sel < 4:
                        body[i] = (0x00, 0xFF, 0x80, 0xC5)[sel]
                bits = bitarray()
                bits.frombytes(bytes(body))
                bits[field] = int2ba(value, length=width)
                if kind == "csbk":
                    bits[8:16] = int2ba((0x00, 0x10, 0x08, 0x68)[j % 4], length=8)  # FID: standard / Motorola / Hytera(08) / Hytera(68)
                    if j % 2 == 0:
                        bits[0] = 1  # last block: the usual single-block CSBK
                op = {"k": kind, "bits": bits.tobytes().hex(), "cc": 1, "x": j}
                try:
                    try:
                        pdu = cls.from_bits(bits)
                    except ValueError:
                        continue
                    except Exception:
                        implemented = False
                        continue
                    implemented = True
                    raw, btype = _build_burst(op)
                    back = L["Burst"].from_bytes(raw, burst_type=L["BurstTypes"][btype])
                    if not isinstance(back.data, cls):
                        continue
                    name = getattr(getattr(pdu, "csbko", None) if kind == "csbk" else getattr(pdu, "data_packet_format", None), "name", str(value))
                except Exception:
                    continue
                out[kind].append((op["bits"], name))
                kept += 1
    _RAW_POOL["v"] = out
    return out


BTF_AT_65 = ("DataPacketConfirmed", "DataPacketUnconfirmed", "ResponsePacket")  # formats with blocks-to-follow in bits 65..71


def raw_header_with_btf(bits_hex, fmt_name, btf):
    """the raw data header with its blocks-to-follow field set to ``btf`` (formats that carry it in bits 65..71; others and
    btf None: unchanged)"""
    if btf is None or fmt_name not in BTF_AT_65:
        return bits_hex
    v = int(bits_hex, 16)
    shift = 96 - 72
    v = (v & ~(0x7F << shift)) | ((btf & 0x7F) << shift)
    return "%024x" % v


# ---------------------------------------------------------------------------------------------- deterministic stream ids


class StreamIds:
    """Counter in place of ``secrets.token_bytes`` for the lifetime of a runner.  Installed on the real ``secrets`` module
    (covers ``import secrets`` / ``secrets.token_bytes(..)`` and helpers that call it) and on every name in a loaded
    okdmr.dmrlib module namespace that is bound to the real function (covers ``from secrets import token_bytes [as x]``).
    Everything is restored by ``remove()``."""

    def __init__(self):
        L = _Lib.get()
        self.real = L["real_token_bytes"]
        self.secrets_module = L["real_secrets_module"]
        self.n = 0
        self.issued = set()
        self.restore = []

        def counting_token_bytes(nbytes=None):
            k = 32 if nbytes is None else int(nbytes)
            self.n += 1
            v = self.n.to_bytes(max(k, 8), "big")[-k:] if k > 0 else b""
            self.issued.add(v)
            return v

        counting_token_bytes._vp_counter = True
        self.fn = counting_token_bytes

    def install(self):
        import sys

        for name, mod in list(sys.modules.items()):
            if mod is None or not name.startswith("okdmr.dmrlib"):
                continue
            try:
                ns = vars(mod)
            except TypeError:
                continue
            for attr, val in list(ns.items()):
                if val is self.real:
                    self.restore.append((mod, attr, val))
                    setattr(mod, attr, self.fn)
        self.restore.append((self.secrets_module, "token_bytes", self.real))
        self.secrets_module.token_bytes = self.fn

    def remove(self):
        while self.restore:
            obj, attr, val = self.restore.pop()
            try:
                setattr(obj, attr, val)
            except Exception:  # pragma: no cover
                pass


_SHIM_PROBE = {}


def _public_stream_id(slot):
    """stream id of a timeslot's tracker through today's public attributes; None when not observable"""
    tr = getattr(slot, "transmission", None)
    v = getattr(tr, "stream_no", None)
    return bytes(v) if isinstance(v, (bytes, bytearray)) else None


def _tracker_idle(slot, L):
    """True / False, or None when the tracker's state is not observable through the public surface"""
    tr = getattr(slot, "transmission", None)
    if tr is None:
        return None
    typ = getattr(tr, "type", None)
    if typ is not None:
        return typ == L["TransmissionTypes"].Idle or getattr(typ, "name", None) == "Idle"
    flag = getattr(tr, "is_idle", None)
    if flag is None:
        return None
    try:
        return bool(flag() if callable(flag) else flag)
    except Exception:
        return None


def shim_effective():
    """Probe once per process: with the counter installed, do the stream ids the library hands out (at construction and after
    a transmission has ended) come from the counter?"""
    if "ok" not in _SHIM_PROBE:
        L = _Lib.get()
        ids = StreamIds()
        ids.install()
        ok = False
        try:
            term = L["Terminal"](Runner.DMRID, [])
            vh = {"k": "vhdr", "ts": 1, "cc": 1, "flco": "group", "so": 0, "pf": 0, "crc": 0, "x": 0}
            seen = []
            for op in (vh, {**vh, "k": "term"}, vh):
                raw, btype = build_burst(op)
                out = term.process_incoming_burst(L["Burst"].from_bytes(raw, burst_type=L["BurstTypes"][btype]), 1)
                seen.append(bytes(out.stream_no))
            ok = ids.n >= 3 and all(v in ids.issued for v in seen) and len(set(seen)) == 3
        except Exception:
            ok = False
        finally:
            ids.remove()
        _SHIM_PROBE["ok"] = ok
    return _SHIM_PROBE["ok"]


def note_shim(ctx: Ctx):
    """called by every driver before it forks: probe the shim, leave a note in the evidence when it is not effective"""
    if not shim_effective():
        note = "stream_id_shim: ineffective (stream ids do not come from secrets.token_bytes as patched; I4 freshness judged against the ids of the last 8 starts only)"
        if note not in ctx.tally.notes:
            ctx.tally.notes.append(note)


# ---------------------------------------------------------------------------------------------- runner


class Runner:
    DMRID = 2305

    def __init__(self):
        L = self.L = _Lib.get()
        self.exact_ids = shim_effective()
        self.ids = StreamIds()
        self.ids.install()
        try:
            self.t_raiser = L["Raiser"]("terminal-raiser", True)
            self.t_rec = L["Recorder"]("terminal-recorder")
            self.t_raiser2 = L["Raiser"]("terminal-raiser-behind-recorder", False)
            self.term = L["Terminal"](self.DMRID, [self.t_raiser, self.t_rec, self.t_raiser2])
            self.ts_rec0, self.ts_rec1, self.ts_raiser = {}, {}, {}
            for ts in (1, 2):
                self.ts_rec0[ts] = L["Recorder"](f"ts{ts}-recorder-before-raiser")
                self.ts_raiser[ts] = L["Raiser"](f"ts{ts}-raiser", False)
                self.ts_rec1[ts] = L["Recorder"](f"ts{ts}-recorder-behind-raiser")
                slot = self.term.timeslots[ts]
                slot.add_observer(self.ts_rec0[ts]).add_observer(self.ts_raiser[ts]).add_observer(self.ts_rec1[ts])
        except BaseException:
            self.close()
            raise
        import collections

        first = [v for v in (_public_stream_id(self.term.timeslots[ts]) for ts in (1, 2)) if v is not None]
        if self.exact_ids and not (first and all(v in self.ids.issued for v in first)):
            self.exact_ids = False  # this terminal does not draw its ids from the counter after all
        self.seen_ids = set(first)
        self.recent_ids = collections.deque(first, maxlen=10)  # fallback when the counter shim is not effective
        self.last_id = {1: None, 2: None}
        self.idle_unobservable = 0
        # model, per timeslot
        self.starts = {1: [], 2: []}  # [{kind, pdu_pos, burst_index, ended}]
        self.pdus = {1: [], 2: []}  # [(class name, bits01 | rate-octets hex)] block-like PDUs in arrival order
        self.headers = {1: [], 2: []}  # [(kind, bits01, burst_index)]
        self.n_bursts = {1: 0, 2: 0}
        self.cur_kind = {1: None, 2: None}
        self.voice_pos = {1: None, 2: None}
        self.seq_first = {1: None, 2: None}
        self.seq_prev = {1: None, 2: None}
        self.seq_restart = {1: False, 2: False}
        self.t_seen = 0  # events of the terminal-level recorder consumed so far
        # statistics
        self.stats = {"ended_voice": 0, "ended_data": 0, "interruptions": 0, "labels_checked": 0, "full_superframe_wrap": 0, "seq_wrap": 0,
                      "ended_data_blocks_max": 0, "ended_with_raiser_on": 0, "restart_checked": 0, "ended_then_started_same_call": 0, "voice_ended_with_blocks": 0,
                      "started_idle": 0, "ended_with_rare_pdu_variant": 0}
        self.used_ts = set()
        self.rare = set()  # bits of the rare PDU variants fed so far (statistics only)
        self.inbound = None  # None = pristine Burst.from_bytes objects; int salt = stamp transport-side metadata before feeding
        self.n_fed = 0
        self.n_stamped = 0
        self.n_same_object = 0
        self.n_skipped = 0

    def close(self):
        self.ids.remove()

    # -- ops -------------------------------------------------------------------------------------
    def apply(self, op):
        k = op["k"]
        if k == "raise":
            who = op["who"]
            r = self.t_raiser if who == "t" else self.t_raiser2 if who == "t2" else self.ts_raiser[int(who[-1])]
            r.on = bool(op["on"])
            r.what = op.get("what", "all")  # the callback kind it raises from
            r.exc = op.get("exc", "boom")  # the exception it raises
            if r.what not in RAISE_WHAT or r.exc not in RAISE_EXC:
                raise HarnessError(f"unknown raiser configuration {op}")
            return
        if k == "inbound":
            self.inbound = int(op.get("salt", 0)) if op["on"] else None
            return
        if k not in BURST_KINDS:
            raise HarnessError(f"unknown op {op}")
        try:
            raw, btype = build_burst(op)
        except (HarnessError, Fail):
            raise
        except Exception:
            # On /repo every op of the alphabet builds (the green runs show 0 skipped ops).  On a changed tree a burst the library
            # can no longer serialise / parse is outside the statement's domain ("parseable bursts"): skip the op, count it.
            self.n_skipped += 1
            return
        same = bool(op.get("same"))  # feed the very same Burst object again (it then carries the library's earlier numbering)
        burst = None
        for _ in range(int(op.get("rep", 1))):
            if burst is None or not same:
                burst = self.parse(op, raw, btype)
                if burst is None:
                    self.n_skipped += 1
                    return
            else:
                self.n_same_object += 1
            self.feed(op, burst)

    def parse(self, op, raw, btype):
        L = self.L
        try:
            burst = L["Burst"].from_bytes(raw, burst_type=L["BurstTypes"][btype])
        except Exception:
            return None  # not a parseable burst on this tree (see apply)
        if self.inbound is not None:
            # what a transport adapter (Burst.from_hytera_ipsc / from_mmdvm) sets from the frame before the burst reaches the terminal
            hv = int.from_bytes(hashlib.sha256(f"inbound:{self.inbound}:{self.n_fed}".encode()).digest()[:8], "big")
            ts_in = op.get("ts", 1)
            stale = self.last_id.get(ts_in) or (1).to_bytes(4, "big")
            for attr, val in (
                ("sequence_no", hv % 256),  # mostly non-zero, 0 once in a while
                # mostly a stream id that is already known (the one the previous burst on this timeslot got): a tracker that
                # fails to overwrite it cannot pass the freshness clause
                ("stream_no", stale if (hv >> 8) % 4 else hashlib.sha256(str(hv).encode()).digest()[:4]),
                ("source_radio_id", 1 + (hv >> 16) % 0xFFFFFF),
                ("target_radio_id", self.DMRID),
                ("timeslot", ts_in),
            ):
                if hasattr(burst, attr):
                    try:
                        setattr(burst, attr, val)
                    except Exception:  # a read-only attribute after a refactoring: the adapter could not set it either
                        pass
            self.n_stamped += 1
        return burst

    def feed(self, op, burst):
        L = self.L
        ts = op.get("ts", 1)
        k = op["k"]
        self.n_fed += 1
        self.used_ts.add(ts)
        # what this burst is, by the burst's own parse
        idx = self.n_bursts[ts]
        self.n_bursts[ts] += 1
        pdu_index = len(self.pdus[ts])
        d = burst.data
        if k in ("dhdr", "pre", "csbk"):
            self.pdus[ts].append((type(d).__name__, _bits01(d)))
            if k == "dhdr":
                self.headers[ts].append(("data", _bits01(d), idx))
        elif k == "data":
            self.pdus[ts].append((type(d).__name__, bytes(d.data).hex()))
        elif k == "vhdr":
            self.headers[ts].append(("voice", _bits01(d), idx))
        if op.get("flco") in RARE_FLCOS or "bits" in op:
            self.rare.add(_bits01(d))
        in_voice = self.cur_kind[ts] == "voice"

        n0 = len(self.ts_rec0[ts].events)
        other = 3 - ts
        n_other = (len(self.ts_rec0[other].events), len(self.ts_rec1[other].events))
        n1 = len(self.ts_rec1[ts].events)

        # I1: exceptions propagate (make_machine / replay oracle turn library exceptions into Fail no_unexpected_exception)
        out = self.term.process_incoming_burst(burst, ts)

        new = self.ts_rec0[ts].events[n0:]
        # I7 first: all recorders agree
        self._check_recorders(ts, new, n1, n_other)

        ended_in_call, started_after_end = False, False
        for ev in new:
            if ev[0] == "started":
                kind = {"VoiceTransmission": "voice", "DataTransmission": "data"}.get(ev[1].name)
                if kind is None:
                    self.stats["started_idle"] += 1
                    continue
                if any(not s["ended"] for s in self.starts[ts]) and self.cur_kind[ts] is not None:
                    self.stats["interruptions"] += 1
                self.starts[ts].append({"kind": kind, "pdu_pos": pdu_index, "burst_index": idx, "ended": False})
                self.cur_kind[ts] = kind
                if ended_in_call:
                    started_after_end = True
                    self.stats["ended_then_started_same_call"] += 1
            else:
                kind = "voice" if ev[0] == "voice_ended" else "data"
                self._check_ended(ts, kind, ev[1], ev[2], op)
                ended_in_call, started_after_end = True, False
                self.cur_kind[ts] = None
                self.stats["ended_" + kind] += 1
                if self.t_raiser.on or self.t_raiser2.on or self.ts_raiser[ts].on:
                    self.stats["ended_with_raiser_on"] += 1
                if self.rare and (_bits01(ev[1]) in self.rare or any(_bits01(b) in self.rare for b in ev[2] if isinstance(b, (L["CSBK"], L["DataHeader"])))):
                    self.stats["ended_with_rare_pdu_variant"] += 1

        # I4
        slot = self.term.timeslots[ts]
        if ended_in_call and not started_after_end:
            idle = _tracker_idle(slot, L)
            if idle is None:
                self.idle_unobservable += 1
            elif not idle:
                raise Fail("tracker_idle_after_ended", str(getattr(getattr(slot, "transmission", None), "type", "not idle")), "Idle")
            # the statement speaks of the tracker's id; the id stamped on the burst that closed the transmission is the
            # library's choice (closed transmission's id or the new idle one) and is only used when the tracker's own id
            # is not observable
            sid = _public_stream_id(slot)
            if sid is None:
                sid = bytes(out.stream_no)
            if self.exact_ids:
                if sid in self.seen_ids:
                    raise Fail("fresh_stream_id_after_ended", {"stream_no": sid.hex()}, "an id never used before in this history")
            elif sid in self.recent_ids:
                # ids are really random here: equal to one of the last few ids has probability ~1e-8, so it means 'not renewed'
                raise Fail("fresh_stream_id_after_ended", {"stream_no": sid.hex()}, "an id different from the ids of the last starts in this history")
        for v in (bytes(out.stream_no), _public_stream_id(slot)):
            if v is not None:
                self.seen_ids.add(v)
                if v not in self.recent_ids:
                    self.recent_ids.append(v)
        self.last_id[ts] = bytes(out.stream_no)

        # I5
        if k == "vsync":
            if in_voice:
                self._check_label(out, 0, op)
                self.voice_pos[ts] = 0
            else:
                self.voice_pos[ts] = None
        elif k == "vemb":
            if in_voice and self.voice_pos[ts] is not None:
                if self.voice_pos[ts] == 5:
                    self.stats["full_superframe_wrap"] += 1
                self.voice_pos[ts] = (self.voice_pos[ts] + 1) % 6
                self._check_label(out, self.voice_pos[ts], op)
        else:
            self.voice_pos[ts] = None

        # I6
        seq = out.sequence_no
        if self.seq_first[ts] is None:
            self.seq_first[ts] = seq
        elif self.seq_restart[ts]:
            self.stats["restart_checked"] += 1
            if seq != self.seq_first[ts]:
                raise Fail("sequence_restarts_after_ended", seq, self.seq_first[ts])
        else:
            exp = (self.seq_prev[ts] + 1) % 256
            if exp == 0:
                self.stats["seq_wrap"] += 1
            if seq != exp:
                raise Fail("sequence_counts_up_mod_256", {"sequence_no": seq, "previous": self.seq_prev[ts]}, {"sequence_no": exp})
        self.seq_prev[ts] = seq
        self.seq_restart[ts] = ended_in_call

    # -- invariant helpers -------------------------------------------------------------------------
    @staticmethod
    def _ev_sig(ev):
        return (ev[0], ev[1].name if ev[0] == "started" else id(ev[1]), None if ev[2] is None else tuple(id(b) for b in ev[2]))

    def _describe(self, evs):
        return [f"started({e[1].name})" if e[0] == "started" else f"{e[0]}({type(e[1]).__name__}, {len(e[2])} blocks)" for e in evs]

    def _check_recorders(self, ts, new, n1, n_other):
        other = 3 - ts
        if (len(self.ts_rec0[other].events), len(self.ts_rec1[other].events)) != n_other:
            raise Fail("timeslot_observer_sees_only_its_timeslot", f"events delivered to the timeslot-{other} observers while processing timeslot {ts}", "none")
        behind = self.ts_rec1[ts].events[n1:]
        sig = [self._ev_sig(e) for e in new]
        if [self._ev_sig(e) for e in behind] != sig:
            raise Fail("raising_observer_does_not_prevent_later_observers", {"timeslot_observer_behind_raiser": self._describe(behind)}, {"timeslot_observer_before_raiser": self._describe(new)},
                       klass="timeslot_level")
        tnew = self.t_rec.events[self.t_seen :]
        self.t_seen = len(self.t_rec.events)
        if [self._ev_sig(e) for e in tnew] != sig:
            raise Fail("raising_observer_does_not_prevent_later_observers", {"terminal_observer_behind_raiser": self._describe(tnew)}, {"timeslot_observer": self._describe(new)},
                       klass="terminal_level")

    def _block_sig(self, b):
        L = self.L
        if isinstance(b, (L["Rate12Data"], L["Rate34Data"], L["Rate1Data"])):
            return (type(b).__name__, "rate-block")
        if isinstance(b, (L["CSBK"], L["DataHeader"])):
            return (type(b).__name__, _bits01(b))
        return (type(b).__name__, "?")

    def _rate_block_matches(self, b, octets_hex):
        """the handed-over (typed) rate block is the received block: its data (+ CRC-32 when typed last) are the trailing
        octets of the received information octets, preceded by the 7-bit serial number / 9-bit CRC when typed confirmed"""
        octets = bytes.fromhex(octets_hex)
        rest = octets
        if b.is_confirmed():
            if b.dbsn != octets[0] >> 1:
                return False
            rest = octets[2:]
        tail = bytes(b.data) + (int(b.crc32).to_bytes(4, "big") if b.is_last_block() else b"")
        return rest == tail

    def _check_ended(self, ts, kind, header, blocks, op):
        L = self.L
        open_starts = [s for s in self.starts[ts] if s["kind"] == kind and not s["ended"]]
        if not open_starts:
            opened = [s["kind"] for s in self.starts[ts] if not s["ended"]]
            raise Fail("ended_only_after_open_started_of_same_kind", {"notification": f"{kind}_ended", "header": type(header).__name__, "n_blocks": len(blocks), "open_starts_on_timeslot": opened},
                       f"an open started({kind}) on timeslot {ts}", klass=f"{kind}_ended_without_start")
        want_cls = L["FullLinkControl"] if kind == "voice" else L["DataHeader"]
        why = None
        for s in reversed(open_starts):
            exp_blocks = self.pdus[ts][s["pdu_pos"] :]
            hdrs = [h for h in self.headers[ts] if h[0] == kind and h[2] >= s["burst_index"]]
            if not isinstance(header, want_cls) or _bits01(header) not in [h[1] for h in hdrs]:
                why = why or ("ended_hands_over_a_header_received_since_that_start", {"header": type(header).__name__, "bits": _bits01(header) if hasattr(header, "as_bits") else None},
                              {"one_of_the_headers_since_start": [h[1] for h in hdrs]})
                continue
            ok = len(blocks) == len(exp_blocks)
            if ok:
                for b, (cls_name, sig) in zip(blocks, exp_blocks):
                    if type(b).__name__ != cls_name:
                        ok = False
                    elif cls_name in ("Rate12Data", "Rate34Data", "Rate1Data"):
                        ok = ok and self._rate_block_matches(b, sig)
                    else:
                        ok = ok and _bits01(b) == sig
                    if not ok:
                        break
            if not ok:
                why = why or ("ended_hands_over_exactly_the_blocks_since_that_start", {"n_blocks": len(blocks), "blocks": [type(b).__name__ for b in blocks][:40]},
                              {"n_blocks": len(exp_blocks), "blocks": [c for c, _ in exp_blocks][:40]})
                continue
            s["ended"] = True
            if kind == "data":
                self.stats["ended_data_blocks_max"] = max(self.stats["ended_data_blocks_max"], len(blocks))
            elif blocks:
                self.stats["voice_ended_with_blocks"] += 1
            return
        raise Fail(why[0], why[1], why[2], klass=kind)

    def _check_label(self, out, pos, op):
        self.stats["labels_checked"] += 1
        got = out.voice_burst.name
        if got != LABELS[pos]:
            raise Fail("voice_bursts_labelled_A_to_F_cyclically_from_voice_sync", got, LABELS[pos], klass="sync" if op["k"] == "vsync" else "after_" + LABELS[pos - 1][-1])

    # -- bookkeeping for the tally -------------------------------------------------------------------
    def nontrivial(self):
        s = self.stats
        return bool(s["ended_voice"] or s["ended_data"] or s["interruptions"] or len(self.used_ts) == 2)

    def classes(self):
        s = self.stats
        out = []
        for key in ("ended_voice", "ended_data", "interruptions", "full_superframe_wrap", "seq_wrap", "ended_with_raiser_on", "restart_checked", "ended_then_started_same_call",
                    "voice_ended_with_blocks", "started_idle", "ended_with_rare_pdu_variant"):
            if s[key]:
                out.append("history_with_" + key)
        if s["labels_checked"] >= 6:
            out.append("history_with_6_or_more_labels_checked")
        if s["ended_data_blocks_max"] >= 3:
            out.append("history_with_data_ended_of_3_or_more_blocks")
        if s["ended_voice"] + s["ended_data"] >= 2:
            out.append("history_with_2_or_more_ended")
        if len(self.used_ts) == 2:
            out.append("history_on_both_timeslots")
        if any(r.fired for r in self.ts_raiser.values()):
            out.append("history_with_timeslot_raiser_fired")
        if self.t_raiser.fired:
            out.append("history_with_terminal_raiser_fired")
        if self.t_raiser2.fired:
            out.append("history_with_terminal_raiser_behind_recorder_fired")
        raisers = [self.t_raiser, self.t_raiser2] + list(self.ts_raiser.values())
        for what in sorted({w for r in raisers for w in r.fired_in}):
            out.append("history_with_raiser_fired_in_" + what)
        if any(r.fired and r.what != "all" for r in raisers):
            out.append("history_with_raiser_of_one_callback_kind_fired")
        if any(r.fired and r.exc != "boom" for r in raisers):
            out.append("history_with_raiser_other_exception_type_fired")
        if not (s["ended_voice"] or s["ended_data"]):
            out.append("history_without_any_ended")
        if self.n_skipped:
            out.append("history_with_unparseable_burst_skipped")
        if not self.exact_ids:
            out.append("history_with_stream_id_shim_ineffective")
        if self.idle_unobservable:
            out.append("history_with_tracker_state_unobservable")
        if self.n_stamped:
            out.append("history_with_inbound_metadata")
            if s["seq_wrap"]:
                out.append("history_with_inbound_metadata_and_seq_wrap")
        if self.n_same_object:
            out.append("history_with_same_object_fed_again")
        return out


oracle_history = replay_ops_oracle(Runner)

# ---------------------------------------------------------------------------------------------- strategies


def _strategies():
    from hypothesis import strategies as st

    ts = st.sampled_from([1, 1, 1, 2])
    cc = st.sampled_from([0, 1, 1, 5, 15])
    x = st.one_of(st.integers(0, 63), st.integers(0, 2**31 - 1))
    octet = st.one_of(st.sampled_from([0x00, 0x00, 0x80, 0xFF, 0x01, 0x5F]), st.integers(0, 255))
    btf = st.one_of(st.integers(0, 3), st.integers(0, 6), st.just(127))

    def d(**kw):
        return st.fixed_dictionaries({k: (v if hasattr(v, "map") else st.just(v)) for k, v in kw.items()})

    pool = raw_pdu_pool()
    # Full LC of a voice LC header / terminator: group and unit-to-unit (half of the draws), GPS info, talker alias header /
    # blocks 1-3 with arbitrary octets (text in the four alias encodings incl. octets >= 0x80, fills, random)
    flco = st.sampled_from(["group", "unit"] * 3 + ALL_FLCOS)
    lc = st.one_of(st.sampled_from(LC_OCTETS), st.lists(octet, min_size=7, max_size=7).map(lambda l: bytes(l).hex()))
    vhdr = d(k="vhdr", ts=ts, cc=cc, flco=flco, lc=lc, so=st.sampled_from([0, 0x80, 0x40, 0xFF, 0x13]), pf=st.integers(0, 1), crc=st.integers(0, 0xFFFFFF), x=x)
    term = d(k="term", ts=ts, cc=cc, flco=flco, lc=lc, so=st.just(0), pf=st.just(0), crc=st.integers(0, 0xFFFFFF), x=x)
    vsync = d(k="vsync", ts=ts, sync=st.sampled_from(VOICE_SYNCS), x=x)
    vemb = d(k="vemb", ts=ts, cc=cc, pi=st.integers(0, 1), lcss=st.integers(0, 3), e32=st.one_of(st.just(0), st.integers(0, 2**32 - 1)), x=x)
    dhdr = d(k="dhdr", ts=ts, cc=cc, fmt=st.sampled_from(HDR_FORMATS + ["confirmed", "unconfirmed"]), btf=btf, a=st.booleans(), sap=st.sampled_from(SAPS + ["UDP_IP_compression"] * 3),
             poc=st.sampled_from([0, 1, 6, 31]), x=x)
    pre = d(k="pre", ts=ts, cc=cc, btf=st.one_of(st.integers(0, 4), st.integers(0, 8), st.just(255)), x=x)
    csbk = d(k="csbk", ts=ts, cc=cc, op=st.sampled_from(CSBK_KINDS), x=x)
    if pool["csbk"]:  # rare variants: every CSBK opcode the parser accepts, arbitrary field octets
        csbk = st.one_of(csbk, d(k="csbk", ts=ts, cc=cc, bits=st.sampled_from([b for b, _ in pool["csbk"]]), x=x))
    if pool["dhdr"]:
        dhdr = st.one_of(dhdr, dhdr, dhdr, st.tuples(ts, cc, st.sampled_from(pool["dhdr"]), st.one_of(st.none(), st.integers(0, 3)), x).map(
            lambda p: {"k": "dhdr", "ts": p[0], "cc": p[1], "bits": raw_header_with_btf(p[2][0], p[2][1], p[3]), "x": p[4]}))

    def data_for(rate):
        return d(k="data", ts=ts, cc=cc, rate=rate, hex=st.lists(octet, min_size=RATES[rate], max_size=RATES[rate]).map(lambda l: bytes(l).hex()))

    data = st.sampled_from(["1/2", "1/2", "3/4", "1"]).flatmap(data_for)
    raise_toggle = d(k="raise", who=st.sampled_from(["t", "t", "t2", "ts1", "ts1", "ts2"]), on=st.sampled_from([True, True, False]), what=st.sampled_from(["all"] * 3 + RAISE_WHAT),
                     exc=st.sampled_from(["boom"] * 3 + RAISE_EXC))
    toggle = st.one_of(raise_toggle, raise_toggle, d(k="inbound", on=st.booleans(), salt=st.integers(0, 1000)))
    near = st.tuples(ts, x, st.sampled_from(near_sync_emb_fields())).map(lambda p: {"k": "vemb", "ts": p[0], "x": p[1], **p[2][0]})
    repeat = st.tuples(st.one_of(vemb, vhdr, vsync, term, dhdr, pre, csbk, data, near), st.one_of(st.integers(2, 12), st.integers(2, 12), st.sampled_from(REPEAT_COUNTS)), st.booleans()).map(
        lambda p: {**p[0], "rep": p[1], "same": p[2]})
    again = st.tuples(st.one_of(vemb, vemb, vsync, csbk, data, pre, vhdr), st.integers(2, 4)).map(lambda p: {**p[0], "rep": p[1], "same": True})
    rules = {"vhdr": vhdr, "term": term, "vsync": vsync, "vemb": vemb, "dhdr": dhdr, "pre": pre, "csbk": csbk, "data": data, "data2": data, "toggle": toggle, "again": again, "vemb_near_sync": near, "repeat": repeat}

    # ---- scripted prefixes -----------------------------------------------------------------------
    @st.composite
    def data_call(draw):
        t, c = draw(ts), draw(cc)
        rate = draw(st.sampled_from(["1/2", "3/4", "1"]))
        n = draw(st.integers(1, 4))
        npre = draw(st.integers(0, 3))
        conf = draw(st.booleans())
        xx = draw(x)
        ops = [{"k": "pre", "ts": t, "cc": c, "btf": n + 1 + (npre - 1 - i), "x": xx} for i in range(npre)]
        rare = [p for p in pool["dhdr"] if p[1] in BTF_AT_65]
        if rare and draw(st.integers(0, 3)) == 0:
            ops.append({"k": "dhdr", "ts": t, "cc": c, "bits": raw_header_with_btf(*draw(st.sampled_from(rare)), n), "x": xx})
        else:
            ops.append({"k": "dhdr", "ts": t, "cc": c, "fmt": "confirmed" if conf else draw(st.sampled_from(["unconfirmed", "short_defined", "response"])), "btf": n, "a": conf,
                        "sap": draw(st.sampled_from(SAPS)), "poc": draw(st.sampled_from([0, 3])), "x": xx})
        for _ in range(n):
            ops.append(draw(data_for(rate).map(lambda o: {**o, "ts": t, "cc": c})))
        cut = draw(st.sampled_from([0, 0, 0, 1, 2]))  # truncated calls
        return ops[: len(ops) - cut] if cut else ops

    @st.composite
    def voice_call(draw):
        t, c = draw(ts), draw(cc)
        xx = draw(x)
        hdr = {"k": "vhdr", "ts": t, "cc": c, "flco": draw(flco), "lc": draw(lc), "so": 0, "pf": 0, "crc": draw(st.integers(0, 0xFFFFFF)), "x": xx}
        ops = [hdr] * draw(st.sampled_from([1, 1, 2]))
        frames = draw(st.integers(0, 3))
        for f in range(frames):
            ops.append({"k": "vsync", "ts": t, "sync": draw(st.sampled_from(VOICE_SYNCS)), "x": xx + f})
            n_emb = draw(st.sampled_from([5, 5, 5, 2, 8]))
            near_at = draw(st.integers(0, 2 * n_emb))  # about half of the superframes carry one EMB burst that is close to a SYNC word
            for i in range(n_emb):
                if i == near_at:
                    ops.append({"k": "vemb", "ts": t, "x": xx + i, **draw(st.sampled_from(near_sync_emb_fields()))[0]})
                else:
                    ops.append({"k": "vemb", "ts": t, "cc": c, "pi": 0, "lcss": (1, 3, 3, 2, 0)[i % 5], "e32": draw(st.integers(0, 2**32 - 1)), "x": xx + 10 * f + i})
        if draw(st.booleans()):
            ops.append({**hdr, "k": "term"})
        return ops

    @st.composite
    def long_voice(draw):
        t = draw(ts)
        xx = draw(x)
        return [
            {"k": "vhdr", "ts": t, "cc": 1, "flco": "group", "so": 0, "pf": 0, "crc": 0, "x": xx},
            {"k": "vsync", "ts": t, "sync": "BsSourcedVoice", "x": xx},
            {"k": "vemb", "ts": t, "cc": 1, "pi": 0, "lcss": 0, "e32": 0, "x": xx, "rep": draw(st.integers(250, 270)), "same": draw(st.booleans())},
        ]

    toggles = st.lists(toggle, min_size=0, max_size=3)
    segment = st.one_of(data_call(), voice_call(), data_call(), voice_call(), toggles)
    scripted = st.lists(segment, min_size=1, max_size=4).map(lambda segs: [o for s in segs for o in s])
    with_long_run = st.tuples(toggles, long_voice(), segment).map(lambda p: p[0] + p[1] + p[2])
    # ~45 % no prefix, ~50 % scripted calls, ~5 % a voice run long enough to wrap the sequence counter
    prefix = st.integers(0, 19).flatmap(lambda r: st.just([]) if r < 9 else with_long_run if r == 19 else scripted)
    # half of the histories feed bursts that arrive with transport-side metadata (sequence number, stream id, radio ids, timeslot)
    inbound = st.one_of(st.just([]), st.integers(0, 1000).map(lambda sv: [{"k": "inbound", "on": True, "salt": sv}]))
    prefix = st.tuples(inbound, prefix).map(lambda p: p[0] + p[1])
    return rules, prefix


def _run_ops(ops):
    """Replay a history; return the Fail it produces (library exceptions classified like the state machine does) or None."""
    from vp.core import exc_klass

    r = Runner()
    try:
        for op in ops:
            r.apply(op)
    except Fail as f:
        return f
    except HarnessError:
        raise
    except Exception as e:
        if not lib_raised(e):
            raise
        return Fail("no_unexpected_exception", observed=f"{type(e).__name__}: {e}", expected="no exception", klass=exc_klass(e))
    finally:
        r.close()
    return None


def minimise(ops, clause, klass, budget=600):
    """Deterministic delta debugging of a failing history (same failure bucket): drop chunks of ops, then simplify fields.
    Hypothesis' own shrinker needs minutes on these histories (every attempt replays up to several hundred bursts)."""
    n_runs = [0]

    def fails(cand):
        if n_runs[0] >= budget:
            return None
        n_runs[0] += 1
        f = _run_ops(cand)
        return f if (f is not None and f.clause == clause and f.klass == klass) else None

    ops = list(ops)
    best = fails(ops)
    if best is None:
        return ops, None
    chunk = max(1, len(ops) // 2)
    while chunk >= 1:
        i = 0
        while i < len(ops):
            cand = ops[:i] + ops[i + chunk :]
            f = fails(cand) if cand else None
            if f is not None:
                ops, best = cand, f
            else:
                i += chunk
        chunk //= 2
    simple = {"rep": 1, "same": False, "salt": 0, "ts": 1, "cc": 1, "x": 0, "crc": 0, "so": 0, "pf": 0, "e32": 0, "pi": 0, "lcss": 0, "poc": 0, "flco": "group", "sync": "BsSourcedVoice", "what": "all", "exc": "boom", "lc": "00" * 7}
    for i in range(len(ops)):
        for key, val in simple.items():
            if key in ops[i] and ops[i][key] != val:
                cand = ops[:i] + [{**ops[i], key: val}] + ops[i + 1 :]
                f = fails(cand)
                if f is not None:
                    ops, best = cand, f
        if "hex" in ops[i] and set(ops[i]["hex"]) != {"0"}:
            cand = ops[:i] + [{**ops[i], "hex": "0" * len(ops[i]["hex"])}] + ops[i + 1 :]
            f = fails(cand)
            if f is not None:
                ops, best = cand, f
    return ops, best


def run_machine(ctx: Ctx, sub: str, machine_cls, max_examples: int, step_count: int, tally: Tally, shard, max_rounds: int = 4):
    """Like Ctx.state_machine, but Hypothesis only generates; a failing history is minimised by ``minimise``."""
    import hypothesis
    from hypothesis import HealthCheck, Phase, settings
    from hypothesis.stateful import run_state_machine_as_test
    from vp.core import derive_seed

    tolerated: set = set()
    for rnd in range(max_rounds):
        ns = {"vp_ctx": ctx, "vp_tally": tally, "vp_tolerated": tolerated, "vp_sub": sub}
        M = type(machine_cls.__name__, (machine_cls,), ns)
        M = hypothesis.seed(derive_seed(ctx.seed, ctx.prop, sub, shard, rnd))(M)
        try:
            run_state_machine_as_test(
                M,
                settings=settings(max_examples=max_examples, stateful_step_count=step_count, database=None, deadline=None, derandomize=False, report_multiple_bugs=False,
                                  suppress_health_check=list(HealthCheck), print_blob=False, phases=[Phase.generate]),
            )
        except Fail as f:
            ops, fmin = minimise(f.case["ops"], f.clause, f.klass)
            if fmin is None:  # not reproducible outside the machine: report as found
                ops, fmin = f.case["ops"], f
            case = {"ops": ops}
            fmin.case = case
            ctx.judge(sub, case, fmin, tally)
            tolerated.add(f"{sub}|{f.clause}|{f.klass}")
            continue
        except hypothesis.errors.Flaky as e:
            tally.errors.append(f"{sub}: flaky under Hypothesis: {e}")
            return
        break


def drv_machine(ctx: Ctx, sub: SubCheck):
    note_shim(ctx)
    rules, prefix = _strategies()
    M = make_machine("TransmissionTrackingMachine", Runner, rules, initial_ops=prefix)

    def work(shard, t: Tally):
        run_machine(ctx, sub.name, M, max_examples=ctx.pick(40, 300), step_count=ctx.pick(30, 60), tally=t, shard=shard)

    ctx.shards(work, list(range(ctx.pick(16, 32))))


# ---------------------------------------------------------------------------------------------- short exhaustive histories


INBOUND_ON = {"k": "inbound", "on": True, "salt": 7}


def _alphabet():
    blk12 = "00" * 12
    a = [
        {"k": "vhdr", "ts": 1, "cc": 1, "flco": "group", "so": 0, "pf": 0, "crc": 0x123456, "x": 7},
        {"k": "term", "ts": 1, "cc": 1, "flco": "group", "so": 0, "pf": 0, "crc": 0x123456, "x": 7},
        {"k": "vsync", "ts": 1, "sync": "MsSourcedVoice", "x": 1},
        {"k": "vemb", "ts": 1, "cc": 1, "pi": 0, "lcss": 1, "e32": 0xDEADBEEF, "x": 2, "rep": 2, "same": True},
        {"k": "dhdr", "ts": 1, "cc": 1, "fmt": "unconfirmed", "btf": 1, "a": False, "sap": "IP_PacketData", "poc": 0, "x": 11},
        {"k": "dhdr", "ts": 1, "cc": 1, "fmt": "confirmed", "btf": 2, "a": True, "sap": "UDP_IP_compression", "poc": 0, "x": 12},
        {"k": "pre", "ts": 1, "cc": 1, "btf": 2, "x": 13},
        {"k": "csbk", "ts": 1, "cc": 1, "op": "bs_down", "x": 14},
        {"k": "data", "ts": 1, "cc": 1, "rate": "1/2", "hex": blk12},
        {"k": "data", "ts": 1, "cc": 1, "rate": "3/4", "hex": "ff" * 18},
        {"k": "vhdr", "ts": 2, "cc": 1, "flco": "unit", "so": 0, "pf": 0, "crc": 1, "x": 8},
    ]
    return a


def drv_exhaustive(ctx: Ctx, sub: SubCheck):
    note_shim(ctx)
    import itertools

    alpha = _alphabet()
    n = len(alpha)
    depth = ctx.pick(4, 5)
    items = list(itertools.product(range(n), repeat=2))

    def work(prefix, t: Tally):
        for Ln in range(2, depth + 1):
            for rest in itertools.product(range(n), repeat=Ln - 2):
                seq = list(prefix) + list(rest)
                case = {"ops": ([INBOUND_ON] if sum(seq) % 2 else []) + [alpha[i] for i in seq]}
                r = Runner()
                try:
                    try:
                        for op in case["ops"]:
                            r.apply(op)
                    except Fail as f:
                        ctx.judge(sub.name, case, f, t)
                    except HarnessError:
                        raise
                    except Exception as e:
                        from vp.core import exc_klass

                        if not lib_raised(e):
                            raise
                        ctx.judge(sub.name, case, Fail("no_unexpected_exception", f"{type(e).__name__}: {e}", "no exception", exc_klass(e)), t)
                    t.case(sub.name, nontrivial=r.nontrivial(), cls=f"len_{Ln}")
                    if r.nontrivial() and hash(tuple(seq)) % 2003 == 0:
                        t.sample(sub.name, {"alphabet_indices": seq})
                finally:
                    r.close()

    ctx.shards(work, items)
    for i in range(n):
        for pre in ([], [INBOUND_ON]):
            ctx.run_case(sub.name, oracle_history, {"ops": pre + [alpha[i]]})
            ctx.tally.case(sub.name, cls="len_1")
    ctx.tally.exhaustive[sub.name] = True
    ctx.tally.extra["exhaustive_history_length"] = depth
    ctx.tally.extra["exhaustive_alphabet"] = alpha
    ctx.tally.notes.append(f"short_histories: all burst sequences of length <= {depth} over the {n}-burst reduced alphabet (terminal-level raiser on)")


# ---------------------------------------------------------------------------------------------- directed: short data calls, boundary octets

BOUNDARY_OCTETS = [0x00, 0x01, 0x7F, 0x80, 0x81, 0xFF]  # zero / one / all-ones with and without the (reserved) top bit


def _boundary_histories(ctx: Ctx):
    """Deterministic enumeration of complete 2-3 burst data calls (header + 1 or 2 blocks) whose first six *user-data* octets
    take boundary / reserved-bit values on two positions at a time: positions (3,4) (the SPID / DPID octets of a compressed
    UDP/IPv4 header) over all 36 value pairs x 3 fills x both timeslots, the other 14 position pairs over 4 sampled value
    pairs each; remaining octets 0x00 / 0xFF / a counting pattern."""
    rng = ctx.rng("short_data_boundary")
    value_pairs = [(a, b) for a in BOUNDARY_OCTETS for b in BOUNDARY_OCTETS]
    pos_pairs = [(i, j) for i in range(6) for j in range(i + 1, 6)]
    fills = [lambda i: 0x00, lambda i: 0xFF, lambda i: (i * 37 + 11) & 0xFF]
    items = []
    ci = 0
    for sap in ("UDP_IP_compression", "IP_PacketData", "ShortData"):
        for conf in (False, True):
            for rate in ("1/2", ("3/4", "1")[ci % 2]):
                for btf in (1, 2):
                    ci += 1
                    n = RATES[rate]
                    off = 2 if conf else 0  # a confirmed block spends its first two octets on serial number + CRC-9
                    k = 0
                    for pq in pos_pairs:
                        if pq == (3, 4):
                            combos = [(v, f, ts) for v in value_pairs for f in range(3) for ts in (1, 2)]
                        else:
                            combos = []
                            for v in rng.sample(value_pairs, 4):
                                k += 1
                                combos.append((v, k % 3, 1 + (k // 3) % 2))
                        for (a, b), f, ts in combos:
                            first = bytearray(fills[f](i) for i in range(n))
                            first[off + pq[0]], first[off + pq[1]] = a, b
                            ops = [{"k": "dhdr", "ts": ts, "cc": 1, "fmt": "confirmed" if conf else "unconfirmed", "btf": btf, "a": conf, "sap": sap, "poc": 0, "x": ci}]
                            ops.append({"k": "data", "ts": ts, "cc": 1, "rate": rate, "hex": bytes(first).hex()})
                            if btf == 2:
                                ops.append({"k": "data", "ts": ts, "cc": 1, "rate": rate, "hex": bytes(fills[(f + 1) % 3](i) for i in range(n)).hex()})
                            if len(items) % 2:
                                ops.insert(0, INBOUND_ON)
                            items.append(({"ops": ops}, f"{sap}_{'confirmed' if conf else 'unconfirmed'}_rate_{rate}_btf_{btf}", pq == (3, 4)))
    return items


def _judge_history(ctx: Ctx, sub_name: str, case, t: Tally):
    """run one history through a fresh Runner, judge a failure, return the runner (closed)"""
    from vp.core import exc_klass

    r = Runner()
    try:
        try:
            for op in case["ops"]:
                r.apply(op)
        except Fail as f:
            ctx.judge(sub_name, case, f, t)
        except HarnessError:
            raise
        except Exception as e:
            if not lib_raised(e):
                raise
            ctx.judge(sub_name, case, Fail("no_unexpected_exception", f"{type(e).__name__}: {e}", "no exception", exc_klass(e)), t)
    finally:
        r.close()
    if r.n_skipped:
        t.cls(sub_name, "history_with_unparseable_burst_skipped")
        t.excluded["op_skipped_burst_not_parseable_on_this_tree"] += r.n_skipped
    return r


def drv_boundary(ctx: Ctx, sub: SubCheck):
    note_shim(ctx)
    items = _boundary_histories(ctx)
    chunks = [items[i::64] for i in range(64)]

    def work(chunk, t: Tally):
        for j, (case, label, spid_dpid) in enumerate(chunk):
            r = _judge_history(ctx, sub.name, case, t)
            t.case(sub.name, nontrivial=r.nontrivial(), cls=label)
            t.cls(sub.name, "positions_3_4_exhaustive" if spid_dpid else "other_position_pair_sampled")
            if r.stats["ended_data"]:
                t.cls(sub.name, "history_with_ended_data")
            if j == 0:
                t.sample(sub.name, case)

    ctx.shards(work, chunks)
    ctx.tally.extra["short_data_boundary_histories"] = len(items)
    ctx.tally.notes.append("short_data_boundary: directed enumeration (value pairs on user-data positions (3,4) complete, other position pairs sampled); identical in both tiers")


# ---------------------------------------------------------------------------------------------- directed: long runs


def _long_run_histories():
    """Deterministic histories with >= 2 x 256 bursts on one timeslot and no 'ended' in between (the receive sequence
    counter wraps twice), followed by the end of the call and a second short call (restart of the numbering):
    voice call as separate sync / EMB ops, as one EMB op re-parsed 530 times, as one EMB *object* fed 530 times;
    data: 520 non-preamble CSBKs (a data transmission without header never ends), then header + block, interrupted by a voice
    call.  Each with pristine bursts and with two different inbound numberings, on timeslot 1 and 2."""
    out = []
    for ts in (1, 2):
        for mode, salt in (("pristine", None), ("inbound", 3), ("inbound", 11)):
            pre = [] if salt is None else [{"k": "inbound", "on": True, "salt": salt}]
            vh = {"k": "vhdr", "ts": ts, "cc": 1, "flco": "group", "so": 0, "pf": 0, "crc": 0, "x": 5 + ts}
            sync = {"k": "vsync", "ts": ts, "sync": "BsSourcedVoice", "x": 1}
            emb = {"k": "vemb", "ts": ts, "cc": 1, "pi": 0, "lcss": 0, "e32": 0, "x": 2}
            tail = [{**vh, "k": "term"}, vh, sync, emb, emb, {**vh, "k": "term"}, {"k": "csbk", "ts": ts, "cc": 1, "op": "bs_down", "x": 3}]
            frames = []
            for f in range(87):
                frames.append({**sync, "sync": VOICE_SYNCS[f % 4]})
                frames += [{**emb, "lcss": (1, 3, 3, 2, 0)[i], "x": i} for i in range(5)]
            out.append(({"ops": pre + [vh] + frames + tail}, f"voice_separate_ops_{mode}"))
            out.append(({"ops": pre + [vh, sync, {**emb, "rep": 530}] + tail}, f"voice_one_op_reparsed_{mode}"))
            out.append(({"ops": pre + [vh, sync, {**emb, "rep": 530, "same": True}] + tail}, f"voice_same_object_{mode}"))
            blk = {"k": "data", "ts": ts, "cc": 1, "rate": "1/2", "hex": "01" * 12}
            out.append(({"ops": pre + [{"k": "csbk", "ts": ts, "cc": 1, "op": "bs_down", "x": 3, "rep": 520, "same": salt == 11},
                                       {"k": "dhdr", "ts": ts, "cc": 1, "fmt": "unconfirmed", "btf": 1, "a": False, "sap": "IP_PacketData", "poc": 0, "x": 9}, blk, vh] + tail},
                        f"data_csbk_run_{mode}"))
    return out


def drv_long_runs(ctx: Ctx, sub: SubCheck):
    note_shim(ctx)
    items = _long_run_histories()

    def work(item, t: Tally):
        case, label = item
        r = _judge_history(ctx, sub.name, case, t)
        t.case(sub.name, nontrivial=r.nontrivial(), cls=label)
        for c in r.classes():
            t.cls(sub.name, c)
        t.extra["long_runs_sequence_wraps"] = t.extra.get("long_runs_sequence_wraps", 0) + r.stats["seq_wrap"]
        if label.endswith("inbound") and "separate" in label:
            t.sample(sub.name, {"n_ops": len(case["ops"]), "first_ops": case["ops"][:4], "last_ops": case["ops"][-7:]})

    ctx.shards(work, items)
    ctx.tally.notes.append("long_runs: deterministic histories of >= 512 bursts on one timeslot without an 'ended' (two wraps of the receive sequence counter), then end + second call; identical in both tiers")


# ---------------------------------------------------------------------------------------------- near-collisions: EMB bursts close to a SYNC word

_NEAR_SYNC = {}


def near_sync_emb_fields(max_distance=3, per_cell=6):
    """[(fields of a vemb op, sync name, Hamming distance)]: VALID EMB bursts (library-built EMB word for (cc, pi, lcss)) whose
    48 centre bits lie at Hamming distance 1..max_distance from a SYNC word S of table 9.2 (all 10 words: voice, data, RC,
    reserved): centre = E[0:8] + (S[8:40] with a few bits flipped) + E[8:16] for the EMB codewords E nearest to S's outer 16
    bits (the construction of props/c01.py voice_near_sync).  When no codeword is within max_distance of S's outer bits the
    nearest ones are taken as they are.  Deterministic; none of the centres IS a SYNC word."""
    if "v" in _NEAR_SYNC:
        return _NEAR_SYNC["v"]
    L = _Lib.get()
    syncs = [(m.name, m.value) for m in L["SyncPatterns"] if m.name != "EmbeddedSignalling"]
    sync_values = {v for _, v in syncs}
    words = {}
    for cc in range(16):
        for pi in (0, 1):
            for lcss in range(4):
                w = int(L["EmbeddedSignalling"](colour_code=cc, preemption_and_power_control_indicator=pi, link_control_start_stop=lcss).as_bits().to01(), 2)
                words[(cc, pi, lcss)] = w
    out = []
    for name, S in syncs:
        outer, mid = ((S >> 40) << 8) | (S & 0xFF), (S >> 8) & 0xFFFFFFFF
        ranked = sorted(words.items(), key=lambda kv: (bin(kv[1] ^ outer).count("1"), kv[0]))
        dmin = bin(ranked[0][1] ^ outer).count("1")
        chosen = [kv for kv in ranked if bin(kv[1] ^ outer).count("1") <= max(max_distance, dmin)][:per_cell]
        for (cc, pi, lcss), w in chosen:
            d0 = bin(w ^ outer).count("1")
            flip_sets = [()]
            h = int.from_bytes(hashlib.sha256(f"near:{name}:{cc}:{pi}:{lcss}".encode()).digest()[:8], "big")
            p1, p2, p3 = h % 32, (h >> 8) % 32, (h >> 16) % 32
            flip_sets += [(p1,), (0,), (31,), tuple(sorted({p1, p2})), tuple(sorted({p1, p2, p3}))]
            for fl in flip_sets:
                e32 = mid
                for b in fl:
                    e32 ^= 1 << (31 - b)
                d = d0 + len(fl)
                centre = ((w >> 8) << 40) | (e32 << 8) | (w & 0xFF)
                if d == 0 or centre in sync_values or (d > max_distance and d > dmin):
                    continue
                out.append(({"cc": cc, "pi": pi, "lcss": lcss, "e32": e32}, name, d))
    _NEAR_SYNC["v"] = out
    return out


def _near_sync_histories():
    """every near-SYNC EMB burst at every position B..F of a superframe of an open voice call (header, exact-SYNC burst A, EMB
    bursts), followed by the rest of the superframe and the start of the next one; expected labels come from the model, in
    which only an exact SYNC word starts a superframe.  Alternating timeslots / inbound metadata."""
    out = []
    for i, (f, name, d) in enumerate(near_sync_emb_fields()):
        for pos in range(1, 6):
            ts = 1 + (i + pos) % 2
            vh = {"k": "vhdr", "ts": ts, "cc": f["cc"], "flco": "group", "so": 0, "pf": 0, "crc": 0, "x": 5}
            plain = {"k": "vemb", "ts": ts, "cc": f["cc"], "pi": 0, "lcss": 0, "e32": 0x12345678, "x": 2}
            near = {"k": "vemb", "ts": ts, "x": 3, **f}
            sync = {"k": "vsync", "ts": ts, "sync": VOICE_SYNCS[(i + pos) % 4], "x": 1}
            ops = ([INBOUND_ON] if (i + pos) % 4 == 3 else []) + [vh, sync]
            ops += [near if j == pos else {**plain, "lcss": (1, 3, 3, 2, 0)[j - 1], "x": j} for j in range(1, 6)]
            ops += [sync, plain, near, plain, {**vh, "k": "term"}, plain]
            out.append(({"ops": ops}, f"near_{name}_distance_{d}", f"position_{LABELS[pos][-1]}"))
    return out


def drv_near_sync(ctx: Ctx, sub: SubCheck):
    note_shim(ctx)
    items = _near_sync_histories()
    chunks = [items[i::64] for i in range(64)]

    def work(chunk, t: Tally):
        for j, (case, label, pos) in enumerate(chunk):
            r = _judge_history(ctx, sub.name, case, t)
            t.case(sub.name, nontrivial=r.nontrivial(), cls=label)
            t.cls(sub.name, pos)
            if r.stats["labels_checked"] >= 9:
                t.cls(sub.name, "history_with_all_labels_checked")
            if j == 0:
                t.sample(sub.name, case)

    ctx.shards(work, [c for c in chunks if c])
    fields = near_sync_emb_fields()
    ctx.tally.extra["near_sync_emb_bursts"] = len(fields)
    ctx.tally.extra["near_sync_min_distance"] = min(d for _, _, d in fields)
    ctx.tally.notes.append("near_sync: valid EMB bursts at Hamming distance 1..3 (or the minimum reachable) from each of the 10 SYNC words, at positions B..F of a superframe; identical in both tiers")


# ---------------------------------------------------------------------------------------------- directed: long homogeneous runs

REPEAT_COUNTS = [2, 3, 4, 5, 6, 7, 8, 9, 10, 11, 12, 16, 17, 31, 32, 33, 64, 100, 128, 255, 256, 257, 300]


def _repeat_histories():
    """(a) every burst class repeated 300 times (re-parsed, and as the same Burst object) in every tracker mode: idle, voice
    call open (with a superframe under way), data transmission open with a header (blocks-to-follow 127) and without one;
    followed by a fixed tail (terminator, a complete second voice call, a complete data call) so that the restart / idle /
    hand-over clauses are judged after the run.  (b) short blocks of 2-3 ops repeated N times for N in REPEAT_COUNTS:
    [sync, EMB], [voice header, terminator], [data header btf 1, block], [preamble, data header btf 1, block]."""
    out = []
    ts = 1
    vh = {"k": "vhdr", "ts": ts, "cc": 1, "flco": "group", "so": 0, "pf": 0, "crc": 0, "x": 5}
    sync = {"k": "vsync", "ts": ts, "sync": "MsSourcedVoice", "x": 1}
    emb = {"k": "vemb", "ts": ts, "cc": 1, "pi": 0, "lcss": 3, "e32": 0xCAFEF00D, "x": 2}
    hdr1 = {"k": "dhdr", "ts": ts, "cc": 1, "fmt": "unconfirmed", "btf": 1, "a": False, "sap": "IP_PacketData", "poc": 0, "x": 9}
    blk = {"k": "data", "ts": ts, "cc": 1, "rate": "1/2", "hex": "a5" * 12}
    classes = {
        "vhdr": vh, "term": {**vh, "k": "term"}, "vsync": sync, "vemb": emb,
        "near_sync_emb": {"k": "vemb", "ts": ts, "x": 3, **near_sync_emb_fields()[0][0]},
        "dhdr_confirmed": {**hdr1, "fmt": "confirmed", "a": True, "btf": 127, "sap": "UDP_IP_compression"}, "dhdr_unconfirmed_btf0": {**hdr1, "btf": 0},
        "dhdr_response": {**hdr1, "fmt": "response", "btf": 2}, "dhdr_short_defined": {**hdr1, "fmt": "short_defined", "btf": 3}, "dhdr_udt": {**hdr1, "fmt": "udt", "btf": 1},
        "pre": {"k": "pre", "ts": ts, "cc": 1, "btf": 4, "x": 13}, "pre_btf0": {"k": "pre", "ts": ts, "cc": 1, "btf": 0, "x": 13}, "csbk": {"k": "csbk", "ts": ts, "cc": 1, "op": "aloha", "x": 14},
        "data_1/2": blk, "data_3/4": {**blk, "rate": "3/4", "hex": "00" * 18}, "data_1": {**blk, "rate": "1", "hex": "ff" * 24},
        "vhdr_talker_alias": {**vh, "flco": "ta_hdr", "lc": LC_OCTETS[1]}, "term_talker_alias_block": {**vh, "k": "term", "flco": "ta_b1", "lc": LC_OCTETS[3]},
        "vhdr_gps": {**vh, "flco": "gps", "lc": "ff" * 7},
    }
    modes = {
        "idle": [],
        "voice": [vh, sync, emb, emb],
        "data_with_header": [{**hdr1, "btf": 127, "x": 21}],
        "data_without_header": [{"k": "csbk", "ts": ts, "cc": 1, "op": "bs_down", "x": 3}],
    }
    tail = [{**vh, "k": "term"}, vh, sync, emb, emb, {**vh, "k": "term"}, hdr1, blk, emb]
    i = 0
    for cname, op in classes.items():
        for mname, prefix in modes.items():
            i += 1
            pre = [INBOUND_ON] if i % 2 else []
            out.append(({"ops": pre + prefix + [{**op, "rep": 300, "same": bool(i % 3 == 0)}] + tail}, f"class_{cname}_x300", f"mode_{mname}"))
    blocks = {
        "sync_emb": [sync, emb], "header_terminator": [vh, {**vh, "k": "term"}], "data_call": [hdr1, blk],
        "preamble_data_call": [{"k": "pre", "ts": ts, "cc": 1, "btf": 2, "x": 13}, hdr1, blk],
    }
    for bname, block in blocks.items():
        for n in REPEAT_COUNTS:
            i += 1
            pre = [INBOUND_ON] if i % 2 else []
            lead = [vh] if bname == "sync_emb" else []
            out.append(({"ops": pre + lead + block * n + tail}, f"block_{bname}", f"repeated_{n}"))
    return out


def drv_repeats(ctx: Ctx, sub: SubCheck):
    note_shim(ctx)
    items = _repeat_histories()
    items.sort(key=lambda it: -sum(int(o.get("rep", 1)) for o in it[0]["ops"]))

    def work(item, t: Tally):
        case, label, sublabel = item
        r = _judge_history(ctx, sub.name, case, t)
        t.case(sub.name, nontrivial=r.nontrivial(), cls=label)
        t.cls(sub.name, sublabel)
        for c in r.classes():
            t.cls(sub.name, c)

    ctx.shards(work, items)
    ctx.tally.notes.append("repeats: every burst class x300 in every tracker mode, and 2-3 op blocks repeated N times (N up to 300); identical in both tiers")


# ---------------------------------------------------------------------------------------------- directed: raising observers x rare PDU variants

RAISER_CONFIGS = [
    ("terminal_raiser_before_recorder_all", []),  # the default of every runner
    ("no_raiser", [("t", False, "all")]),
    ("terminal_raiser_before_recorder_started", [("t", True, "started")]),
    ("terminal_raiser_before_recorder_data_ended", [("t", True, "data_ended")]),
    ("terminal_raiser_before_recorder_voice_ended", [("t", True, "voice_ended")]),
    ("terminal_raiser_behind_recorder_all", [("t", False, "all"), ("t2", True, "all")]),
    ("terminal_raiser_behind_recorder_voice_ended", [("t", False, "all"), ("t2", True, "voice_ended")]),
    ("terminal_raiser_behind_recorder_data_ended", [("t", False, "all"), ("t2", True, "data_ended")]),
    ("timeslot_raiser_all", [("t", False, "all"), ("ts", True, "all")]),
    ("timeslot_raiser_started", [("t", False, "all"), ("ts", True, "started")]),
    ("timeslot_raiser_voice_ended", [("t", False, "all"), ("ts", True, "voice_ended")]),
    ("timeslot_raiser_data_ended", [("t", False, "all"), ("ts", True, "data_ended")]),
    ("all_raisers_all", [("t2", True, "all"), ("ts", True, "all")]),
]


def _raiser_histories():
    """Every rare variant of a header / block PDU (Full LC: 7 opcodes x 14 octet patterns in a voice LC header and in the
    terminator; data header: the 5 library-built formats and the raw pool; CSBK: the raw pool = every opcode the parser
    accepts) is delivered in an 'ended' notification - voice: header, sync, EMB, EMB, terminator; data header: preamble,
    header, block, then a voice header that interrupts (ends) the data transmission; CSBK: the CSBK, a header with one block
    to follow, the block - under each of the 13 raiser configurations (raising observer registered before / behind the
    recording one at terminal level, between two recorders at timeslot level; raising from every callback or from one callback
    kind only; 7 exception types rotating), followed by a complete ordinary voice call and a complete ordinary data call on the
    same timeslot, so that 'later events', the restart of the numbering and idle / fresh stream id are judged as well."""
    pool = raw_pdu_pool()
    variants = []
    for f in ALL_FLCOS:
        for i, octs in enumerate(LC_OCTETS if f in RARE_FLCOS else LC_OCTETS[:1]):
            variants.append(("lc_" + f, {"flco": f, "lc": octs, "so": 0, "pf": i % 2, "crc": 0x010203 * i, "x": 5 + i}))
    for i, fmt in enumerate(HDR_FORMATS):
        variants.append(("dhdr_" + fmt, {"k": "dhdr", "cc": 1, "fmt": fmt, "btf": 2, "a": fmt == "confirmed", "sap": SAPS[i % len(SAPS)], "poc": 0, "x": 40 + i}))
    for i, (bits, name) in enumerate(pool["dhdr"]):
        variants.append(("dhdr_raw_" + name, {"k": "dhdr", "cc": 1, "bits": raw_header_with_btf(bits, name, (None, 2, 1, 0)[i % 4]), "x": i}))
    for i, (bits, name) in enumerate(pool["csbk"]):
        variants.append(("csbk_raw_" + name, {"k": "csbk", "cc": 1, "bits": bits, "x": i}))
    out = []
    n = 0
    for vname, v in variants:
        for ci, (cname, toggles) in enumerate(RAISER_CONFIGS):
            n += 1
            ts = 1 + n % 2
            exc = RAISE_EXC[(n // 2) % len(RAISE_EXC)]
            ops = [INBOUND_ON] if n % 3 == 0 else []
            ops += [{"k": "raise", "who": (f"ts{ts}" if who == "ts" else who), "on": on, "what": what, "exc": exc} for who, on, what in toggles]
            if not toggles and exc != "boom":
                ops.append({"k": "raise", "who": "t", "on": True, "what": "all", "exc": exc})
            vh = {"k": "vhdr", "ts": ts, "cc": 1, "flco": "group", "so": 0, "pf": 0, "crc": 0, "x": 5}
            sync = {"k": "vsync", "ts": ts, "sync": VOICE_SYNCS[n % 4], "x": 1}
            emb = {"k": "vemb", "ts": ts, "cc": 1, "pi": 0, "lcss": 0, "e32": 0x12345678, "x": 2}
            hdr1 = {"k": "dhdr", "ts": ts, "cc": 1, "fmt": "unconfirmed", "btf": 1, "a": False, "sap": "IP_PacketData", "poc": 0, "x": 9}
            blk = {"k": "data", "ts": ts, "cc": 1, "rate": "1/2", "hex": "5a" * 12}
            if vname.startswith("lc_"):
                ops += [{"k": "vhdr", "ts": ts, "cc": 1, **v}, sync, emb, {**emb, "x": 3}, {"k": "term", "ts": ts, "cc": 1, **v}]
            elif vname.startswith("dhdr_"):
                ops += [{"k": "pre", "ts": ts, "cc": 1, "btf": 3, "x": 13}, {**v, "ts": ts}, blk, vh]
            else:
                ops += [{**v, "ts": ts}, hdr1, blk]
            ops += [vh, sync, emb, {**vh, "k": "term"}, hdr1, blk, emb]
            out.append(({"ops": ops}, vname, cname, "exception_" + exc))
    return out


def drv_raisers(ctx: Ctx, sub: SubCheck):
    note_shim(ctx)
    items = _raiser_histories()
    chunks = [items[i::64] for i in range(64)]

    def work(chunk, t: Tally):
        for j, (case, vname, cname, ename) in enumerate(chunk):
            r = _judge_history(ctx, sub.name, case, t)
            t.case(sub.name, nontrivial=r.nontrivial(), cls="variant_" + vname)
            t.cls(sub.name, "config_" + cname)
            t.cls(sub.name, ename)
            for c in r.classes():
                if "raiser" in c or "rare" in c or "ended_voice" in c or "ended_data" in c or "skipped" in c:
                    t.cls(sub.name, c)
            if j == 0:
                t.sample(sub.name, case)

    ctx.shards(work, [c for c in chunks if c])
    pool = raw_pdu_pool()
    ctx.tally.extra["raw_pdu_pool"] = {"csbk_opcodes": sorted({n for _, n in pool["csbk"]}), "data_header_formats": sorted({n for _, n in pool["dhdr"]})}
    ctx.tally.notes.append("raising_observers: every rare header / block variant x 13 raiser configurations, ended delivered with that variant, then ordinary calls; identical in both tiers")


# ---------------------------------------------------------------------------------------------- preludes (stimulus only)


def _prelude_bursts(a):
    L = _Lib.get()
    out = []
    for op in (a or {}).get("ops", [])[:40]:
        if op.get("k") not in BURST_KINDS:
            continue
        try:
            raw, btype = build_burst(op)
            out.append((op, L["Burst"].from_bytes(raw, burst_type=L["BurstTypes"][btype])))
        except Exception:
            pass
    return out


def _op_reprs(a):
    """repr / str / debug of the history's bursts and PDUs (the diagnostic siblings of the parse)"""
    for _, b in _prelude_bursts(a):
        for f in (repr, str, lambda o: o.debug(False) if hasattr(o, "debug") else None):
            for o in (b, b.data, getattr(b, "slot_type", None), getattr(b, "embedded_signalling", None)):
                try:
                    f(o)
                except Exception:
                    pass


def _op_other_terminal(a):
    """the same bursts through another terminal whose only observer raises from every callback; left mid-transmission"""
    L = _Lib.get()
    term = L["Terminal"](2306, [L["Raiser"]("prelude-raiser", True)])
    for op, b in _prelude_bursts(a):
        try:
            term.process_incoming_burst(b, op.get("ts", 1))
        except Exception:
            pass
    try:
        term.debug(False)
    except Exception:
        pass


def _op_watcher(a):
    """the same bursts through a TransmissionWatcher (sibling entry point that creates terminals per target id), then
    end_all_transmissions with a raising observer registered"""
    L = _Lib.get()
    from okdmr.dmrlib.transmission.transmission_watcher import TransmissionWatcher

    w = TransmissionWatcher([L["Raiser"]("prelude-watcher-raiser", True), L["Recorder"]("prelude-watcher-recorder")])
    for i, (op, b) in enumerate(_prelude_bursts(a)):
        try:
            b.target_radio_id = 2307 + i % 2
            b.timeslot = op.get("ts", 1)
            w.process_burst(b)
        except Exception:
            pass
    try:
        w.end_all_transmissions()
    except Exception:
        pass


PRELUDE_OPS = {"reprs": _op_reprs, "other_terminal": _op_other_terminal, "watcher": _op_watcher}


def prelude_for(sub, case, rng):
    """sibling uses of the history's own bursts between the two judgements: their repr / str / debug, another terminal (only
    observer raises) left mid-transmission, a TransmissionWatcher ended by end_all_transmissions.  The bursts are the first 12,
    a random window of 12 and the last 12 burst ops of the history (repeat counts dropped)."""
    ops = [{k: v for k, v in op.items() if k not in ("rep", "same")} for op in (case or {}).get("ops", []) if isinstance(op, dict) and op.get("k") in BURST_KINDS]
    if not ops:
        return []
    lo = rng.randrange(len(ops))
    pick = (ops[:12] + ops[lo : lo + 12] + ops[-12:])[:36]
    names = ["reprs", "other_terminal", "watcher"]
    rng.shuffle(names)
    return [{"x": n, "a": {"ops": pick}} for n in names]


PRELUDE_GROUPS = ("burst", "pdu", "bptc")

SUBCHECKS = [
    SubCheck("short_histories", oracle_history, drv_exhaustive, "all sequences up to length 4 (quick) / 5 (thorough) over an 11-burst reduced alphabet, invariants I1..I7 after every burst"),
    SubCheck("short_data_boundary", oracle_history, drv_boundary, "directed: header + 1..2 blocks, 3 SAPs x 2 modes x rates x both timeslots, first six user-data octets from {00,01,7F,80,81,FF} on two positions at a time ((3,4) complete), I1..I7"),
    SubCheck("long_runs", oracle_history, drv_long_runs, "directed: >= 2 x 256 bursts on one timeslot without an ended (voice: separate ops / re-parsed / same Burst object; data: CSBK run), pristine and with inbound numbering, then end + second call"),
    SubCheck("near_sync", oracle_history, drv_near_sync, "directed: valid EMB bursts whose 48 centre bits are at Hamming distance 1..3 from each of the 10 SYNC words, at every position B..F of a superframe; labels per the model (only an exact SYNC starts a superframe)"),
    SubCheck("repeats", oracle_history, drv_repeats, "directed: each of 16 burst classes repeated 300 times in each of 4 tracker modes (idle, voice, data with / without header), and 2-3 op blocks repeated N times (N in {2..12,16,17,31..33,64,100,128,255..257,300}), then a fixed tail of complete calls"),
    SubCheck("raising_observers", oracle_history, drv_raisers, "directed: every rare header / block variant (Full LC with each of the 7 parseable opcodes incl. GPS info and talker alias header / blocks with 14 octet patterns, each data header format built and raw, every CSBK opcode the parser accepts) handed over by an ended notification under 13 raiser configurations (raising observer before / behind the recorder at terminal level, between recorders at timeslot level; raising from all callbacks or one kind; 7 exception types), then ordinary calls; I1..I7"),
    SubCheck("machine", oracle_history, drv_machine, "Hypothesis RuleBasedStateMachine over the full alphabet with generated fields, scripted prefixes, raiser toggles"),
]
PREDICATES = {}
