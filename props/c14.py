"""C14 — MBXML variable-length integers and floats decode to what was encoded; latitude / longitude / info-time writers are
inverted by the decoding used for the XML view.

Oracles
  (R)  write_uintvar / write_sintvar == canonical shortest septet sequence of vp/refs/mbxml_ref.py (independent encoder)
  (R)  read_uintvar / read_sintvar on the *reference* encoding (surrounded by arbitrary lead/trail octets) return exactly
       the value and consume exactly those octets
  (RT) read(write(v)) for integers; read(write(x, p)) == x exactly for floats x = +-(i + f/128**p), p = 1..3, and the reader
       consumes exactly what the writer produced (also in front of trailing octets); readers on the reference full-width
       float encoding return x
  (RT) latitude / longitude / info-time: writer output is put into a point-2d / info-time token of a report document, the
       document goes through MBXML.from_bytes(...)[0].as_xml() (the library's real decoding formulas) and the text must equal
       the 6-decimal / 14-digit input.
Drivers: dense sweeps and boundary lists (complete enumeration of stated sub-ranges) + Hypothesis above them.
"""
from __future__ import annotations

import re
from datetime import date, datetime, timedelta

from vp.core import Ctx, Fail, SubCheck, Tally, call
from vp.refs import mbxml_ref as R

LEVEL = "exploration"
RULE = (
    "unsigned: dense sweep 0..2^18 (quick) / 0..2^23 (thorough), every septet-length boundary 128^k-1,128^k,128^k+1, every "
    "m*128^j (m=1..127 and random m; j=1..4), values built from septet lists biased to 0x00/0x3F/0x40/0x7F, Hypothesis "
    "integers to 2^32-1; signed: +- the same magnitudes to 2^31-1 plus the 6+7n-bit boundaries; each value is read back "
    "between arbitrary lead and trail octets.  Floats: (i, f, p, sign) with value i + f/128^p exact in binary64: p=1 all 128 "
    "fractions x a list of integer parts, p=2 all 16384 fractions x several integer parts, p=3 sampled (quick) / all 2^21 "
    "fractions (thorough), integer parts incl. 0, multiples of 128, bit-6 boundaries, 2^31-1 / 2^32-1; both signs incl. zero "
    "integer part with negative fraction.  Latitude 0..90 and longitude 0..<360 on the 10^-6 grid (strided sweep with seeded "
    "offset + Hypothesis); info-time: every calendar date 2000-01-01..2099-12-31 (thorough; strided in quick) with a "
    "seeded time of day, every second of a day (thorough; strided in quick) on a seeded date, as datetime / 14-digit str / "
    "int.  Distinct: enumerations are distinct by construction (lists de-duplicated against the sweeps); Hypothesis cases by "
    "hash and counted as non-trivial only outside the swept ranges.  Non-trivial: integers needing >= 2 septets; floats "
    "with f > 0; coordinates/times other than 0 / midnight.  mode_flags: the boundary lists, strided sweeps, all p=1 "
    "fractions and the structured p=2/3 fractions x all integer parts, strided p=2 / p=3 fractions, strided coordinates and "
    "date-times, plus Hypothesis cases, each evaluated with MBXML.DEBUG = True / after from_bytes(malformed, debug=True) "
    "raised / after from_bytes(valid, debug=True) / (coordinates, times) inside from_bytes(debug=True).  histories: sequences of "
    "judged steps (the clauses of the six value sub-checks) and stimulus steps (valid sibling calls, rightly refused calls: "
    "negative / too large / wrong type / precision 0 / truncated octets / damaged documents) on SHARED magnitudes: for every "
    "boundary magnitude (0..130, first septet 01/3F/40/41/7F x 2..5 septets, 2^k-1/2^k/2^k+1, limits, seeded members of every "
    "class) the list [unsigned, +m, -m, m as integer part of an unsigned / positive / negative float, the same fraction number "
    "under another precision, three refused calls] followed by itself (every ordered pair of kinds of step), related magnitudes "
    "(bit 6 of the first septet toggled, one septet more / less, +1), the same number through the latitude and the longitude "
    "writer in both orders, one instant in the three date forms; Hypothesis histories of 2..12 steps over a pool of 1..3 related "
    "magnitudes; each history is judged in a process of its own that starts from a freshly imported library.  Preludes (framework: every 8th held case is judged "
    "again after them): the case's value, its negation, magnitude and integer part through every sibling writer / reader, as "
    "token value through MBXML.from_bytes / as_bytes / as_xml, and through refused variants of the same calls."
)
ASSUMPTIONS = [
    "canonical forms per vp/refs/mbxml_ref.py: uintvar = shortest base-128 big-endian with continuation bit 0x80; sintvar = "
    "sign in bit 6 of the first septet, 6 magnitude bits there, 7 in each following septet (derived from read_sintvar and the "
    "captured vectors 65 / C1 20 / 40 0A)",
    "float writers are only required to round-trip through the library's readers (the statement does not fix their octets)",
    "negative latitudes/longitudes make the writers raise OverflowError (rejected input) and are outside the domain; "
    "latitude 90.0 is the documented special case (0x7FFFFFFF)",
    "negative zero (sign bit with zero integer part and zero fraction) is not a value and is not generated",
]

U_MAX = 2**32 - 1
S_MAX = 2**31 - 1

TRAILS = ["", "00", "8001", "ff", "7f80", "c0", "4000", "80"]
LEADS = ["", "81", "00", "ff80"]


def MB():
    from okdmr.dmrlib.motorola.mbxml import MBXML

    return MBXML


# ---------------------------------------------------------------------------------------------- classification


def uint_class(v: int) -> str:
    n = R.n_uint_septets(v)
    if v >= 128 and v % 128 == 0:
        return "low_septet_zero"
    return f"septets_{n}"


def sint_class(v: int) -> str:
    mag = abs(v)
    tags = []
    if mag >= 128 and mag % 128 == 0:
        tags.append("low_septet_zero")
    if R.uintvar(mag)[0] & 0x40:
        tags.append("bit6_of_leading_septet")
    return "+".join(tags) if tags else f"septets_{R.n_sint_septets(mag)}"


def _fraction_has_leading_zero_septet(f: int, p: int) -> bool:
    """after dropping trailing zero septets (value-preserving) the fraction still starts with a zero septet"""
    while p > 1 and f % 128 == 0:
        f //= 128
        p -= 1
    return p >= 2 and f < 128 ** (p - 1)


def float_class(i: int, f: int, p: int, signed: bool) -> str:
    """input class by root-cause exposure: integer-part classes first (they dominate), else the fraction class"""
    tags = []
    if i >= 128 and i % 128 == 0:
        tags.append("int_low_septet_zero")
    if signed and R.uintvar(i)[0] & 0x40:
        tags.append("int_bit6_of_leading_septet")
    if not tags and _fraction_has_leading_zero_septet(f, p):
        tags.append("fraction_leading_zero_septet")
    return "+".join(tags) if tags else "plain"


# ---------------------------------------------------------------------------------------------- oracles


def _is_int(x) -> bool:
    return isinstance(x, int) and not isinstance(x, bool)


def oracle_uintvar(case):
    """case = {v, lead?, trail?}"""
    M = MB()
    v = case["v"]
    lead = bytes.fromhex(case.get("lead", ""))
    trail = bytes.fromhex(case.get("trail", ""))
    ref = R.uintvar(v)
    klass = uint_class(v)
    # reader on the canonical sequence
    _, res = call(M.read_uintvar, lead + ref + trail, len(lead))
    val, idx = res
    if isinstance(val, bool) or val != v:
        raise Fail("read_uintvar_returns_value", val, v, klass)
    if idx != len(lead) + len(ref):
        raise Fail("read_uintvar_consumes_exactly_the_encoding", idx, len(lead) + len(ref), klass)
    # writer
    _, enc = call(M.write_uintvar, v)
    if not isinstance(enc, (bytes, bytearray)) or bytes(enc) != ref:
        raise Fail("write_uintvar_canonical_shortest", bytes(enc).hex() if isinstance(enc, (bytes, bytearray)) else repr(enc), ref.hex(), klass)
    _, res = call(M.read_uintvar, lead + bytes(enc) + trail, len(lead))
    if tuple(res) != (v, len(lead) + len(enc)):
        raise Fail("read_write_uintvar_roundtrip", list(res), [v, len(lead) + len(enc)], klass)


def oracle_sintvar(case):
    """case = {v, lead?, trail?}"""
    M = MB()
    v = case["v"]
    lead = bytes.fromhex(case.get("lead", ""))
    trail = bytes.fromhex(case.get("trail", ""))
    ref = R.sintvar(v)
    klass = sint_class(v)
    _, res = call(M.read_sintvar, lead + ref + trail, len(lead))
    val, idx = res[0], res[1]
    if isinstance(val, bool) or val != v:
        raise Fail("read_sintvar_returns_value", val, v, klass)
    if idx != len(lead) + len(ref):
        raise Fail("read_sintvar_consumes_exactly_the_encoding", idx, len(lead) + len(ref), klass)
    _, enc = call(M.write_sintvar, v)
    if not isinstance(enc, (bytes, bytearray)) or bytes(enc) != ref:
        raise Fail("write_sintvar_canonical_shortest", bytes(enc).hex() if isinstance(enc, (bytes, bytearray)) else repr(enc), ref.hex(), klass)
    _, res = call(M.read_sintvar, lead + bytes(enc) + trail, len(lead))
    if (res[0], res[1]) != (v, len(lead) + len(enc)):
        raise Fail("read_write_sintvar_roundtrip", [res[0], res[1]], [v, len(lead) + len(enc)], klass)


def _float_oracle(case, signed: bool):
    M = MB()
    i, f, p = case["i"], case["f"], case["p"]
    neg = bool(case.get("neg", False)) if signed else False
    trail = bytes.fromhex(case.get("trail", ""))
    x = R.float_value(i, f, p, neg)
    klass = float_class(i, f, p, signed)
    reader = M.read_sfloatvar if signed else M.read_ufloatvar
    writer = M.write_sfloatvar if signed else M.write_ufloatvar
    name = "sfloatvar" if signed else "ufloatvar"
    # reader on the reference (full-width) encoding
    ref = R.sfloat_bytes(i, f, p, neg) if signed else R.ufloat_bytes(i, f, p)
    _, res = call(reader, ref + trail, 0)
    val, idx = res
    if val != x:
        raise Fail(f"read_{name}_returns_value", val, x, klass)
    if idx != len(ref):
        raise Fail(f"read_{name}_consumes_exactly_the_encoding", idx, len(ref), klass)
    # writer -> reader
    _, enc = call(writer, x, p)
    if not isinstance(enc, (bytes, bytearray)) or len(enc) < 2:
        raise Fail(f"write_{name}_returns_octets", repr(enc), "at least two octets", klass)
    enc = bytes(enc)
    status, res = call(reader, enc + trail, 0, allowed=(IndexError,))
    if status == "raised":
        raise Fail(f"read_write_{name}_roundtrip", f"{enc.hex()} -> IndexError (reader ran past the written octets)", x, klass)
    val, idx = res
    if val != x:
        raise Fail(f"read_write_{name}_roundtrip", {"written": enc.hex(), "read": val}, x, klass)
    if idx != len(enc):
        raise Fail(f"read_write_{name}_consumes_exactly_what_was_written", {"written": enc.hex(), "idx": idx}, len(enc), klass)


def oracle_ufloat(case):
    """case = {i, f, p, trail?}: x = i + f/128**p"""
    _float_oracle(case, signed=False)


def oracle_sfloat(case):
    """case = {i, f, p, neg, trail?}: x = +-(i + f/128**p)"""
    _float_oracle(case, signed=True)


_LAT = re.compile(r"<lat>([^<]*)</lat>")
_LON = re.compile(r"<long>([^<]*)</long>")
_TIME = re.compile(r"<info-time>([^<]*)</info-time>")

REPORT_DOC_ID = 0x0D  # Triggered-Location-Report, table implied by the id
POINT_2D, INFO_TIME = 0x66, 0x34


_PARSE_DEBUG = False  # set (and restored) by oracle_mode_flags only: carrier documents are parsed with debug=True


def _xml_of_single_token(M, token: bytes) -> str:
    buf = bytes([REPORT_DOC_ID, len(token)]) + token
    _, docs = call(M.from_bytes, buf, _PARSE_DEBUG)
    if len(docs) != 1 or len(docs[0].parts) != 1:
        raise Fail("carrier_document_parses_to_one_token", [len(docs), [len(d.parts) for d in docs]], [1, [1]])
    _, xml = call(docs[0].as_xml)
    return xml


def oracle_latlon(case):
    """case = {lat: micro-degrees 0..90e6, lon: micro-degrees 0..<360e6}"""
    M = MB()
    lat, lon = case["lat"] / 10**6, case["lon"] / 10**6
    _, la = call(M.write_latitude, lat)
    _, lo = call(M.write_longitude, lon)
    for nm, b in (("latitude", la), ("longitude", lo)):
        if not isinstance(b, (bytes, bytearray)) or len(b) != 4:
            raise Fail(f"write_{nm}_returns_4_octets", repr(b), "4 octets")
    xml = _xml_of_single_token(M, bytes([POINT_2D]) + bytes(la) + bytes(lo))
    m1, m2 = _LAT.search(xml), _LON.search(xml)
    if not m1 or not m2:
        raise Fail("xml_view_has_lat_and_long", xml, "<lat>..</lat><long>..</long>")
    if m1.group(1) != str(lat):
        raise Fail("latitude_inverted_by_xml_decoding", m1.group(1), str(lat))
    if m2.group(1) != str(lon):
        raise Fail("longitude_inverted_by_xml_decoding", m2.group(1), str(lon))


def oracle_infotime(case):
    """case = {dt: [Y, M, D, h, m, s], form: datetime|str|int}"""
    M = MB()
    y, mo, d, h, mi, s = case["dt"]
    text = "%04d%02d%02d%02d%02d%02d" % (y, mo, d, h, mi, s)
    form = case["form"]
    arg = datetime(y, mo, d, h, mi, s) if form == "datetime" else text if form == "str" else int(text)
    _, b = call(M.write_infotime, arg)
    if not isinstance(b, (bytes, bytearray)) or len(b) != 5:
        raise Fail("write_infotime_returns_5_octets", repr(b), "5 octets")
    xml = _xml_of_single_token(M, bytes([INFO_TIME]) + bytes(b))
    m = _TIME.search(xml)
    if not m:
        raise Fail("xml_view_has_info_time", xml, "<info-time>..</info-time>")
    if m.group(1) != text:
        raise Fail("infotime_inverted_by_xml_decoding", m.group(1), text, klass=form)


# ---------------------------------------------------------------------------------------------- value lists


def _lt(v: int):
    """deterministic lead/trail octets for enumerated values"""
    return LEADS[(v >> 3) % len(LEADS)], TRAILS[v % len(TRAILS)]


def unsigned_specials(rng, n_random_m: int):
    vals = set()
    for k in range(1, 5):
        for d in (-2, -1, 0, 1, 2):
            vals.add(128**k + d)
        for m in range(1, 128):
            vals.add(m * 128**k)
        for _ in range(n_random_m):
            vals.add(rng.randrange(1, U_MAX // 128**k + 1) * 128**k)
    for b in (6, 13, 20, 27, 31, 32):
        for d in (-1, 0, 1):
            vals.add(2**b + d)
    # interior zero septets, 0x40 / 0x3F leading septets
    for n in range(2, 6):
        for first in (1, 0x3F, 0x40, 0x41, 0x7F):
            for fill in (0, 0x7F, 0x40):
                v = first
                for _ in range(n - 1):
                    v = (v << 7) | fill
                vals.add(v)
                vals.add(v ^ 1)
    vals |= {U_MAX, U_MAX - 1, U_MAX - 127, S_MAX, S_MAX + 1}
    return sorted(v for v in vals if 0 <= v <= U_MAX)


def st_septet_value(max_value: int):
    """Hypothesis: integers built septet by septet (biased to the interesting septets), or plain integers"""
    from hypothesis import strategies as st

    septet = st.one_of(st.sampled_from([0, 0, 1, 0x3F, 0x40, 0x41, 0x7F]), st.integers(0, 127))

    def build(ss):
        v = 0
        for s in ss:
            v = (v << 7) | s
        return v % (max_value + 1)

    return st.one_of(st.lists(septet, min_size=1, max_size=5).map(build), st.integers(0, max_value))


# ---------------------------------------------------------------------------------------------- drivers


def warm_hypothesis_constants():
    """Hypothesis mixes constants harvested from the source of all local modules into its draws and caches them per module
    in files under its storage directory.  Harvest them here, in the parent, before workers are forked: the workers inherit
    the finished pool instead of racing each other on the cache files (a worker that reads a sibling's half-written or
    differently-parsed cache file draws differently => run-to-run differences at one seed)."""
    try:
        from hypothesis.internal.conjecture.providers import _get_local_constants

        _get_local_constants()
    except Exception:  # private API: its absence only costs reproducibility of the class counts, never soundness
        pass


def _enum(ctx: Ctx, sub: SubCheck, oracle, items, expand):
    """items: compact descriptors (pickled to the workers); expand(item) yields (case, class label, non-trivial)"""

    def work(item, t: Tally):
        n = 0
        for case, cls, nt in expand(item):
            ctx.run_case(sub.name, oracle, case, t)
            t.case(sub.name, nontrivial=nt, cls=cls)
            if n == 0:
                t.sample(sub.name, case)
            n += 1

    ctx.shards(work, items)


def _chunks(lst, n):
    return [lst[i : i + n] for i in range(0, len(lst), n)]


def drv_uintvar(ctx: Ctx, sub: SubCheck):
    from hypothesis import strategies as st

    limit = ctx.pick(2**18, 2**23)
    step = limit // 256

    def mk(v):
        lead, trail = _lt(v)
        return {"v": v, "lead": lead, "trail": trail}

    _enum(ctx, sub, oracle_uintvar, [(lo, lo + step) for lo in range(0, limit, step)], lambda rg: ((mk(v), "sweep:" + uint_class(v), v >= 128) for v in range(*rg)))
    specials = [v for v in unsigned_specials(ctx.rng("uint-specials"), ctx.pick(20, 2000)) if v >= limit]
    _enum(ctx, sub, oracle_uintvar, _chunks(specials, 500), lambda ch: ((mk(v), "special:" + uint_class(v), True) for v in ch))
    sp = set(specials)
    strat = st.tuples(st_septet_value(U_MAX), st.sampled_from(LEADS), st.one_of(st.sampled_from(TRAILS), st.binary(max_size=4).map(bytes.hex))).map(
        lambda t: {"v": t[0], "lead": t[1], "trail": t[2]}
    )

    def hyp(shard, t: Tally):
        ctx.hypothesis(
            sub.name, strat, oracle_uintvar, ctx.pick(1100, 5500), tally=t, shard=shard,
            record=lambda c, tt: tt.case(sub.name, key=c, nontrivial=(c["v"] >= limit and c["v"] not in sp), cls="random:" + uint_class(c["v"])),
        )

    warm_hypothesis_constants()
    ctx.shards(hyp, list(range(ctx.pick(16, 80))))
    ctx.tally.extra["uintvar_dense_sweep_upto"] = limit


def drv_sintvar(ctx: Ctx, sub: SubCheck):
    from hypothesis import strategies as st

    limit = ctx.pick(2**17, 2**22)
    step = limit // 128

    def mk(v):
        lead, trail = _lt(abs(v) * 2 + (v < 0))
        return {"v": v, "lead": lead, "trail": trail}

    _enum(ctx, sub, oracle_sintvar, [(lo, lo + step) for lo in range(-limit, limit, step)], lambda rg: ((mk(v), "sweep:" + sint_class(v), abs(v) >= 64) for v in range(*rg)))
    mags = [v for v in unsigned_specials(ctx.rng("sint-specials"), ctx.pick(20, 2000)) if limit <= v <= S_MAX]
    _enum(ctx, sub, oracle_sintvar, _chunks(mags, 250), lambda ch: ((mk(s * m), "special:" + sint_class(m), True) for m in ch for s in (1, -1)))
    sp = set(mags)
    strat = st.tuples(st_septet_value(S_MAX), st.booleans(), st.sampled_from(LEADS), st.one_of(st.sampled_from(TRAILS), st.binary(max_size=4).map(bytes.hex))).map(
        lambda t: {"v": -t[0] if t[1] else t[0], "lead": t[2], "trail": t[3]}
    )

    def hyp(shard, t: Tally):
        ctx.hypothesis(
            sub.name, strat, oracle_sintvar, ctx.pick(1100, 5500), tally=t, shard=shard,
            record=lambda c, tt: tt.case(sub.name, key=c, nontrivial=(abs(c["v"]) >= limit and abs(c["v"]) not in sp), cls="random:" + sint_class(c["v"])),
        )

    warm_hypothesis_constants()
    ctx.shards(hyp, list(range(ctx.pick(16, 80))))
    ctx.tally.extra["sintvar_dense_sweep_magnitude_upto"] = limit


INT_PARTS = [0, 1, 37, 63, 64, 65, 100, 127, 128, 129, 160, 255, 256, 8191, 8192, 8193, 16383, 16384, 16385, 2**20 - 1, 2**20, 2**21 - 1, 2**21, 2**27 - 1, 2**27, 2**28 - 1, 2**28,
             S_MAX - 1, S_MAX, S_MAX + 1, U_MAX - 1, U_MAX]


def _structured_fractions(p: int):
    return sorted({f for f in (0, 1, 5, 127, 128, 129, 896, 983, 128**p - 1, 128 ** (p - 1), 128 ** (p - 1) - 1, 64 * 128 ** (p - 1)) if f < 128**p})


def _p3_sample():
    return sorted(set(range(0, 128**3, 127)) | {m * 128 for m in range(128)} | {m * 128**2 for m in range(128)} | set(range(130)) | {128**3 - 1, 128**2 + 1, 128**2 - 1} | set(_structured_fractions(3)))


def _float_plan(ctx: Ctx, signed: bool):
    """-> (items, covered(i, f, p)); blocks are disjoint by construction"""
    ints = [i for i in INT_PARTS if (i <= S_MAX or not signed)]
    p2_ints = ctx.pick([0, 64, 128, 160], ints)
    p3_ints = ctx.pick([0, 37, 64, 128], [0, 37, 64, 128, 8192, S_MAX])
    p3_sample = set(_p3_sample()) if ctx.quick else None
    items = []
    for i in ints:
        items.append(("all_f", i, 1, 0, 128))
    for i in p2_ints:
        for lo in range(0, 128**2, 4096):
            items.append(("all_f", i, 2, lo, lo + 4096))
    if ctx.quick:
        fl = sorted(p3_sample)
        for i in p3_ints:
            for ch in _chunks(fl, 2000):
                items.append(("list_f", i, 3, ch))
    else:
        for i in p3_ints:
            for lo in range(0, 128**3, 2**14):
                items.append(("all_f", i, 3, lo, lo + 2**14))
    for i in ints:
        if i not in p2_ints:
            items.append(("list_f", i, 2, _structured_fractions(2)))
        if i not in p3_ints:
            items.append(("list_f", i, 3, _structured_fractions(3)))

    def covered(i, f, p):
        if i not in ints:
            return False
        if p == 1:
            return True
        if p == 2:
            return i in p2_ints or f in _structured_fractions(2)
        if i in p3_ints:
            return p3_sample is None or f in p3_sample
        return f in _structured_fractions(3)

    return items, covered


def _float_cls(c, signed):
    return f"p{c['p']}:" + float_class(c["i"], c["f"], c["p"], signed) + (":neg" if c.get("neg") else "")


def _drv_float(ctx: Ctx, sub: SubCheck, signed: bool):
    from hypothesis import strategies as st

    oracle = oracle_sfloat if signed else oracle_ufloat
    items, covered = _float_plan(ctx, signed)

    def expand(item):
        kind, i, p = item[0], item[1], item[2]
        fs = range(item[3], item[4]) if kind == "all_f" else item[3]
        for f in fs:
            # enumerations alternate the sign with the fraction (p = 1, 2: both signs)
            signs = ((False, True) if p <= 2 else ((f & 1) == 1,)) if signed else (False,)
            for neg in signs:
                if neg and i == 0 and f == 0:
                    continue
                c = {"i": i, "f": f, "p": p, "trail": TRAILS[(i + f + p) % len(TRAILS)]}
                if signed:
                    c["neg"] = neg
                yield c, _float_cls(c, signed), f > 0

    _enum(ctx, sub, oracle, items, expand)
    imax = S_MAX if signed else U_MAX

    def mk(t):
        i, p, fs, neg, trail = t
        f = 0
        for s in fs[:p]:
            f = (f << 7) | s
        c = {"i": i, "f": f, "p": p, "trail": trail}
        if signed:
            c["neg"] = bool(neg and (i or f))
        return c

    septet = st.one_of(st.sampled_from([0, 0, 1, 0x40, 0x7F]), st.integers(0, 127))
    strat = st.tuples(st_septet_value(imax), st.integers(1, 3), st.lists(septet, min_size=3, max_size=3), st.booleans(), st.one_of(st.sampled_from(TRAILS), st.binary(max_size=3).map(bytes.hex))).map(mk)

    def hyp(shard, t: Tally):
        ctx.hypothesis(
            sub.name, strat, oracle, ctx.pick(1100, 5500), tally=t, shard=shard,
            record=lambda c, tt: tt.case(sub.name, key=c, nontrivial=(c["f"] > 0 and not covered(c["i"], c["f"], c["p"])), cls="random:" + _float_cls(c, signed)),
        )

    warm_hypothesis_constants()
    ctx.shards(hyp, list(range(ctx.pick(16, 80))))


def drv_ufloat(ctx: Ctx, sub: SubCheck):
    _drv_float(ctx, sub, False)


def drv_sfloat(ctx: Ctx, sub: SubCheck):
    _drv_float(ctx, sub, True)


LAT_MAX, LON_MAX = 90 * 10**6, 360 * 10**6 - 1
EDGE_LAT = [0, 1, 2, 23, 24, 499999, 500000, 12345345, 44999999, 45000000, 45000001, 89999998, 89999999, 90000000]
EDGE_LON = [0, 1, 2, 11, 12, 24668866, 179999999, 180000000, 180000001, 270000000, 359999998, 359999999]


def drv_latlon(ctx: Ctx, sub: SubCheck):
    from hypothesis import strategies as st

    rng = ctx.rng("latlon")
    n = ctx.pick(50000, 3000000)
    sa, so = LAT_MAX // n, LON_MAX // n
    off_a, off_o = rng.randrange(sa), rng.randrange(so)
    per = max(200, n // 64)

    def expand(item):
        if item[0] == "strided":
            for k in range(item[1], item[2]):
                c = {"lat": off_a + k * sa, "lon": off_o + k * so}
                yield c, "strided", True
        else:
            for a in EDGE_LAT:
                for o in EDGE_LON:
                    yield {"lat": a, "lon": o}, ("lat90" if a == LAT_MAX else "edge"), (a > 0 or o > 0)
            # the same number as latitude and as longitude (both writers on one value)
            for a in EDGE_LAT + [12345678, 33333333, 60000000, 77777777]:
                if a not in EDGE_LON:
                    yield {"lat": a, "lon": a}, "same_number_twice", a > 0

    _enum(ctx, sub, oracle_latlon, [("strided", lo, min(n, lo + per)) for lo in range(0, n, per)] + [("edges",)], expand)

    def covered(c):
        return (c["lat"] in EDGE_LAT and c["lon"] in EDGE_LON) or ((c["lat"] - off_a) % sa == 0 and (c["lon"] - off_o) % so == 0 and (c["lat"] - off_a) // sa == (c["lon"] - off_o) // so)

    strat = st.tuples(st.integers(0, LAT_MAX), st.integers(0, LON_MAX)).map(lambda t: {"lat": t[0], "lon": t[1]})

    def hyp(shard, t: Tally):
        ctx.hypothesis(sub.name, strat, oracle_latlon, ctx.pick(600, 4000), tally=t, shard=shard,
                       record=lambda c, tt: tt.case(sub.name, key=c, nontrivial=((c["lat"] > 0 or c["lon"] > 0) and not covered(c)), cls="random"))

    warm_hypothesis_constants()
    ctx.shards(hyp, list(range(ctx.pick(16, 80))))


FORMS = ["datetime", "str", "int"]
D0 = date(2000, 1, 1)
N_DAYS = (date(2099, 12, 31) - D0).days + 1  # 36525
BOUNDARY_DAYS = [(date(*d) - D0).days for d in ((2000, 1, 1), (2000, 2, 29), (2003, 6, 30), (2099, 12, 31), (2048, 8, 16), (2063, 12, 31), (2064, 1, 1))]
BOUNDARY_SECS = [0, 1, 59, 60, 3599, 3600, 7 * 3600 + 30 * 60, 43200, 86399]


def _dt_case(day: int, sec: int, form: str):
    dd = D0 + timedelta(days=day)
    return {"dt": [dd.year, dd.month, dd.day, sec // 3600, sec // 60 % 60, sec % 60], "form": form}


def drv_infotime(ctx: Ctx, sub: SubCheck):
    from hypothesis import strategies as st

    rng = ctx.rng("infotime")
    day_step = ctx.pick(2, 1)
    sec_step = ctx.pick(3, 1)
    triples = []  # (day, sec, form index, class)
    seen = set()

    def add(day, sec, fi, cls):
        if (day, sec, fi) not in seen:
            seen.add((day, sec, fi))
            triples.append((day, sec, fi, cls))

    for k in range(rng.randrange(day_step), N_DAYS, day_step):
        add(k, rng.randrange(86400), k % 3, "every_date")
    for s in range(rng.randrange(sec_step), 86400, sec_step):
        add(rng.randrange(N_DAYS), s, s % 3, "every_second_of_day")
    for day in BOUNDARY_DAYS:
        for sec in BOUNDARY_SECS:
            for fi in range(3):
                add(day, sec, fi, "boundary")

    _enum(ctx, sub, oracle_infotime, _chunks(triples, max(300, len(triples) // 64)),
          lambda ch: ((_dt_case(day, sec, FORMS[fi]), f"{cls}:{FORMS[fi]}", sec != 0) for day, sec, fi, cls in ch))
    if day_step == 1 and sec_step == 1:
        ctx.tally.notes.append("info-time: every calendar date 2000-2099 and every second of a day enumerated (the six fields are encoded independently)")

    strat = st.tuples(st.integers(0, N_DAYS - 1), st.integers(0, 86399), st.sampled_from(FORMS)).map(lambda t: _dt_case(*t))

    def in_enum(c):
        y, mo, d, h, mi, s = c["dt"]
        return ((date(y, mo, d) - D0).days, h * 3600 + mi * 60 + s, FORMS.index(c["form"])) in seen

    def hyp(shard, t: Tally):
        ctx.hypothesis(sub.name, strat, oracle_infotime, ctx.pick(600, 4000), tally=t, shard=shard,
                       record=lambda c, tt: tt.case(sub.name, key=c, nontrivial=(c["dt"][3:] != [0, 0, 0] and not in_enum(c)), cls="random:" + c["form"]))

    warm_hypothesis_constants()
    ctx.shards(hyp, list(range(ctx.pick(16, 80))))


# ---------------------------------------------------------------------------------------------- mode flags (history)
#
# MBXML has one public mode switch: the class attribute MBXML.DEBUG, also set by MBXML.from_bytes(data, debug=True) for the
# duration of a parse - and left on when such a parse raises (the library resets it on the success path only).  Diagnostics
# must not change results: every reader / writer clause of this property is evaluated again
#   debug_flag_set                with MBXML.DEBUG = True
#   after_failed_debug_parse      after MBXML.from_bytes(<malformed>, debug=True) raised
#   after_successful_debug_parse  after MBXML.from_bytes(<valid>, debug=True) returned
#   inside_debug_parse            (latlon / infotime) the carrier document is parsed with debug=True
# stdout is silenced by the harness.  The flag is restored to its default in a finally block, so cases stay independent.

MODES = ["debug_flag_set", "after_failed_debug_parse", "after_successful_debug_parse"]
XML_MODES = ["inside_debug_parse", "after_failed_debug_parse", "debug_flag_set"]
MALFORMED = ["0705", "07022204", "0d0370", "0d046c0581", "ff", "0d0a6900000000000000000381", "07"]
WELLFORMED = ["0d1a22047fffffff69486109950ad0ecd28338156c000856a270400a", "071A22042468ACE0341F4DBC778051118ECD8D118AD47B00636C0006", "0F0622042468ACE0"]


def _base_oracles():
    return {"uintvar": oracle_uintvar, "sintvar": oracle_sintvar, "ufloatvar": oracle_ufloat, "sfloatvar": oracle_sfloat, "latlon": oracle_latlon, "infotime": oracle_infotime}


def oracle_mode_flags(case):
    """case = {sub, mode, k, case}: the clauses of sub-check `sub` on `case`, evaluated in the given mode (k selects the
    malformed / well-formed document used to get there)"""
    global _PARSE_DEBUG
    M = MB()
    base = _base_oracles()[case["sub"]]
    mode, k = case["mode"], case.get("k", 0)
    default = False
    try:
        M.DEBUG = default
        if mode == "debug_flag_set":
            M.DEBUG = True
        elif mode == "after_failed_debug_parse":
            call(M.from_bytes, bytes.fromhex(MALFORMED[k % len(MALFORMED)]), True, allowed=(Exception,))
        elif mode == "after_successful_debug_parse":
            call(M.from_bytes, bytes.fromhex(WELLFORMED[k % len(WELLFORMED)]), True, allowed=(Exception,))
        elif mode == "inside_debug_parse":
            _PARSE_DEBUG = True
        else:
            raise ValueError(mode)
        try:
            base(case["case"])
        except Fail as f:
            raise Fail(f.clause + "__with_mode_flag", f.observed, f.expected, klass=mode + (":" + f.klass if f.klass else ""))
    finally:
        _PARSE_DEBUG = False
        M.DEBUG = default


def _mode_cases(ctx: Ctx):
    """deterministic part: boundary / strided cases of every sub-check x modes"""
    out = []
    k = 0

    def add(sub, case, modes, all_modes: bool):
        nonlocal k
        for m in (modes if all_modes else [modes[k % len(modes)]]):
            k += 1
            out.append({"sub": sub, "mode": m, "k": k, "case": case})

    rng = ctx.rng("mode-specials")
    sp = unsigned_specials(rng, 5)
    for v in sp:
        lead, trail = _lt(v)
        add("uintvar", {"v": v, "lead": lead, "trail": trail}, MODES, True)
        if v <= S_MAX:
            for sgn in (1, -1):
                add("sintvar", {"v": sgn * v, "lead": lead, "trail": trail}, MODES, True)
    for v in range(0, 2**18, ctx.pick(37, 5)):
        lead, trail = _lt(v)
        add("uintvar", {"v": v, "lead": lead, "trail": trail}, MODES, False)
        add("sintvar", {"v": v - 2**17, "lead": lead, "trail": trail}, MODES, False)
    for signed in (False, True):
        sub = "sfloatvar" if signed else "ufloatvar"
        for i in INT_PARTS:
            if signed and i > S_MAX:
                continue
            for p in (1, 2, 3):
                fr = range(128) if p == 1 else _structured_fractions(p)
                for f in fr:
                    for neg in ((False, True) if signed else (False,)):
                        if neg and i == 0 and f == 0:
                            continue
                        c = {"i": i, "f": f, "p": p, "trail": TRAILS[(i + f + p) % len(TRAILS)]}
                        if signed:
                            c["neg"] = neg
                        add(sub, c, MODES, p >= 2)
        for i in (0, 160):
            for f in range(0, 128**2, ctx.pick(3, 1)):
                c = {"i": i, "f": f, "p": 2, "trail": TRAILS[f % len(TRAILS)]}
                if signed:
                    c["neg"] = bool(f & 1)
                add(sub, c, MODES, False)
            for f in range(0, 128**3, ctx.pick(1021, 61)):
                c = {"i": i, "f": f, "p": 3, "trail": TRAILS[f % len(TRAILS)]}
                if signed:
                    c["neg"] = bool(f & 1)
                add(sub, c, MODES, False)
    n = ctx.pick(1500, 20000)
    for j in range(n):
        add("latlon", {"lat": (j * (LAT_MAX // n) + 7 * j) % (LAT_MAX + 1), "lon": (j * (LON_MAX // n) + 11 * j) % (LON_MAX + 1)}, XML_MODES, False)
    for a in EDGE_LAT:
        add("latlon", {"lat": a, "lon": EDGE_LON[a % len(EDGE_LON)]}, XML_MODES, True)
    for j in range(n):
        add("infotime", _dt_case((j * 7919) % N_DAYS, (j * 104729) % 86400, FORMS[j % 3]), XML_MODES, False)
    for day in BOUNDARY_DAYS:
        for sec in BOUNDARY_SECS:
            add("infotime", _dt_case(day, sec, FORMS[(day + sec) % 3]), XML_MODES, True)
    return out


def _mode_strategy():
    from hypothesis import strategies as st

    trail = st.one_of(st.sampled_from(TRAILS), st.binary(max_size=4).map(bytes.hex))
    septet = st.one_of(st.sampled_from([0, 0, 1, 0x40, 0x7F]), st.integers(0, 127))
    uint = st.tuples(st_septet_value(U_MAX), st.sampled_from(LEADS), trail).map(lambda t: ("uintvar", {"v": t[0], "lead": t[1], "trail": t[2]}))
    sint = st.tuples(st_septet_value(S_MAX), st.booleans(), st.sampled_from(LEADS), trail).map(lambda t: ("sintvar", {"v": -t[0] if t[1] else t[0], "lead": t[2], "trail": t[3]}))

    def mkf(signed):
        def f(t):
            i, p, fs, neg, tr = t
            fr = 0
            for s_ in fs[:p]:
                fr = (fr << 7) | s_
            c = {"i": i, "f": fr, "p": p, "trail": tr}
            if signed:
                c["neg"] = bool(neg and (i or fr))
            return ("sfloatvar" if signed else "ufloatvar", c)

        return f

    ufl = st.tuples(st_septet_value(U_MAX), st.sampled_from([1, 2, 2, 3, 3]), st.lists(septet, min_size=3, max_size=3), st.booleans(), trail).map(mkf(False))
    sfl = st.tuples(st_septet_value(S_MAX), st.sampled_from([1, 2, 2, 3, 3]), st.lists(septet, min_size=3, max_size=3), st.booleans(), trail).map(mkf(True))
    ll = st.tuples(st.integers(0, LAT_MAX), st.integers(0, LON_MAX)).map(lambda t: ("latlon", {"lat": t[0], "lon": t[1]}))
    it = st.tuples(st.integers(0, N_DAYS - 1), st.integers(0, 86399), st.sampled_from(FORMS)).map(lambda t: ("infotime", _dt_case(*t)))
    plain = st.tuples(st.one_of(uint, sint, ufl, ufl, sfl, sfl), st.sampled_from(MODES), st.integers(0, 20))
    xml = st.tuples(st.one_of(ll, it), st.sampled_from(XML_MODES), st.integers(0, 20))
    return st.one_of(plain, plain, plain, xml).map(lambda t: {"sub": t[0][0], "mode": t[1], "k": t[2], "case": t[0][1]})


def drv_mode_flags(ctx: Ctx, sub: SubCheck):
    cases = _mode_cases(ctx)

    def nt(c):
        b = c["case"]
        return b.get("f", 0) > 0 or abs(b.get("v", 0)) >= 128 or c["sub"] in ("latlon", "infotime")

    def work(ch, t: Tally):
        for c in ch:
            ctx.run_case(sub.name, oracle_mode_flags, c, t)
            t.case(sub.name, nontrivial=nt(c), cls=f"{c['mode']}:{c['sub']}" + (f":p{c['case']['p']}" if "p" in c["case"] else ""))
        if ch:
            t.sample(sub.name, ch[len(ch) // 2])

    ctx.shards(work, [cases[i::64] for i in range(64)])
    ctx.tally.extra["mode_flag_deterministic_cases"] = len(cases)
    strat = _mode_strategy()

    def hyp(shard, t: Tally):
        ctx.hypothesis(sub.name, strat, oracle_mode_flags, ctx.pick(500, 3000), tally=t, shard=shard,
                       record=lambda c, tt: tt.case(sub.name, key=c, nontrivial=nt(c), cls=f"random:{c['mode']}:{c['sub']}"))

    warm_hypothesis_constants()
    ctx.shards(hyp, list(range(ctx.pick(16, 80))))


# ---------------------------------------------------------------------------------------------- siblings (round 7)
#
# The sub-checks above judge one entry point on one value at a time, so a worker process that sweeps write_uintvar never
# calls write_sintvar on the same magnitude and vice versa.  State shared by sibling entry points - a memo of the septet
# list keyed on the magnitude that the signed writer edits in place, a fraction memo keyed without the precision, a
# coordinate memo shared by the latitude and the longitude writer, a register a rightly refused call leaves dirty - only
# shows when the SAME value went through the sibling first.  Two mechanisms:
#   prelude_for   (stimulus for the framework's "judge again after a prelude"): the case's own value, its negation, its
#                 integer part and its magnitude through every sibling writer / reader, through MBXML.as_bytes /
#                 from_bytes as token values, and through rightly refused variants of the same calls;
#   histories     (sub-check) sequences of judged steps (the clauses of the sub-checks above) and stimulus steps on shared
#                 magnitudes, every ordered pair of kinds of step on every boundary magnitude; judged in a process of its
#                 own (vp/isolate.py), so a failing history is self-contained.


def _arg(x):
    if isinstance(x, dict) and "hex" in x:
        return bytes.fromhex(x["hex"])
    if isinstance(x, dict) and "dt" in x:
        return datetime(*x["dt"])
    return x


_SIBLING_FNS = ("write_uintvar", "write_sintvar", "write_ufloatvar", "write_sfloatvar", "write_fraction", "read_uintvar", "read_sintvar", "read_ufloatvar", "read_sfloatvar",
                "read_uint8", "read_opaque", "read_opaque_defined_size", "write_latitude", "write_longitude", "write_infotime")


def _op_call(a):
    """{fn: name of an MBXML reader / writer, args: [...]} - bytes as {hex}, date-times as {dt: [Y, M, D, h, m, s]}"""
    if a["fn"] in _SIBLING_FNS:
        getattr(MB(), a["fn"])(*[_arg(x) for x in a["args"]])


def _op_doc(a):
    """{hex, debug?}: parse a buffer, serialise and render every document"""
    M = MB()
    try:
        for d in M.from_bytes(bytes.fromhex(a["hex"]), bool(a.get("debug", False))):
            M.as_bytes(d)
            d.as_xml()
            repr(d)
    finally:
        M.DEBUG = False


PRELUDE_OPS = {"call": _op_call, "doc": _op_doc}


def _C(fn, *args):
    return {"x": "call", "a": {"fn": fn, "args": [({"hex": x.hex()} if isinstance(x, (bytes, bytearray)) else x) for x in args]}}


def _doc_with(tokens: bytes, doc_id: int = REPORT_DOC_ID, debug: bool = False):
    return {"x": "doc", "a": {"hex": (bytes([doc_id]) + R.uintvar(len(tokens)) + tokens).hex(), "debug": debug}}


def int_sibling_calls(m: int, f: int = 64, p: int = 1):
    """(valid sibling calls, rightly refused / damaged variants) for the magnitude m: every writer and reader of MBXML on
    +-m, on m as integer part of a float, and on documents that carry m as a token value"""
    ok, refused = [], []
    frac = f / 128**p
    if 0 <= m <= U_MAX:
        ok += [_C("write_uintvar", m), _C("write_ufloatvar", float(m) + frac, p), _C("write_ufloatvar", float(m), 1), _C("read_uintvar", R.uintvar(m), 0),
               _C("read_sintvar", R.uintvar(m), 0), _C("read_ufloatvar", R.ufloat_bytes(m, f, p), 0), _C("read_sfloatvar", R.ufloat_bytes(m, f, p), 0),
               _doc_with(bytes([0x36]) + R.uintvar(m)), _doc_with(bytes([0x6C]) + R.ufloat_bytes(m, f % 128, 1)), _doc_with(bytes([0x31]) + R.uintvar(m), 0x05)]
        if m <= 300:
            ok.append(_doc_with(bytes([0x22]) + R.uintvar(m) + bytes(m), 0x0B))
        if m <= 255:
            ok.append(_doc_with(bytes([0x56, m])))
    if 0 <= m <= S_MAX:
        for neg in (False, True):
            v = -m if neg else m
            ok += [_C("write_sintvar", v), _C("read_sintvar", R.sintvar(v), 0), _C("read_uintvar", R.sintvar(v), 0)]
            if m or f:
                x = R.float_value(m, f, p, neg)
                ok += [_C("write_sfloatvar", x, p), _C("read_sfloatvar", R.sfloat_bytes(m, f, p, neg), 0), _doc_with(bytes([0x70]) + R.sfloat_bytes(m, f % 128, 1, neg)),
                       _doc_with(bytes([0x69]) + bytes(8) + R.sfloat_bytes(m, f % 128, 1, neg))]
        ok.append(_C("write_sintvar", 0, m % 2 == 1))  # the negative-zero form of the signed writer
    ok += [_C("write_fraction", f, p), _C("write_fraction", f, p % 3 + 1), _C("write_fraction", (f * 128) % 128**3, 3), _C("write_fraction", m % 128, 1)]
    refused += [_C("write_uintvar", -m - 1), _C("write_uintvar", m + 2**32), _C("write_sintvar", m + 2**31), _C("write_sintvar", -(m + 2**31)), _C("write_ufloatvar", float(m) + frac, 0),
                _C("write_sfloatvar", float(m) + frac, 0), _C("write_ufloatvar", -float(m) - 0.5, 1), _C("write_uintvar", None), _C("write_sintvar", "1"),
                _C("read_uintvar", (R.uintvar(m % (U_MAX + 1))[:-1] or b"") + b"\x80", 0), _C("read_sintvar", b"\xc0", 0), _C("read_ufloatvar", R.uintvar(m % (U_MAX + 1)), 0),
                _C("read_uintvar", R.uintvar(m % (U_MAX + 1)), 7), _doc_with(bytes([0x36]) + R.uintvar(m % (U_MAX + 1))[:-1] + b"\x80"), _doc_with(bytes([0x36]) + R.uintvar(m % (U_MAX + 1)), 0x0B, True),
                _doc_with(bytes([0x70]) + b"\xc0", debug=True)]
    return ok, refused


def _lat4(micro: int) -> bytes:
    return (min(2**31 - 1, micro * 2**31 // (90 * 10**6)) & 0xFFFFFFFF).to_bytes(4, "big")


def _lon4(micro: int) -> bytes:
    return ((micro * 2**32 // (360 * 10**6)) & 0xFFFFFFFF).to_bytes(4, "big")


def latlon_sibling_calls(lat: int, lon: int):
    a, o = lat / 10**6, lon / 10**6
    ok = [_C("write_longitude", a), _C("write_latitude", a), _C("write_longitude", o), _C("write_latitude", (lon % (LAT_MAX + 1)) / 10**6), _C("write_latitude", 90.0), _C("write_longitude", 0.0),
          _C("write_latitude", round(90.0 - a, 6)), _C("write_longitude", round((o + 180.0) % 360.0, 6)),
          _doc_with(bytes([POINT_2D]) + _lon4(lon)[:4] + _lat4(lat)), _doc_with(bytes([POINT_2D]) + _lat4(lat) + _lon4(lon), debug=True),
          _doc_with(bytes([0x51]) + _lat4(lat) + _lon4(lon) + b"\x05\x00"), _doc_with(bytes([0x69]) + _lat4(lat) + _lon4(lon) + b"\x45\x40")]
    refused = [_C("write_latitude", -a - 0.000001), _C("write_longitude", -o - 0.000001), _C("write_latitude", 180.0 + a), _C("write_longitude", 360.0 + o), _C("write_latitude", None),
               _C("write_longitude", "1.0"), _C("write_latitude", float("nan")), _doc_with(bytes([POINT_2D]) + _lat4(lat) + _lon4(lon)[:3])]
    return ok, refused


def _time5(dt) -> bytes:
    y, mo, d, h, mi, s_ = dt
    return (y * 2**26 + mo * 2**22 + d * 2**17 + h * 2**12 + mi * 2**6 + s_).to_bytes(5, "big")


def infotime_sibling_calls(dt, form):
    y, mo, d, h, mi, s_ = dt
    text = "%04d%02d%02d%02d%02d%02d" % tuple(dt)
    ok = [_C("write_infotime", {"dt": list(dt)}), _C("write_infotime", text), _C("write_infotime", int(text)), _C("write_infotime", "%04d%02d%02d%02d%02d%02d" % (y, mo, d, s_ % 24, mi, h)),
          _C("write_infotime", {"dt": [2000 + (y + 1) % 100, mo, min(d, 28), h, mi, s_]}), _doc_with(bytes([INFO_TIME]) + _time5(dt)), _doc_with(bytes([0x35]) + _time5(dt), debug=True)]
    refused = [_C("write_infotime", text[:13]), _C("write_infotime", text + "0"), _C("write_infotime", "%04d%02d%02d%02d%02d%02d" % (y, 13, d, h, mi, s_)), _C("write_infotime", "%04d0230%02d%02d%02d" % (y, h, mi, s_)),
               _C("write_infotime", int(text[2:])), _C("write_infotime", None), _C("write_infotime", float(int(text))), _C("write_infotime", text.encode().hex()),
               _doc_with(bytes([INFO_TIME]) + _time5(dt)[:4])]
    return ok, refused


def _sibling_calls(sub, case):
    """(valid, refused) sibling calls derived from a case of sub-check `sub`"""
    if sub == "mode_flags":
        return _sibling_calls(case["sub"], case["case"])
    if sub in ("uintvar", "sintvar"):
        m = abs(case["v"])
        ok, refused = int_sibling_calls(m, f=(m * 37 + 5) % 128**2 or 1, p=2)
        for rel in (m ^ 0x40, m >> 7, (m << 7) & U_MAX, m ^ (0x40 << (7 * (R.n_uint_septets(m) - 1)))):
            if rel != m:
                o2, _ = int_sibling_calls(rel, f=1, p=1)
                ok += o2[:6] + o2[-8:-4]
        return ok, refused
    if sub in ("ufloatvar", "sfloatvar"):
        i, f, p = case["i"], case["f"], case["p"]
        ok, refused = int_sibling_calls(i, f, p)
        for p2 in (1, 2, 3):
            if p2 != p:
                f2 = f * 128 ** (p2 - p) if p2 > p else f // 128 ** (p - p2)
                o2, _ = int_sibling_calls(i, f2, p2)
                ok += [c for c in o2 if c["x"] == "call" and ("float" in c["a"]["fn"] or "fraction" in c["a"]["fn"])]
        return ok, refused
    if sub == "latlon":
        return latlon_sibling_calls(case["lat"], case["lon"])
    if sub == "infotime":
        return infotime_sibling_calls(case["dt"], case["form"])
    return [], []


def prelude_for(sub, case, rng):
    if sub == "histories":
        return []
    ok, refused = _sibling_calls(sub, case)
    calls = rng.sample(ok, min(len(ok), 9)) + rng.sample(refused, min(len(refused), 3))
    rng.shuffle(calls)
    return calls


# ---- histories


def _oracle_histories(case):
    """case = {steps: [{sub, case} (judged by the clauses of that sub-check) | {x, a} (stimulus: PRELUDE_OPS), ...]}"""
    base = _base_oracles()
    steps = case["steps"]
    for n, st_ in enumerate(steps):
        if "x" in st_:
            try:
                PRELUDE_OPS[st_["x"]](st_["a"])
            except Exception:
                pass  # stimulus only: rightly refused calls raise, whatever a valid sibling call returns is not judged here
            continue
        try:
            base[st_["sub"]](st_["case"])
        except Fail as f:
            raise Fail(f.clause + "__in_history", {"step": n, "of": len(steps), "judged": st_, "observed": f.observed}, f.expected, klass=st_["sub"] + (":" + f.klass if f.klass else ""))


from vp.isolate import isolated  # noqa: E402

oracle_histories = isolated(_oracle_histories, warm=MB)


def _J(sub, **case):
    return {"sub": sub, "case": case}


def judged_steps(m: int, f: int, p: int):
    """the judged kinds of step on magnitude m: unsigned, +m, -m, m as integer part of an unsigned / positive / negative float"""
    lead, trail = _lt(m)
    out = []
    if m <= U_MAX:
        out += [_J("uintvar", v=m, lead=lead, trail=trail), _J("ufloatvar", i=m, f=f, p=p, trail=trail)]
    if m <= S_MAX:
        out += [_J("sintvar", v=m, lead=lead, trail=trail), _J("sfloatvar", i=m, f=f, p=p, neg=False, trail=trail)]
        if m:
            out.append(_J("sintvar", v=-m, lead=lead, trail=trail))
        if m or f:
            out.append(_J("sfloatvar", i=m, f=f, p=p, neg=True, trail=trail))
    return out


def _rot(lst, k):
    k %= max(1, len(lst))
    return lst[k:] + lst[:k]


def history_magnitudes(rng):
    """boundary magnitudes of every class: one septet (all), first septet with / without bit 6 for 2..5 septets, low septets
    zero, the limits, random members of every class"""
    ms = set(range(0, 131)) | {U_MAX, U_MAX - 1, S_MAX, S_MAX - 1, S_MAX + 1}
    for n in range(2, 6):
        lo = 128 ** (n - 1)
        for first in (1, 0x3F, 0x40, 0x41, 0x7F):
            base = first * lo
            ms |= {base, base + 1, base + lo - 1, base + 64 * (lo // 128) if n > 1 else base}
            for _ in range(3):
                ms.add(base + rng.randrange(lo))
    for b in (13, 14, 20, 21, 27, 28, 31):
        ms |= {2**b - 1, 2**b, 2**b + 1}
    return sorted(m for m in ms if 0 <= m <= U_MAX)


def history_deterministic_cases(ctx: Ctx):
    rng = ctx.rng("history-magnitudes")
    out = []
    mags = history_magnitudes(rng)
    for k, m in enumerate(mags):
        p = 1 + k % 3
        f = [1, 64, 127, 128, 129, 16383, 5][k % 7] % 128**p
        _, refused = int_sibling_calls(m, f, p)
        kinds = judged_steps(m, f, p) + [refused[(k + j * 5) % len(refused)] for j in range(3)]
        # the same fraction NUMBER under another precision (f/128^p2: a different value with the same septets' worth of key)
        p2 = p % 3 + 1
        if 0 < f < 128**p2:
            kinds += [st_ for st_ in judged_steps(m, f, p2) if st_["sub"] in (("ufloatvar",) if k % 2 else ("sfloatvar",))][:2]
        # every ordered pair (a before b, also a before a) of the kinds of step on this magnitude: the list followed by itself
        out.append(({"steps": _rot(kinds, k) + _rot(kinds, k)}, "all_ordered_pairs_on_one_magnitude"))
    # related magnitudes: bit 6 of the first septet toggled, one septet more / less, neighbours
    for k, m in enumerate(mags[::3]):
        n = R.n_uint_septets(m)
        for j, rel in enumerate((m ^ (0x40 << (7 * (n - 1))), (m << 7) & U_MAX, m >> 7, m + 1)):
            if rel != m and 0 <= rel <= U_MAX and (k + j) % 2 == 0:
                a, b = judged_steps(m, 1, 1), judged_steps(rel, 1, 1)
                out.append(({"steps": _rot(a, k) + _rot(b, j) + _rot(a, k + 1)}, "related_magnitudes"))
    # coordinates: the same number through both writers, both orders; date-times: the same instant in the three forms
    for k, a in enumerate(EDGE_LAT + [12345678, 33333333, 77777777, 60000000]):
        b = EDGE_LON[k % len(EDGE_LON)]
        ok, refused = latlon_sibling_calls(a, b)
        steps = [_J("latlon", lat=a, lon=b), _J("latlon", lat=a, lon=a), refused[k % len(refused)], ok[k % len(ok)]]
        if b <= LAT_MAX:
            steps.append(_J("latlon", lat=b, lon=a))
        steps += [_J("latlon", lat=(a + 45 * 10**6) % (LAT_MAX + 1), lon=(a + 180 * 10**6) % (LON_MAX + 1)), _J("latlon", lat=a, lon=b)]
        out.append(({"steps": _rot(steps, k) + steps}, "coordinates_through_both_writers"))
    for k, day in enumerate(BOUNDARY_DAYS + [(k * 7919) % N_DAYS for k in range(1, 20)]):
        sec = BOUNDARY_SECS[k % len(BOUNDARY_SECS)] if k < 12 else (k * 104729) % 86400
        c = _dt_case(day, sec, "str")
        ok, refused = infotime_sibling_calls(c["dt"], "str")
        forms = [_J("infotime", dt=c["dt"], form=fm) for fm in _rot(FORMS, k)]
        other = _dt_case((day + 1) % N_DAYS, (sec + 3600) % 86400, FORMS[k % 3])
        steps = forms + [refused[k % len(refused)], _J("infotime", **other), ok[k % len(ok)]] + _rot(forms, 1)
        out.append(({"steps": steps}, "one_instant_in_three_forms"))
    return out


def _history_strategy():
    from hypothesis import strategies as st

    septet = st.one_of(st.sampled_from([0, 0, 1, 0x40, 0x7F]), st.integers(0, 127))

    @st.composite
    def history(draw):
        pool = [draw(st_septet_value(U_MAX))]
        for _ in range(draw(st.integers(0, 2))):
            m = pool[draw(st.integers(0, len(pool) - 1))]
            n = R.n_uint_septets(m)
            rel = draw(st.sampled_from(["toggle_bit6", "shift_up", "shift_down", "plus_1", "fresh", "low_half"]))
            v = {"toggle_bit6": m ^ (0x40 << (7 * (n - 1))), "shift_up": (m << 7) & U_MAX, "shift_down": m >> 7, "plus_1": min(U_MAX, m + 1), "low_half": m & S_MAX}.get(rel)
            pool.append(draw(st_septet_value(U_MAX)) if v is None else v if 0 <= v <= U_MAX else v & S_MAX)
        steps = []
        for _ in range(draw(st.integers(2, 12))):
            m = pool[draw(st.integers(0, len(pool) - 1))]
            p = draw(st.integers(1, 3))
            fs = draw(st.lists(septet, min_size=3, max_size=3))
            f = 0
            for s_ in fs[:p]:
                f = (f << 7) | s_
            if draw(st.integers(0, 4)) == 0:
                ok, refused = int_sibling_calls(m, f, p)
                lst = refused if draw(st.booleans()) else ok
                steps.append(lst[draw(st.integers(0, len(lst) - 1))])
            else:
                ks = judged_steps(m, f, p)
                steps.append(ks[draw(st.integers(0, len(ks) - 1))])
        return {"steps": steps}

    @st.composite
    def geo_time(draw):
        steps = []
        lat, lon = draw(st.integers(0, LAT_MAX)), draw(st.integers(0, LON_MAX))
        day, sec = draw(st.integers(0, N_DAYS - 1)), draw(st.integers(0, 86399))
        for _ in range(draw(st.integers(2, 8))):
            k = draw(st.integers(0, 7))
            if k == 0:
                steps.append(_J("latlon", lat=lat, lon=lon))
            elif k == 1:
                steps.append(_J("latlon", lat=lon % (LAT_MAX + 1), lon=lat))
            elif k == 2:
                steps.append(_J("latlon", lat=lat, lon=lat))
            elif k in (3, 4):
                steps.append(_J("infotime", **_dt_case(day, sec, draw(st.sampled_from(FORMS)))))
            elif k == 5:
                steps.append(_J("infotime", **_dt_case((day + draw(st.integers(0, 1))) % N_DAYS, (sec + draw(st.sampled_from([0, 1, 60, 3600]))) % 86400, draw(st.sampled_from(FORMS)))))
            else:
                ok, refused = latlon_sibling_calls(lat, lon) if k == 6 else infotime_sibling_calls(_dt_case(day, sec, "str")["dt"], "str")
                lst = refused if draw(st.booleans()) else ok
                steps.append(lst[draw(st.integers(0, len(lst) - 1))])
        return {"steps": steps}

    return st.one_of(history(), history(), history(), geo_time())


def _history_classes(c):
    subs = [s_["sub"] for s_ in c["steps"] if "sub" in s_]
    out = [f"steps_{min(len(c['steps']) // 4 * 4, 20)}+", "kinds_" + str(len(set(subs)))]
    if any("x" in s_ for s_ in c["steps"]):
        out.append("with_stimulus_steps")
    seen_signed, hit = set(), False
    for s_ in c["steps"]:
        if "sub" not in s_:
            continue
        cc = s_["case"]
        if s_["sub"] in ("sintvar", "sfloatvar"):
            seen_signed.add(abs(cc["v"]) if "v" in cc else cc["i"])
        elif s_["sub"] in ("uintvar", "ufloatvar") and (cc["v"] if "v" in cc else cc["i"]) in seen_signed:
            hit = True
    if hit:
        out.append("unsigned_after_signed_on_same_magnitude")
    return out


def _drv_histories(ctx: Ctx, sub: SubCheck):
    cases = history_deterministic_cases(ctx)

    def work(ch, t: Tally):
        for c, cls in ch:
            ctx.run_case(sub.name, oracle_histories, c, t)
            t.case(sub.name, nontrivial=True, cls="deterministic:" + cls)
            for k in _history_classes(c):
                t.cls(sub.name, k)
        if ch:
            t.sample(sub.name, ch[0][0])

    ctx.shards(work, [cases[i::32] for i in range(32)])
    ctx.tally.extra["history_deterministic_cases"] = len(cases)
    strat = _history_strategy()

    def rec(c, t: Tally):
        t.case(sub.name, key=c, nontrivial=len([s_ for s_ in c["steps"] if "sub" in s_]) >= 2)
        for k in _history_classes(c):
            t.cls(sub.name, "random:" + k)

    warm_hypothesis_constants()
    ctx.shards(lambda i, t: ctx.hypothesis(sub.name, strat, oracle_histories, ctx.pick(100, 1000), tally=t, shard=i, record=rec), list(range(ctx.pick(16, 48))))

NO_PRELUDE = False  # read by vp.core (Ctx.prelude_enabled) at every case


def drv_histories(ctx: Ctx, sub: SubCheck):
    """The cases of this sub-check are judged by a judge server (vp/isolate.py) that the framework's preludes - which run in the
    calling process - cannot reach: judging a case "again after a prelude" would only repeat the first judgement.  The cases
    carry their own stimulus steps instead, so preludes are switched off while this sub-check runs."""
    global NO_PRELUDE
    NO_PRELUDE = True
    try:
        _drv_histories(ctx, sub)
    finally:
        NO_PRELUDE = False

SUBCHECKS = [
    SubCheck("uintvar", oracle_uintvar, drv_uintvar, "write_uintvar == canonical shortest; read_uintvar returns the value and consumes exactly the encoding"),
    SubCheck("sintvar", oracle_sintvar, drv_sintvar, "write_sintvar == canonical (sign in bit 6 of first septet); read_sintvar inverse"),
    SubCheck("ufloatvar", oracle_ufloat, drv_ufloat, "read_ufloatvar(write_ufloatvar(i + f/128^p, p)) exact, consumes what was written; reader on reference encoding"),
    SubCheck("sfloatvar", oracle_sfloat, drv_sfloat, "same for signed floats, incl. negative fractions with zero integer part"),
    SubCheck("latlon", oracle_latlon, drv_latlon, "write_latitude/longitude -> point-2d token -> from_bytes -> as_xml gives back the 6-decimal input"),
    SubCheck("infotime", oracle_infotime, drv_infotime, "write_infotime (datetime/str/int) -> info-time token -> as_xml gives back the 14-digit input"),
    SubCheck("mode_flags", oracle_mode_flags, drv_mode_flags, "all of the above again with MBXML.DEBUG on, after a failed / successful from_bytes(debug=True), and inside a debug parse"),
    SubCheck("histories", oracle_histories, drv_histories, "sequences of the clauses above and of sibling / refused calls on shared magnitudes (signed then unsigned writer, both float writers, both coordinate writers, three date forms), each history in a process of its own"),
]


# ---------------------------------------------------------------------------------------------- known-finding predicates
# (only used if the maintainer records a C14 defect as an open finding instead of applying the fix)

PREDICATES = {
    "uint_low_septet_zero": lambda case, fail: "low_septet_zero" in fail.klass,
    "sint_bit6_collision": lambda case, fail: "bit6_of_leading_septet" in fail.klass,
    "float_fraction_leading_zero_septet": lambda case, fail: "fraction_leading_zero_septet" in fail.klass,
}
