"""C16 — Motorola TMS and ARS messages keep length framing and fields over a round trip.

For every message built from fields:  (1) the leading 16-bit length equals the number of bytes that follow;  (2)
X.from_bytes(bytes) has the fields the message was built from (normalisation: None == "" == absent header;
TMSEncoding.UNDEFINED == None; the forced 'reserved' bit of text messages is not compared);  (3) the parsed object
serialises again to the same bytes;  (4) the bytes, decoded by the independent reference decoder of vp/refs/moto_ref.py
(frame layout written from the module doc-strings and the captured messages: 5+2-bit sequence-number split, address /
length-value fields, second headers, CSBK trailer), carry the built fields.  (4) accepts every valid encoding of the same
fields (it does not compare byte-for-byte), so it cannot object to an encoder that, say, always emits the second
sequence-number header.
"""
from __future__ import annotations

from vp.core import Ctx, Fail, SubCheck, Tally, call
from props.c14 import warm_hypothesis_constants
from vp.refs import moto_ref as MR

LEVEL = "exploration"
RULE = (
    "TMS: Hypothesis-generated service availability (with/without capability header, 4 capabilities), acknowledgement "
    "(sequence number absent or 0..127, boundary-biased 0/31/32/63/64/95/96/127) and simple text (address 0..255 arbitrary "
    "octets incl. 0/127/128/255, sequence 0..127, encoding None/UNDEFINED/UCS2-LE, text 0..200 UTF-16 code units incl. "
    "surrogate pairs) with every combination of the acknowledgement / reserved flags and of the has_more_headers value the "
    "builder passes in; plus the complete grid pdu x flags x sequence number (enumeration).  ARS: device / user registration "
    "(optional event+encoding header with the 3 events; device id, user id, password None/''/text of 0..255 UTF-8 bytes incl. "
    "127/128/255), status query, de-registration, response without second header / success with refresh 1..127 / failure "
    "with each of the 4 reasons, all with every combination of acknowledgement / priority / control flags where the flag is "
    "free, CSBK trailer on/off.  Every run also executes a DETERMINISTIC boundary pass: TMS address lengths {0,1,127,128,129,"
    "255} x text lengths {0,1,63,64,65,100,127,128,129,199,200 code units} (patterned and 10/80-filled), address lengths x "
    "every optional-header variant x all flag combinations, address / text contents equal to / starting with / ending with "
    "each octet that means something in the formats (00 04 10 1F 31 3F 74 7F 80 9F BF D0 E0 F0 F5 FF, and 10 80), every "
    "sequence number x address lengths {0,1,127,128,255}; ARS complete cross of the three length-value fields at lengths "
    "{0,1,127,128,129,255} in six content styles (ASCII, ending with 10 so that a following 128-byte field gives 10 80 across "
    "the boundary, all 10, ending with 80 (U+0080), starting C2 80 / ending 00, 3- and 4-octet characters), all 16 flag "
    "combinations x device lengths (first header 10 followed by length 80), special texts (00 10 1F 7F U+0080 U+00FF "
    "U+FFFF U+10FFFF ...) alone / as prefix / as suffix in each field position, None / '' in all combinations; every "
    "character codecs treat specially (U+FEFF, U+FFFE, U+FFFD, NUL, blank, tab, CR, LF, CRLF, NBSP, U+2028, U+8010 / U+1080 "
    "(UTF-16 image 10 80 / 80 10), U+8000, U+0010, U+FFFF, non-BMP, the mis-decoded BOM) alone / at the start / in the middle "
    "/ at the end / doubled / as a run filling the field, in every ARS text field and in the TMS text, and mixed into the "
    "random texts; refresh "
    "times 1..127 and all failure reasons x trailer x flags are complete in the grid.  Distinct by case hash; non-trivial: TMS sequence >= 32 or address >= 128 octets or an "
    "optional header present; ARS optional/second header present or an identifier >= 128 bytes or CSBK trailer.  retained: batches "
    "of 2..4 messages - a message and NEAR TWINS of it (exactly one field different: one flag, the trailer, one identifier "
    "absent / empty / one character more or less, event, the second header replaced by one that collides with it in the low "
    "seven bits across the success / failure flag or in bit 6, sequence number with the same five low bits / +-1 / absent, "
    "encoding, address or text one octet different, the other PDU type) - are built and serialised, the images are parsed in a "
    "given order WITHOUT serialising in between, then every kept parsed object is inspected and serialised again (and the built "
    "ones), with repr() calls and damaged images of the same messages in between; deterministic: every ordered pair of 13 "
    "second headers x trailer combinations, every refresh time 1..127 x every failure reason, sequence-number edges x their "
    "partners, capability pairs, a sample of the boundary messages x rotating twins; plus Hypothesis batches; each batch is "
    "judged in a process of its own that starts from a freshly imported library.  Preludes (framework: every 8th held case is judged again after them): images of "
    "the case's one-field twins parsed / inspected / serialised, its header octets (plain, flag bit flipped) through every "
    "header class, truncated / over-long / foreign-family images through the parsers."
)
ASSUMPTIONS = [
    "reference layouts in vp/refs/moto_ref.py (unit-checked against the 13 captured messages of test_tms.py / test_ars.py)",
    "text messages are built with a sequence number and a bytes message (b'' for the empty text): the serializer needs both",
    "acknowledgements carry no encoding; service availability carries no sequence number",
    "ARS: has_more_headers is set exactly when the optional / second header is supplied; ResponseSecondHeader is given its "
    "first header through .context(header) before serialising, as from_bytes does (without it as_bytes raises ValueError)",
    "ARS success responses use refresh times 1..127 (0 is rejected by the serializer); USER_DEREGISTRATION_REQUEST and "
    "USER_REGISTRATION_RESPONSE are rejected by the library (ValueError, not implemented) and outside the domain",
]


def tms():
    import okdmr.dmrlib.motorola.text_messaging_service as T

    return T


def ars():
    import okdmr.dmrlib.motorola.automatic_registration_service as A

    return A


def _norm_text(x):
    return x if x else None


# ---------------------------------------------------------------------------------------------- TMS


def _tms_build(case):
    """build the message from the fields of the case; -> (message object, context for the comparisons)"""
    T = tms()
    pdu = case["pdu"]
    ptype = {"availability": T.TMSPDUType.SERVICE_AVAILABILITY, "ack": T.TMSPDUType.TMS_ACKNOWLEDGEMENT, "text": T.TMSPDUType.SIMPLE_TEXT_MESSAGE}[pdu]
    addr = bytes.fromhex(case["address"])
    cap, sn, enc_name = case.get("capability"), case.get("sn"), case.get("encoding")
    enc = None if enc_name is None else T.TMSEncoding[enc_name]
    enc_eff = None if enc_name in (None, "UNDEFINED") else enc
    message = bytes.fromhex(case.get("message", "")) if pdu == "text" else None
    klass = pdu + ("_sn0" if sn == 0 else "")

    _, fh = call(T.FirstHeader, has_more_headers=bool(case.get("more_in")), is_acknowledged=case["ack"], is_reserved=case["reserved"], pdu_type=ptype)
    avail = None
    if cap is not None:
        _, avail = call(T.AvailabilitySecondHeader, T.TMSDeviceCapability(cap))
    _, msg = call(T.TextMessagingService, first_header=fh, address=addr, availability_header=avail, sequence_number=sn, encoding=enc, message=message)
    exp_more = {"availability": cap is not None, "ack": sn is not None, "text": True}[pdu]
    return msg, {"pdu": pdu, "ptype": ptype, "addr": addr, "cap": cap, "sn": sn, "enc_eff": enc_eff, "message": message, "klass": klass, "exp_more": exp_more}


def _tms_check_parsed(p, case, c, clause="parsed_fields_equal_built_fields"):
    """(2) the fields of the parsed message p equal the fields the message was built from"""
    T = tms()
    pdu, cap, sn, enc_eff, message, addr = c["pdu"], c["cap"], c["sn"], c["enc_eff"], c["message"], c["addr"]
    got = {
        "pdu_type": p.header.pdu_type.name, "is_acknowledged": p.header.is_acknowledged, "is_control_message": p.header.is_control_message,
        "has_more_headers": p.header.has_more_headers, "address": bytes(p.address).hex(),
        "capability": p.availability_header.capability.value if p.availability_header is not None else None,
        "sequence_number": p.sequence_number, "encoding": None if p.encoding in (None, T.TMSEncoding.UNDEFINED) else p.encoding.name,
        "message": bytes(p.message).hex() if p.message else None,
    }
    exp = {
        "pdu_type": c["ptype"].name, "is_acknowledged": bool(case["ack"]), "is_control_message": pdu != "text",
        "has_more_headers": c["exp_more"], "address": addr.hex(), "capability": cap,
        "sequence_number": sn, "encoding": enc_eff.name if enc_eff is not None else None,
        "message": message.hex() if message else None,
    }
    if pdu != "text":
        got["is_reserved"], exp["is_reserved"] = p.header.is_reserved, bool(case["reserved"])
    if pdu == "ack":
        # an acknowledgement has no encoding field of its own
        got["encoding"] = exp["encoding"] = None
    if got != exp:
        diff = {k: [got[k], exp[k]] for k in exp if got[k] != exp[k]}
        raise Fail(clause, {k: v[0] for k, v in diff.items()}, {k: v[1] for k, v in diff.items()}, c["klass"])


def _tms_check_reference(b: bytes, case, c):
    """(4) reference layout: the octets, decoded by layout knowledge alone, carry the built fields"""
    pdu, cap, sn, enc_eff, message, addr, klass, exp_more = c["pdu"], c["cap"], c["sn"], c["enc_eff"], c["message"], c["addr"], c["klass"], c["exp_more"]
    try:
        r = MR.tms_parse(b)
    except (MR.LayoutError, IndexError) as e:
        raise Fail("wire_image_follows_reference_layout", f"{b.hex()}: {e}", "decodable by the documented layout", klass)
    got_r = {"pdu": r["pdu"], "ack": r["ack"], "address": r["address"].hex(), "capability": r["capability"], "sn": r["sn"],
             "encoding": None if pdu == "ack" else r["encoding"], "message": r["message"].hex() if r["message"] else None, "more": r["more"]}
    exp_r = {"pdu": pdu, "ack": bool(case["ack"]), "address": addr.hex(), "capability": cap, "sn": sn,
             "encoding": None if pdu == "ack" else (enc_eff.value if enc_eff is not None else 0), "message": message.hex() if message else None, "more": exp_more}
    if pdu != "text":
        got_r["reserved"], exp_r["reserved"] = r["reserved"], bool(case["reserved"])
    if got_r != exp_r:
        diff = {k: [got_r[k], exp_r[k]] for k in exp_r if got_r[k] != exp_r[k]}
        raise Fail("wire_image_decodes_to_built_fields_by_reference_layout", {"bytes": b.hex(), **{k: v[0] for k, v in diff.items()}}, {k: v[1] for k, v in diff.items()}, klass)


def _length_prefix(b: bytes, minimum: int, klass: str):
    if len(b) < minimum or int.from_bytes(b[:2], "big") != len(b) - 2:
        raise Fail("length_prefix_counts_following_bytes", {"prefix": int.from_bytes(b[:2], "big"), "bytes": b.hex()}, len(b) - 2, klass)


def oracle_tms(case):
    """case = {pdu: availability|ack|text, ack, reserved, more_in, address: hex, capability: None|0..3, sn: None|0..127,
    encoding: None|UNDEFINED|UCS2_LE, message: hex}"""
    T = tms()
    msg, c = _tms_build(case)
    klass = c["klass"]
    _, b = call(msg.as_bytes)
    b = bytes(b)
    # (1) framing
    _length_prefix(b, 4, klass)
    # (2) fields
    _, p = call(T.TextMessagingService.from_bytes, b)
    if p is None:
        raise Fail("parses_back", None, "a TextMessagingService", klass)
    _tms_check_parsed(p, case, c)
    # (3) fixed point
    _, b2 = call(p.as_bytes)
    if bytes(b2) != b:
        raise Fail("parsed_message_serialises_to_same_bytes", bytes(b2).hex(), b.hex(), klass)
    # (4) reference layout
    _tms_check_reference(b, case, c)


# ---------------------------------------------------------------------------------------------- ARS


def _ars_build(case):
    """build the message from the fields of the case; -> (message object, context for the comparisons)"""
    A = ars()
    pdu = case["pdu"]
    ptype = {
        "device_reg": A.ARSPDUType.DEVICE_REGISTRATION_REQUEST, "user_reg": A.ARSPDUType.USER_REGISTRATION_REQUEST, "query": A.ARSPDUType.STATUS_QUERY_REQUEST,
        "dereg": A.ARSPDUType.DEVICE_DEREGISTATION_NOTICE, "response": A.ARSPDUType.ARS_DEVICE_OR_QUERY_RESPONSE,
    }[pdu]
    event, second, csbk = case.get("event"), case.get("second"), bool(case.get("csbk"))
    more = (event is not None) if pdu in ("device_reg", "user_reg") else (second is not None) if pdu == "response" else False
    ack = bool(case["ack"])
    if pdu == "response" and second is not None:
        ack = "failure" in second  # the acknowledgement flag of a response selects failure reason / refresh time
    _, fh = call(A.FirstHeader, has_more_headers=more, is_acknowledged=ack, is_priority=case["priority"], is_control_message=case["control"], pdu_type=ptype)
    reg = rsh = None
    if pdu in ("device_reg", "user_reg") and event is not None:
        _, reg = call(A.RegistrationRequestHeader, event=A.RegistrationEvent[event], encoding=A.Encoding.UTF8)
    second_octet = None
    if pdu == "response" and second is not None:
        if "failure" in second:
            _, rsh = call(A.ResponseSecondHeader, failure_reason=A.FailureReason[second["failure"]])
            second_octet = MR.ARS_FAILURES[second["failure"]]
        else:
            _, rsh = call(A.ResponseSecondHeader, refresh_time=second["refresh"])
            second_octet = second["refresh"]
        rsh.context(fh)
    kw = {}
    if pdu in ("device_reg", "user_reg"):
        kw = {"device_identifier": case.get("device"), "user_identifier": case.get("user"), "password": case.get("password")}
    _, msg = call(A.AutomaticRegistrationService, first_header=fh, registration_request_header=reg, response_second_header=rsh, is_csbk_ars=csbk, **kw)
    return msg, {"pdu": pdu, "ptype": ptype, "klass": pdu, "event": event, "second": second, "csbk": csbk, "more": more, "ack": ack, "has_second": rsh is not None,
                 "second_octet": second_octet, "kw": kw}


def _ars_check_parsed(p, case, c, clause="parsed_fields_equal_built_fields"):
    """(2) the fields of the parsed message p equal the fields the message was built from"""
    second, kw, event = c["second"], c["kw"], c["event"]
    got = {
        "pdu_type": p.header.pdu_type.name, "has_more_headers": p.header.has_more_headers, "is_acknowledged": p.header.is_acknowledged,
        "is_priority": p.header.is_priority, "is_control_message": p.header.is_control_message, "is_csbk_ars": p.is_csbk_ars,
        "event": p.registration_request_header.event.name if p.registration_request_header is not None else None,
        "encoding": p.registration_request_header.encoding.name if p.registration_request_header is not None else None,
        "device_identifier": _norm_text(p.device_identifier), "user_identifier": _norm_text(p.user_identifier), "password": _norm_text(p.password),
        "second_header_present": p.response_second_header is not None,
    }
    exp = {
        "pdu_type": c["ptype"].name, "has_more_headers": c["more"], "is_acknowledged": c["ack"], "is_priority": bool(case["priority"]), "is_control_message": bool(case["control"]),
        "is_csbk_ars": c["csbk"], "event": event, "encoding": "UTF8" if event is not None else None,
        "device_identifier": _norm_text(kw.get("device_identifier")), "user_identifier": _norm_text(kw.get("user_identifier")), "password": _norm_text(kw.get("password")),
        "second_header_present": c["has_second"],
    }
    if c["has_second"] and p.response_second_header is not None:
        if "failure" in second:
            got["failure_reason"] = p.response_second_header.failure_reason.name if p.response_second_header.failure_reason is not None else None
            exp["failure_reason"] = second["failure"]
        else:
            got["refresh_time"], exp["refresh_time"] = p.response_second_header.refresh_time, second["refresh"]
    if got != exp:
        diff = {k: [got.get(k), exp[k]] for k in exp if got.get(k) != exp[k]}
        raise Fail(clause, {k: v[0] for k, v in diff.items()}, {k: v[1] for k, v in diff.items()}, c["klass"])


def _ars_check_reference(b: bytes, case, c):
    """(4) reference layout: the octets, decoded by layout knowledge alone, carry the built fields"""
    kw, event, klass = c["kw"], c["event"], c["klass"]
    try:
        r = MR.ars_parse(b)
    except (MR.LayoutError, IndexError, UnicodeDecodeError) as e:
        raise Fail("wire_image_follows_reference_layout", f"{b.hex()}: {e}", "decodable by the documented layout", klass)
    got_r = {k: r[k] for k in ("pdu", "more", "ack", "priority", "control", "event", "second", "csbk")}
    got_r.update({k: _norm_text(r[k]) for k in ("device", "user", "password")})
    exp_r = {"pdu": c["pdu"], "more": c["more"], "ack": c["ack"], "priority": bool(case["priority"]), "control": bool(case["control"]),
             "event": MR.ARS_EVENTS[event] if event is not None else None, "second": c["second_octet"], "csbk": c["csbk"],
             "device": _norm_text(kw.get("device_identifier")), "user": _norm_text(kw.get("user_identifier")), "password": _norm_text(kw.get("password"))}
    if got_r != exp_r:
        diff = {k: [got_r[k], exp_r[k]] for k in exp_r if got_r[k] != exp_r[k]}
        raise Fail("wire_image_decodes_to_built_fields_by_reference_layout", {"bytes": b.hex(), **{k: v[0] for k, v in diff.items()}}, {k: v[1] for k, v in diff.items()}, klass)


def oracle_ars(case):
    """case = {pdu: device_reg|user_reg|query|dereg|response, ack, priority, control, event: None|name, device, user, password:
    None|str, second: None|{refresh: n}|{failure: name}, csbk}"""
    A = ars()
    msg, c = _ars_build(case)
    klass = c["klass"]
    _, b = call(msg.as_bytes)
    b = bytes(b)
    _length_prefix(b, 3, klass)
    _, p = call(A.AutomaticRegistrationService.from_bytes, b)
    _ars_check_parsed(p, case, c)
    _, b2 = call(p.as_bytes)
    if bytes(b2) != b:
        raise Fail("parsed_message_serialises_to_same_bytes", bytes(b2).hex(), b.hex(), klass)
    _ars_check_reference(b, case, c)


# ---------------------------------------------------------------------------------------------- classes


def tms_nontrivial(c) -> bool:
    return (c.get("sn") or 0) >= 32 or len(c["address"]) // 2 >= 128 or c.get("capability") is not None or c.get("sn") is not None


def tms_classes(c):
    out = [c["pdu"]]
    sn = c.get("sn")
    out.append("sn_absent" if sn is None else "sn_0" if sn == 0 else "sn_1-31" if sn < 32 else "sn_32-127")
    n = len(c["address"]) // 2
    out.append("addr_0" if n == 0 else "addr_1-127" if n < 128 else "addr_128-255")
    if c["pdu"] == "text":
        out.append("enc_" + str(c.get("encoding")))
        m = len(c.get("message", "")) // 4
        out.append("text_0" if m == 0 else "text_1-50" if m <= 50 else "text_51-200")
    if c["pdu"] == "availability":
        out.append("cap_" + str(c.get("capability")))
    return out


def ars_nontrivial(c) -> bool:
    return c.get("event") is not None or c.get("second") is not None or bool(c.get("csbk")) or any(len((c.get(k) or "").encode()) >= 128 for k in ("device", "user", "password"))


def ars_classes(c):
    out = [c["pdu"]]
    if c.get("csbk"):
        out.append("csbk")
    if c["pdu"] in ("device_reg", "user_reg"):
        out.append("event_" + str(c.get("event")))
        for k in ("device", "user", "password"):
            v = c.get(k)
            n = len((v or "").encode())
            out.append(f"{k}_" + ("none" if v is None else "empty" if n == 0 else "1-127" if n < 128 else "128-255"))
    if c["pdu"] == "response":
        s = c.get("second")
        out.append("second_none" if s is None else "success" if "refresh" in s else "failure_" + s["failure"])
    return out


# ---------------------------------------------------------------------------------------------- strategies / drivers

# characters that text codecs treat specially (BOM / byte-order marks, replacement character, NUL, white space, line ends,
# non-BMP) and characters whose UTF-16-LE image contains octets that mean something in the frame (10 80 trailer, 00 00,
# length / header octets)
CODEC_SPECIALS = ["\ufeff", "\ufffe", "\ufffd", "\x00", " ", "\t", "\r", "\n", "\r\n", "\u00a0", "\u2028", "\u8010", "\u1080", "\u8000", "\u0010", "\uffff", "\u00ff", "\u0080",
                  "\U00010000", "\U0001f600", "\U0010ffff", "\u00ef\u00bb\u00bf"]


def special_text_shapes(x: str):
    """x alone, at the start, in the middle, at the end, doubled, and as a long homogeneous run"""
    return [x, x + "a", "a" + x + "b", "ab" + x, x + x, x + "a" + x, " " + x, x + " "]


SN_EDGES = [0, 1, 30, 31, 32, 33, 63, 64, 65, 95, 96, 97, 126, 127]


def _tms_strategy():
    from hypothesis import strategies as st

    addr = st.one_of(st.binary(max_size=6), st.sampled_from([0, 1, 127, 128, 129, 254, 255]).flatmap(lambda n: st.binary(min_size=n, max_size=n)), st.binary(max_size=255)).map(bytes.hex)
    sn = st.one_of(st.sampled_from(SN_EDGES), st.integers(0, 127))
    bmp = st.characters(max_codepoint=0xFFFF, exclude_categories=["Cs"])
    spiced = st.one_of(st.sampled_from(CODEC_SPECIALS), st.sampled_from(CODEC_SPECIALS), st.characters(min_codepoint=0x20, max_codepoint=0x7E), bmp)
    text = st.one_of(st.just(""), st.text(bmp, min_size=1, max_size=20), st.text(bmp, min_size=21, max_size=200), st.text(min_size=1, max_size=100),
                     st.sampled_from([51, 128, 199, 200]).flatmap(lambda n: st.text(bmp, min_size=n, max_size=n)),
                     st.lists(spiced, min_size=1, max_size=12).map("".join), st.lists(spiced, min_size=1, max_size=100).map(lambda l: "".join(l)[:100]))
    message = text.map(lambda s: s.encode("utf-16-le").hex())
    flags = st.tuples(st.booleans(), st.booleans(), st.booleans())

    def mk(pdu):
        def f(t):
            (ack, reserved, more_in), a, rest = t
            c = {"pdu": pdu, "ack": ack, "reserved": reserved, "more_in": more_in, "address": a, "capability": None, "sn": None, "encoding": None}
            c.update(rest)
            return c

        return f

    avail = st.tuples(flags, addr, st.one_of(st.none(), st.integers(0, 3)).map(lambda c: {"capability": c})).map(mk("availability"))
    ack = st.tuples(flags, addr, st.one_of(st.none(), sn).map(lambda s: {"sn": s})).map(mk("ack"))
    txt = st.tuples(flags, addr, st.tuples(sn, st.sampled_from([None, "UNDEFINED", "UCS2_LE", "UCS2_LE"]), message).map(lambda t: {"sn": t[0], "encoding": t[1], "message": t[2]})).map(mk("text"))
    return st.one_of(avail, ack, ack, txt, txt, txt)


def _fit255(s: str) -> str:
    while len(s.encode("utf-8")) > 255:
        s = s[: len(s) - 1 - (len(s.encode("utf-8")) - 255) // 4]
    return s


def _ars_strategy():
    from hypothesis import strategies as st

    ident = st.one_of(
        st.none(), st.just(""), st.text(max_size=12), st.text(st.characters(min_codepoint=0x30, max_codepoint=0x39), min_size=1, max_size=10),
        st.sampled_from([1, 127, 128, 254, 255]).flatmap(lambda n: st.text(st.characters(min_codepoint=0x20, max_codepoint=0x7E), min_size=n, max_size=n)),
        st.text(max_size=255).map(_fit255),
        st.lists(st.one_of(st.sampled_from(CODEC_SPECIALS), st.sampled_from(CODEC_SPECIALS), st.characters(min_codepoint=0x20, max_codepoint=0x7E), st.characters(codec="utf-8")), min_size=1, max_size=10).map("".join),
        st.lists(st.one_of(st.sampled_from(CODEC_SPECIALS), st.characters(min_codepoint=0x20, max_codepoint=0x7E)), min_size=1, max_size=120).map("".join).map(_fit255),
    )
    flags = st.tuples(st.booleans(), st.booleans(), st.booleans(), st.booleans())

    def base(pdu, t):
        ack, prio, ctrl, csbk = t
        return {"pdu": pdu, "ack": ack, "priority": prio, "control": ctrl, "csbk": csbk, "event": None, "device": None, "user": None, "password": None, "second": None}

    def reg(pdu):
        return st.tuples(flags, st.sampled_from([None, "DONT_CARE", "INITIAL", "REFRESH"]), ident, ident, ident).map(
            lambda t: dict(base(pdu, t[0]), event=t[1], device=t[2], user=t[3], password=t[4])
        )

    second = st.one_of(
        st.none(),
        st.one_of(st.sampled_from([1, 2, 63, 64, 126, 127]), st.integers(1, 127)).map(lambda n: {"refresh": n}),
        st.sampled_from(sorted(MR.ARS_FAILURES)).map(lambda n: {"failure": n}),
    )
    resp = st.tuples(flags, second).map(lambda t: dict(base("response", t[0]), second=t[1]))
    simple = st.tuples(st.sampled_from(["query", "dereg"]), flags).map(lambda t: base(t[0], t[1]))
    return st.one_of(reg("device_reg"), reg("user_reg"), resp, simple)


# ---------------------------------------------------------------------------------------------- deterministic boundary passes

LENS = [0, 1, 127, 128, 129, 255]
# octets that mean something somewhere in the two formats: CSBK trailer 10 80, LV terminator / empty 00, failure reason FF,
# first-header values (1F 9F BF 3F D0 E0 F0 F5 74 31), more-headers bit 80, 5-bit masks 1F / 7F, encoding 04
DELIMS = [0x00, 0x04, 0x10, 0x1F, 0x31, 0x3F, 0x74, 0x7F, 0x80, 0x9F, 0xBF, 0xD0, 0xE0, 0xF0, 0xF5, 0xFF]
TEXT_UNITS = [0, 1, 63, 64, 65, 100, 127, 128, 129, 199, 200]
FLAGS3 = [(a, b, c) for a in (False, True) for b in (False, True) for c in (False, True)]
FLAGS4 = [(a, b, c, d) for a in (False, True) for b in (False, True) for c in (False, True) for d in (False, True)]


def _pat(n: int, salt: int) -> bytes:
    return bytes((salt + 7 * i) & 0xFF for i in range(n))


def tms_boundary_cases():
    out = []

    def add(cls, pdu, i, address: bytes, **kw):
        ack, reserved, more_in = FLAGS3[i % 8]
        c = {"pdu": pdu, "ack": ack, "reserved": reserved, "more_in": more_in, "address": address.hex(), "capability": None, "sn": None, "encoding": None}
        c.update(kw)
        out.append((c, cls))

    i = 0
    # address length x text length (adjacent variable-length fields), patterned and delimiter-filled contents
    for la in LENS:
        for lt in TEXT_UNITS:
            for fill in (None, 0x10, 0x80):
                i += 1
                addr = _pat(la, i) if fill is None else bytes([fill]) * la
                msg = _pat(2 * lt, 3 * i) if fill is None else bytes([0x10, 0x80]) * lt
                add("addr_len_x_text_len", "text", i, addr, sn=[0, 31, 32, 127, 16, 96][i % 6], encoding=[None, "UCS2_LE", "UNDEFINED"][i % 3], message=msg.hex())
    # address length x the PDUs without payload, every optional-header variant
    for la in LENS:
        for k, sn in enumerate([None, 0, 16, 31, 32, 127]):
            for fl in range(8):
                add("addr_len_x_ack", "ack", fl, _pat(la, la + k), sn=sn)
        for cap in (None, 0, 1, 2, 3):
            for fl in range(8):
                add("addr_len_x_availability", "availability", fl, _pat(la, la + 1), capability=cap)
    # address / text contents equal to, starting with and ending with every meaningful octet
    for x in DELIMS:
        for k, addr in enumerate([bytes([x]), bytes([x, 0x41]), bytes([0x41, x]), bytes([x, x]), bytes([x]) * 127, bytes([x]) * 128, bytes([x]) * 255, bytes([0x10, 0x80]),
                                  bytes([0x41, 0x10, 0x80]), bytes([0x10, 0x80, 0x41]), bytes([x, 0x10, 0x80]), bytes([0x10, 0x80, x])]):
            i += 1
            add("addr_content", "availability", i, addr, capability=[None, 0, 3][k % 3])
            add("addr_content", "ack", i + 1, addr, sn=[None, 0, x & 0x7F][k % 3])
            add("addr_content", "text", i + 2, addr, sn=x & 0x7F, encoding=[None, "UCS2_LE"][k % 2], message=bytes([x, x]).hex())
        for k, msg in enumerate([bytes([x, x]), bytes([0x41, 0, x, x]), bytes([x, x, 0x41, 0]), bytes([x, 0]), bytes([0, x]), bytes([0x10, 0x80]), bytes([x, x]) * 100, bytes([0x10, 0x80, x, x]), bytes([x, x, 0x10, 0x80])]):
            i += 1
            add("text_content", "text", i, bytes([x])[: k % 2], sn=[0, 16, 31, 32, 64, 127][k % 6], encoding=[None, "UCS2_LE"][k % 2], message=msg.hex())
    # texts with the characters codecs treat specially: alone / start / middle / end / doubled / long homogeneous runs
    for x in CODEC_SPECIALS:
        per = 2 if ord(x[0]) > 0xFFFF else 1
        shapes = special_text_shapes(x) + [x * (100 // (per * len(x))), x * (200 // (per * len(x))), "a" * 99 + x, x + "a" * (199 - per * len(x))]
        for k, txt in enumerate(shapes):
            i += 1
            add("text_codec_special", "text", i, _pat([0, 1, 2, 128][k % 4], i), sn=[0, 31, 32, 127][k % 4], encoding=[None, "UCS2_LE", "UCS2_LE"][k % 3], message=txt.encode("utf-16-le").hex())
    # sequence numbers: complete range x address length x flag combinations (grid covers the short-address part completely)
    for sn in range(128):
        for k, la in enumerate([0, 1, 127, 128, 255]):
            add("sn_x_addr_len", "ack", sn + k, _pat(la, sn), sn=sn)
            add("sn_x_addr_len", "text", sn + k + 3, _pat(la, sn + 1), sn=sn, encoding=[None, "UCS2_LE"][(sn + k) % 2], message=_pat(2 * (sn % 5), sn).hex())
    return out


def _s(nbytes: int, style: str) -> str:
    """text whose UTF-8 form has exactly nbytes octets; style selects the last / first octets"""
    if nbytes == 0:
        return ""
    if style == "ascii":
        return "".join(chr(0x30 + (i * 7) % 75) for i in range(nbytes))
    if style == "ends_10":  # last octet = first trailer octet (the next field's length octet may be 80)
        return _s(nbytes - 1, "ascii") + "\x10"
    if style == "all_10":
        return "\x10" * nbytes
    if style == "ends_80":  # U+0080 = C2 80
        return ("\x10" if nbytes % 2 else "") + "\u0080" * (nbytes // 2) if nbytes >= 2 else "\x10"
    if style == "starts_80ish":  # first octets C2 80 .. and last octet 00
        return ("\u0080" * (nbytes // 2) + ("\x00" if nbytes % 2 else "")) if nbytes >= 2 else "\x00"
    if style == "wide":  # 3- and 4-octet characters (EF BF BF / F0 90 80 80), padded with FF-adjacent U+00FF (C3 BF)
        out, left = "", nbytes
        while left >= 4:
            out += "\U00010000" if (left // 4) % 2 else "\uffff\x7f"
            left -= 4
        return out + {0: "", 1: "\x7f", 2: "\u00ff", 3: "\uffff"}[left]
    raise ValueError(style)


STYLES = ["ascii", "ends_10", "all_10", "ends_80", "starts_80ish", "wide"]
SPECIAL_TEXTS = ["\x00", "\x10", "\x1f", "\x7f", "\u0080", "\u00ff", "\x10\u0080", "\u0080\x10", "\x10\x10", "\x00\x00", "\uffff", "\U0010ffff", "\x10\x80"[:1] + "\u0410"]


def ars_boundary_cases():
    out = []

    def add(cls, pdu, i, **kw):
        ack, prio, ctrl, csbk = FLAGS4[i % 16]
        c = {"pdu": pdu, "ack": ack, "priority": prio, "control": ctrl, "csbk": csbk, "event": None, "device": None, "user": None, "password": None, "second": None}
        c.update(kw)
        out.append((c, cls))

    i = 0
    # three adjacent length-value fields: complete cross of the boundary lengths, six content styles
    for ld in LENS:
        for lu in LENS:
            for lp in LENS:
                for k, style in enumerate(STYLES):
                    i += 1
                    add("lv_len_cross:" + style, ["device_reg", "user_reg"][i % 2], i, event=[None, "INITIAL", "DONT_CARE", "REFRESH"][(i // 2) % 4],
                        device=_s(ld, style), user=_s(lu, style), password=_s(lp, style), csbk=bool((i // 3) % 2))
    # first header x device length (header octet 10 followed by length octet 80 etc.): every flag combination
    for fl in range(16):
        for ev in (None, "INITIAL"):
            for ld in LENS:
                for csbk in (False, True):
                    add("flags_x_device_len", "device_reg", fl, event=ev, device=_s(ld, "ends_10"), user=None, password=None, csbk=csbk)
    # field contents equal to / starting with / ending with the special octets, in each field position
    for x in SPECIAL_TEXTS:
        for var in (x, x + "a", "a" + x, x + x):
            for pos in ("device", "user", "password"):
                for csbk in (False, True):
                    i += 1
                    kw = {"device": "11", "user": "9", "password": "p"}
                    kw[pos] = var
                    add("special_content:" + pos, ["device_reg", "user_reg"][i % 2], i, event=[None, "REFRESH"][i % 2], csbk=csbk, **kw)
                    kw2 = {"device": None, "user": None, "password": None}
                    kw2[pos] = var
                    add("special_content_alone:" + pos, ["user_reg", "device_reg"][i % 2], i + 5, event=[None, "INITIAL"][i % 2], csbk=csbk, **kw2)
    # the characters codecs treat specially (BOM, U+FFFE, U+FFFD, NUL, blanks, CR / LF, non-BMP, the mis-decoded BOM "ï»¿"),
    # alone / start / middle / end / doubled, and as runs filling the field, in each field position
    for x in CODEC_SPECIALS:
        nb = len(x.encode("utf-8"))
        shapes = special_text_shapes(x) + [x * (127 // nb), x * (128 // nb), x * (255 // nb), "a" * (255 - nb) + x, x + "a" * (255 - nb)]
        for k, var in enumerate(shapes):
            for pos in ("device", "user", "password"):
                i += 1
                kw = {"device": "11", "user": "9", "password": "p"}
                kw[pos] = var
                add("codec_special:" + pos, ["device_reg", "user_reg"][i % 2], i, event=[None, "REFRESH", "INITIAL"][i % 3], csbk=bool(k % 2), **kw)
        # all three fields at once, and the special field between two empty ones
        i += 1
        add("codec_special:all_fields", "user_reg", i, event="DONT_CARE", device=x, user=x + "u", password="p" + x, csbk=bool(i % 2))
        add("codec_special:alone", "device_reg", i + 1, event=None, device=None, user=x, password=None, csbk=bool(i % 2))
    # None / "" / absent in every combination
    for d in (None, "", "1"):
        for u in (None, "", "2"):
            for pw in (None, "", "3"):
                for csbk in (False, True):
                    i += 1
                    add("empty_fields", ["device_reg", "user_reg"][i % 2], i, event=[None, "INITIAL"][i % 2], device=d, user=u, password=pw, csbk=csbk)
    return out


def _run_boundary(ctx: Ctx, sub: SubCheck, oracle, cases, nontrivial):
    def work(ch, t: Tally):
        for c, cls in ch:
            ctx.run_case(sub.name, oracle, c, t)
            t.case(sub.name, key=c, nontrivial=nontrivial(c), cls="boundary:" + cls)

    ctx.shards(work, [cases[i::32] for i in range(32)])
    ctx.tally.extra.setdefault("deterministic_boundary_cases", {})[sub.name] = len(cases)


def drv_tms(ctx: Ctx, sub: SubCheck):
    # complete grid: pdu x flags x sequence number (x capability) with a short address
    grid = []
    for ack in (False, True):
        for reserved in (False, True):
            for more_in in (False, True):
                b = {"ack": ack, "reserved": reserved, "more_in": more_in, "address": "01" if ack else "", "capability": None, "sn": None, "encoding": None}
                for cap in (None, 0, 1, 2, 3):
                    grid.append(dict(b, pdu="availability", capability=cap))
                for sn in [None] + list(range(128)):
                    grid.append(dict(b, pdu="ack", sn=sn))
                for sn in range(128):
                    for enc in (None, "UNDEFINED", "UCS2_LE"):
                        grid.append(dict(b, pdu="text", sn=sn, encoding=enc, message="6100" if sn % 2 else ""))

    def work(ch, t: Tally):
        for c in ch:
            ctx.run_case(sub.name, oracle_tms, c, t)
            t.case(sub.name, key=c, nontrivial=tms_nontrivial(c))
            for k in tms_classes(c):
                t.cls(sub.name, "grid:" + k)

    ctx.shards(work, [grid[i::16] for i in range(16)])
    _run_boundary(ctx, sub, oracle_tms, tms_boundary_cases(), tms_nontrivial)
    strat = _tms_strategy()

    def rec(c, t: Tally):
        t.case(sub.name, key=c, nontrivial=tms_nontrivial(c))
        for k in tms_classes(c):
            t.cls(sub.name, k)

    warm_hypothesis_constants()
    ctx.shards(lambda i, t: ctx.hypothesis(sub.name, strat, oracle_tms, ctx.pick(2800, 14000), tally=t, shard=i, record=rec), list(range(ctx.pick(16, 80))))


def drv_ars(ctx: Ctx, sub: SubCheck):
    # complete grid over the small fields
    grid = []
    for ack in (False, True):
        for prio in (False, True):
            for ctrl in (False, True):
                for csbk in (False, True):
                    b = {"ack": ack, "priority": prio, "control": ctrl, "csbk": csbk, "event": None, "device": None, "user": None, "password": None, "second": None}
                    for pdu in ("query", "dereg"):
                        grid.append(dict(b, pdu=pdu))
                    for pdu in ("device_reg", "user_reg"):
                        for ev in (None, "DONT_CARE", "INITIAL", "REFRESH"):
                            grid.append(dict(b, pdu=pdu, event=ev, device="11", user=("999999999" if pdu == "user_reg" else None), password=("pw" if csbk else None)))
                    grid.append(dict(b, pdu="response"))
                    if not ack:
                        for n in range(1, 128):
                            grid.append(dict(b, pdu="response", second={"refresh": n}))
                    else:
                        for f in sorted(MR.ARS_FAILURES):
                            grid.append(dict(b, pdu="response", second={"failure": f}))

    def work(ch, t: Tally):
        for c in ch:
            ctx.run_case(sub.name, oracle_ars, c, t)
            t.case(sub.name, key=c, nontrivial=ars_nontrivial(c))
            for k in ars_classes(c):
                t.cls(sub.name, "grid:" + k)

    ctx.shards(work, [grid[i::16] for i in range(16)])
    _run_boundary(ctx, sub, oracle_ars, ars_boundary_cases(), ars_nontrivial)
    strat = _ars_strategy()

    def rec(c, t: Tally):
        t.case(sub.name, key=c, nontrivial=ars_nontrivial(c))
        for k in ars_classes(c):
            t.cls(sub.name, k)

    warm_hypothesis_constants()
    ctx.shards(lambda i, t: ctx.hypothesis(sub.name, strat, oracle_ars, ctx.pick(2400, 12000), tally=t, shard=i, record=rec), list(range(ctx.pick(16, 80))))


# ---------------------------------------------------------------------------------------------- retained objects (round 7)
#
# A case of the sub-checks above builds one message, parses it and serialises the parsed object at once, so an object never
# outlives the parse of the next message.  Real users keep parsed messages (a queue of acknowledgements to forward, a table
# of registrations).  State shared between parsed objects - a header object interned on part of its octet and re-bound to
# the message parsed last, a class-level buffer, a memo of the optional headers keyed on the low sequence-number bits -
# only shows when message X is parsed, a NEAR TWIN Y of X is parsed (equal in what the shared key looks at, different in
# what it neglects: the success / failure flag of the first header in front of the same low seven second-header bits, the
# two high sequence-number bits in front of the same five low bits, the trailer, one identifier, one flag), and X is
# serialised or inspected AGAIN.
#
#   case = {kind: tms|ars, msgs: [message case, ...], parse: [index into msgs, ...], ops: [[op, k], ...]}
#   1. every message is built from its fields and serialised (b_i; length prefix and reference layout are judged, so b_i is
#      known to carry the fields whatever state the library is in);
#   2. the images are parsed in the order `parse` (an index may occur twice: two objects from equal octets); NOTHING is
#      serialised in between; all parsed and built objects are kept;
#   3. ops: bytes k (parsed object k serialises to the image it came from), fields k (it has the built fields), repr k
#      (stimulus), built k (built message k serialises to b_k again), parse k (another object from image k, kept), damaged k
#      (stimulus: truncated / over-long / trailer-extended variants of image k through the parser, refusals ignored);
#   4. finally every kept parsed object is judged for fields and bytes, every built one for bytes.
# Judged in a process of its own (vp/isolate.py): failing cases are self-contained, shrinking is sound.


def _retained_fns(kind):
    if kind == "tms":
        return _tms_build, _tms_check_parsed, _tms_check_reference, tms().TextMessagingService.from_bytes, 4
    return _ars_build, _ars_check_parsed, _ars_check_reference, ars().AutomaticRegistrationService.from_bytes, 3


def _oracle_retained(case):
    kind = case["kind"]
    build, check_parsed, check_reference, from_bytes, minimum = _retained_fns(kind)
    built, images = [], []
    for mc in case["msgs"]:
        msg, c = build(mc)
        _, b = call(msg.as_bytes)
        b = bytes(b)
        _length_prefix(b, minimum, c["klass"])
        check_reference(b, mc, c)
        built.append((msg, mc, c))
        images.append(b)
    objs = []  # (parsed object, index of its message)

    def parse(i):
        _, p = call(from_bytes, images[i])
        if p is None:
            raise Fail("parses_back", None, "a message object", built[i][2]["klass"])
        objs.append((p, i))

    def judge_bytes(k, step):
        p, i = objs[k]
        _, b2 = call(p.as_bytes)
        if bytes(b2) != images[i]:
            raise Fail("retained_parsed_message_serialises_to_the_bytes_it_was_parsed_from", {"step": step, "object": k, "message": i, "bytes": bytes(b2).hex()}, images[i].hex(),
                       kind + ":" + built[i][2]["klass"])

    def judge_fields(k, step):
        p, i = objs[k]
        try:
            check_parsed(p, built[i][1], built[i][2], clause="retained_parsed_message_keeps_the_built_fields")
        except Fail as f:
            raise Fail(f.clause, {"step": step, "object": k, "message": i, "fields": f.observed}, f.expected, kind + ":" + f.klass)

    def judge_built(i, step):
        _, b2 = call(built[i][0].as_bytes)
        if bytes(b2) != images[i]:
            raise Fail("retained_built_message_serialises_to_the_same_bytes_again", {"step": step, "message": i, "bytes": bytes(b2).hex()}, images[i].hex(), kind + ":" + built[i][2]["klass"])

    for i in case["parse"]:
        parse(i % len(images))
    for n, (op, k) in enumerate(case.get("ops", [])):
        if op == "parse":
            parse(k % len(images))
        elif op == "damaged":
            # rightly refused / damaged variants of image k (stimulus): truncated, length prefix too large, trailer appended
            b = images[k % len(images)]
            for v in (b[:-1], (len(b) + 3).to_bytes(2, "big") + b[2:], b[:3], b + b"\x10\x80"):
                call(from_bytes, v, allowed=(Exception,))
        elif op == "built":
            judge_built(k % len(built), n)
        elif objs:
            k %= len(objs)
            if op == "bytes":
                judge_bytes(k, n)
            elif op == "fields":
                judge_fields(k, n)
            elif op == "repr":
                call(lambda o: (repr(o), str(o), len(o) if hasattr(o, "__len__") else None), objs[k][0], allowed=(Exception,))
            else:
                raise ValueError(op)
    for k in range(len(objs)):
        judge_fields(k, "final")
        judge_bytes(k, "final")
    for i in range(len(built)):
        judge_built(i, "final")


from vp.isolate import isolated  # noqa: E402

oracle_retained = isolated(_oracle_retained, warm=lambda: (tms(), ars()))

ARS_REGS = ("device_reg", "user_reg")
ARS_EVENTS_ALL = [None, "DONT_CARE", "INITIAL", "REFRESH"]


def ars_second_partners(s):
    """second headers that collide with s in part of the octet (low seven bits across the success / failure flag, bit 6,
    neighbours) or differ from it in presence"""
    out = []
    if s is None:
        return [{"refresh": 1}, {"refresh": 127}] + [{"failure": f} for f in sorted(MR.ARS_FAILURES)]
    if "refresh" in s:
        n = s["refresh"]
        out += [{"failure": f} for f, o in sorted(MR.ARS_FAILURES.items()) if o & 0x7F == n]
        out += [{"refresh": m} for m in (n ^ 0x40, n - 1, n + 1, 127 - n) if 1 <= m <= 127 and m != n]
        out += [None, {"failure": "TRANSMISSION_FAILURE"}, {"failure": "DEVICE_NOT_AUTHORIZED"}]
    else:
        o = MR.ARS_FAILURES[s["failure"]]
        if o & 0x7F:
            out.append({"refresh": o & 0x7F})
        out += [{"failure": f} for f in sorted(MR.ARS_FAILURES) if f != s["failure"]]
        out += [None, {"refresh": 127}, {"refresh": 1}]
    seen, res = set(), []
    for x in out:
        if repr(x) not in seen and x != s:
            seen.add(repr(x))
            res.append(x)
    return res


def _text_variants(v):
    """near twins of an identifier: absent / empty / one character more / one less / first character changed / doubled"""
    out = [None, ""]
    if v:
        out += [v[:-1], v[1:], ("x" if v[0] != "x" else "y") + v[1:], v[:-1] + ("0" if v[-1] != "0" else "1")]
        if len((v + v).encode("utf-8")) <= 255:
            out.append(v + v)
    base = v or ""
    if len((base + "1").encode("utf-8")) <= 255:
        out.append(base + "1")
    return [x for x in out if x != v]


def ars_twins(c):
    """every message that differs from c in exactly one field (deterministic list of (label, case))"""
    out = []

    def put(label, **kw):
        d = dict(c)
        d.update(kw)
        out.append((label, d))

    for k in ("priority", "control", "csbk"):
        put("flip_" + k, **{k: not c[k]})
    if not (c["pdu"] == "response" and c.get("second") is not None):
        put("flip_ack", ack=not c["ack"])
    if c["pdu"] in ARS_REGS:
        put("other_pdu", pdu=[p for p in ARS_REGS if p != c["pdu"]][0])
        for ev in ARS_EVENTS_ALL:
            if ev != c.get("event"):
                put("event", event=ev)
        for k in ("device", "user", "password"):
            for v in _text_variants(c.get(k)):
                put("field_" + k, **{k: v})
        put("fields_swapped", device=c.get("user"), user=c.get("device"))
    elif c["pdu"] == "response":
        for s2 in ars_second_partners(c.get("second")):
            put("second", second=s2)
    else:
        put("other_pdu", pdu="dereg" if c["pdu"] == "query" else "query")
        put("other_pdu", pdu="response")
    return out


def tms_twins(c):
    out = []

    def put(label, **kw):
        d = dict(c)
        d.update(kw)
        out.append((label, d))

    for k in ("ack", "reserved", "more_in"):
        put("flip_" + k, **{k: not c[k]})
    a = bytes.fromhex(c["address"])
    for v in ({b"", a[:-1], a[1:], a + b"\x00", a + a[-1:], bytes([a[0] ^ 0x80]) + a[1:] if a else b"\x80", a[:-1] + bytes([a[-1] ^ 1]) if a else b"\x01"}):
        if v != a and len(v) <= 255:
            put("address", address=v.hex())
    pdu, sn = c["pdu"], c.get("sn")
    if pdu == "availability":
        for cap in (None, 0, 1, 2, 3):
            if cap != c.get("capability"):
                put("capability", capability=cap)
        put("other_pdu", pdu="ack", capability=None, sn=None)
    else:
        sns = {0, 31, 32, 127} | ({sn ^ 0x20, sn ^ 0x40, sn ^ 0x60, (sn + 1) % 128, (sn - 1) % 128, sn & 0x1F} if sn is not None else {1, 33})
        if pdu == "ack":
            sns.add(None)
        for v in sorted(sns - {sn}, key=lambda x: -1 if x is None else x):
            put("sn", sn=v)
        if pdu == "text":
            for e in (None, "UNDEFINED", "UCS2_LE"):
                if e != c.get("encoding"):
                    put("encoding", encoding=e)
            m = bytes.fromhex(c.get("message", ""))
            for v in ({b"", m[:-2], m[2:], m + b"a\x00", m + m[-2:], m[:-2] + bytes([m[-2] ^ 1, m[-1]]) if m else b"\x01\x00"}):
                if v != m and len(v) <= 400:
                    put("message", message=v.hex())
            if sn is not None:
                put("other_pdu", pdu="ack", encoding=None, message="")
        else:
            put("other_pdu", pdu="text", sn=sn if sn is not None else 0, encoding=None, message="6100")
    return out


def _retained_classes(c):
    out = [c["kind"], f"msgs_{len(c['msgs'])}", f"objects_{min(len(c['parse']) + sum(1 for o in c.get('ops', []) if o[0] == 'parse'), 6)}"]
    pdus = sorted({m["pdu"] for m in c["msgs"]})
    out.append("pdus:" + "+".join(pdus))
    if c["kind"] == "ars":
        sec = [m.get("second") for m in c["msgs"] if m["pdu"] == "response" and m.get("second") is not None]
        octs = [(MR.ARS_FAILURES[s["failure"]] if "failure" in s else s["refresh"]) for s in sec]
        kinds = ["failure" in s for s in sec]
        if any(octs[i] & 0x7F == octs[j] & 0x7F and kinds[i] != kinds[j] for i in range(len(sec)) for j in range(i)):
            out.append("second_headers_collide_modulo_flag_bit")
    else:
        sns = [m.get("sn") for m in c["msgs"] if m.get("sn") is not None]
        if any(sns[i] != sns[j] and sns[i] & 0x1F == sns[j] & 0x1F for i in range(len(sns)) for j in range(i)):
            out.append("sequence_numbers_collide_in_low_5_bits")
    if len(set(c["parse"])) < len(c["parse"]):
        out.append("same_image_parsed_twice")
    return out


def retained_deterministic_cases():
    out = []
    flags = FLAGS4
    # ARS responses: every ordered pair of second headers of a list that holds every collision modulo the flag bit / bit 6,
    # x trailer combinations x parse orders (X Y / X Y X)
    seconds = [None] + [{"refresh": n} for n in (1, 2, 3, 63, 64, 65, 126, 127)] + [{"failure": f} for f in sorted(MR.ARS_FAILURES)]
    i = 0
    for x in seconds:
        for y in seconds:
            if x == y:
                continue
            for cx, cy in ((False, False), (True, True), (False, True), (True, False)):
                i += 1
                ack, prio, ctrl, _ = flags[i % 16]
                mx = {"pdu": "response", "ack": ack, "priority": prio, "control": ctrl, "csbk": cx, "event": None, "device": None, "user": None, "password": None, "second": x}
                my = dict(mx, csbk=cy, second=y)
                out.append(({"kind": "ars", "msgs": [mx, my], "parse": [[0, 1], [0, 1, 0]][i % 2], "ops": [[], [["bytes", 0]], [["repr", 0]], [["fields", 1], ["bytes", 1]], [["damaged", 1]]][(i // 2) % 5]}, "ars_second_header_pairs"))
    # complete: every refresh time against every failure reason (both parse orders alternate)
    for n in range(1, 128):
        for k, f in enumerate(sorted(MR.ARS_FAILURES)):
            i += 1
            ack, prio, ctrl, csbk = flags[i % 16]
            mx = {"pdu": "response", "ack": ack, "priority": prio, "control": ctrl, "csbk": csbk, "event": None, "device": None, "user": None, "password": None, "second": {"refresh": n}}
            my = dict(mx, second={"failure": f})
            out.append(({"kind": "ars", "msgs": [mx, my] if i % 2 else [my, mx], "parse": [0, 1], "ops": []}, "ars_refresh_x_failure"))
    # ARS: a sample of the boundary messages, each with every one-field twin (rotating), both orders
    base = [c for c, _ in ars_boundary_cases()]
    for j, c in enumerate(base[:: max(1, len(base) // 160)]):
        tw = ars_twins(c)
        for r in range(2):
            label, y = tw[(j * 2 + r) % len(tw)]
            i += 1
            out.append(({"kind": "ars", "msgs": [c, y] if r == 0 else [y, c], "parse": [[0, 1], [1, 0], [0, 1, 0]][i % 3], "ops": [[], [["repr", 0], ["built", 0]], [["damaged", 0]]][i % 3]}, "ars_twin:" + label))
    # TMS: sequence numbers against their partners in the 5 + 2 bit split, acknowledgement and text, three address lengths
    for sn in SN_EDGES + [None]:
        for pdu in ("ack", "text"):
            if sn is None and pdu == "text":
                continue
            for la in ((0, 128) if pdu == "ack" else (1,)):
                i += 1
                ack, reserved, more_in = FLAGS3[i % 8]
                x = {"pdu": pdu, "ack": ack, "reserved": reserved, "more_in": more_in, "address": _pat(la, i).hex(), "capability": None, "sn": sn, "encoding": None}
                if pdu == "text":
                    x.update(encoding=[None, "UCS2_LE"][i % 2], message=_pat(2 * (i % 4), i).hex())
                for label, y in tms_twins(x):
                    if label in ("sn", "other_pdu", "encoding"):
                        i += 1
                        out.append(({"kind": "tms", "msgs": [x, y] if i % 2 else [y, x], "parse": [[0, 1], [0, 1, 0], [1, 0]][i % 3], "ops": [[], [["repr", 1]]][i % 2]}, "tms_twin:" + label))
    base = [c for c, _ in tms_boundary_cases()]
    for j, c in enumerate(base[:: max(1, len(base) // 160)]):
        tw = tms_twins(c)
        for r in range(2):
            label, y = tw[(j * 2 + r) % len(tw)]
            i += 1
            out.append(({"kind": "tms", "msgs": [c, y] if r == 0 else [y, c], "parse": [[0, 1], [1, 0], [0, 1, 0]][i % 3], "ops": [[], [["repr", 0], ["built", 0]], [["damaged", 1]]][i % 3]}, "tms_twin:" + label))
    # availability: every ordered pair of capability headers
    for a in (None, 0, 1, 2, 3):
        for b in (None, 0, 1, 2, 3):
            if a != b:
                i += 1
                ack, reserved, more_in = FLAGS3[i % 8]
                x = {"pdu": "availability", "ack": ack, "reserved": reserved, "more_in": more_in, "address": _pat(i % 3, i).hex(), "capability": a, "sn": None, "encoding": None}
                out.append(({"kind": "tms", "msgs": [x, dict(x, capability=b)], "parse": [0, 1], "ops": []}, "tms_capability_pairs"))
    return out


def _retained_strategy():
    """batches of a message and near twins of it.  The base messages come from light strategies (short identifiers, short
    addresses and texts - the long ones are the business of the solo sub-checks and of the deterministic boundary twins): what
    matters here is the relation between the messages of a batch"""
    from hypothesis import strategies as st

    ops = st.lists(st.tuples(st.sampled_from(["bytes", "fields", "repr", "built", "parse", "bytes", "damaged"]), st.integers(0, 7)).map(list), max_size=6)
    ident = st.one_of(st.sampled_from([None, "", "1", "11", "999999999", "user", "pw", "\x10", "\u0080", "a" * 127, "a" * 128, "b" * 255]), st.text(max_size=5))
    flags4 = st.tuples(st.booleans(), st.booleans(), st.booleans(), st.booleans())
    second = st.one_of(
        st.none(), st.one_of(st.sampled_from([1, 2, 63, 64, 126, 127]), st.integers(1, 127)).map(lambda n: {"refresh": n}), st.sampled_from(sorted(MR.ARS_FAILURES)).map(lambda n: {"failure": n})
    )

    def ars_msg(t):
        (ack, prio, ctrl, csbk), pdu, ev, d, u, pw, sec = t
        c = {"pdu": pdu, "ack": ack, "priority": prio, "control": ctrl, "csbk": csbk, "event": None, "device": None, "user": None, "password": None, "second": None}
        if pdu in ARS_REGS:
            c.update(event=ev, device=d, user=u, password=pw)
        elif pdu == "response":
            c.update(second=sec)
        return c

    ars_base = st.tuples(flags4, st.sampled_from(["response", "response", "response", "device_reg", "user_reg", "query", "dereg"]), st.sampled_from(ARS_EVENTS_ALL), ident, ident, ident, second).map(ars_msg)
    addr = st.one_of(st.binary(max_size=4), st.sampled_from([b"", b"\x01", b"\x80" * 127, b"\x10" * 128, b"\xff" * 255])).map(bytes.hex)
    sn = st.one_of(st.sampled_from(SN_EDGES), st.integers(0, 127))
    text = st.one_of(st.just(""), st.text(st.characters(max_codepoint=0xFFFF, exclude_categories=["Cs"]), max_size=6), st.sampled_from(CODEC_SPECIALS))

    def tms_msg(t):
        (ack, reserved, more_in, _), pdu, a, cap, n, enc, txt, with_sn = t
        c = {"pdu": pdu, "ack": ack, "reserved": reserved, "more_in": more_in, "address": a, "capability": None, "sn": None, "encoding": None}
        if pdu == "availability":
            c["capability"] = cap
        elif pdu == "ack":
            c["sn"] = n if with_sn else None
        else:
            c.update(sn=n, encoding=enc, message=txt.encode("utf-16-le").hex())
        return c

    tms_base = st.tuples(flags4, st.sampled_from(["availability", "ack", "ack", "text", "text", "text"]), addr, st.one_of(st.none(), st.integers(0, 3)), sn,
                         st.sampled_from([None, "UNDEFINED", "UCS2_LE"]), text, st.sampled_from([True, True, True, False])).map(tms_msg)

    @st.composite
    def batch(draw, kind):
        base, twins = (ars_base, ars_twins) if kind == "ars" else (tms_base, tms_twins)
        msgs = [draw(base)]
        n = draw(st.sampled_from([2, 2, 2, 3, 3, 4]))
        while len(msgs) < n:
            how = draw(st.sampled_from(["twin", "twin", "twin", "twin_of_twin", "fresh", "same"]))
            if how == "fresh":
                msgs.append(draw(base))
            elif how == "same":
                msgs.append(dict(msgs[0]))
            else:
                src = msgs[0] if how == "twin" else msgs[-1]
                tw = twins(src)
                msgs.append(tw[draw(st.integers(0, len(tw) - 1))][1])
        order = draw(st.one_of(st.just(list(range(n))), st.permutations(list(range(n))), st.lists(st.integers(0, n - 1), min_size=2, max_size=6)))
        return {"kind": kind, "msgs": msgs, "parse": list(order), "ops": draw(ops)}

    return st.one_of(batch("ars"), batch("tms"))


def _drv_retained(ctx: Ctx, sub: SubCheck):
    cases = retained_deterministic_cases()

    def work(ch, t: Tally):
        for c, cls in ch:
            ctx.run_case(sub.name, oracle_retained, c, t)
            t.case(sub.name, key=c, nontrivial=True, cls="deterministic:" + cls)
            for k in _retained_classes(c):
                t.cls(sub.name, k)

    ctx.shards(work, [cases[i::32] for i in range(32)])
    ctx.tally.extra.setdefault("deterministic_boundary_cases", {})[sub.name] = len(cases)
    strat = _retained_strategy()

    def rec(c, t: Tally):
        t.case(sub.name, key=c, nontrivial=True)
        for k in _retained_classes(c):
            t.cls(sub.name, k)

    warm_hypothesis_constants()
    ctx.shards(lambda i, t: ctx.hypothesis(sub.name, strat, oracle_retained, ctx.pick(100, 1000), tally=t, shard=i, record=rec), list(range(ctx.pick(16, 48))))

NO_PRELUDE = False  # read by vp.core (Ctx.prelude_enabled) at every case


def drv_retained(ctx: Ctx, sub: SubCheck):
    """The cases of this sub-check are judged by a judge server (vp/isolate.py) that the framework's preludes - which run in the
    calling process - cannot reach: judging a case "again after a prelude" would only repeat the first judgement.  The cases
    carry their own stimulus steps instead, so preludes are switched off while this sub-check runs."""
    global NO_PRELUDE
    NO_PRELUDE = True
    try:
        _drv_retained(ctx, sub)
    finally:
        NO_PRELUDE = False

# ---------------------------------------------------------------------------------------------- preludes (round 7)
#
# Between the two judgements of every 8th case the framework runs these calls: the siblings of what the case does, on
# values taken from the case - the wire image of the case and of its one-field twins parsed (and the parsed object
# inspected and serialised), the header classes applied to the case's header octets with the flag bit flipped, rightly
# refused variants (truncated image, length prefix too large, unassigned PDU type).


def _op_parse(a):
    cls = tms().TextMessagingService if a["kind"] == "tms" else ars().AutomaticRegistrationService
    p = cls.from_bytes(bytes.fromhex(a["hex"]))
    repr(p)
    p.as_bytes()
    len(p) if hasattr(p, "__len__") else None


def _op_headers(a):
    data = bytes.fromhex(a["hex"])
    if a["kind"] == "ars":
        A = ars()
        for cls in (A.FirstHeader, A.ResponseSecondHeader, A.RegistrationRequestHeader):
            try:
                h = cls.from_bytes(data)
                repr(h)
                h.as_bytes()
            except Exception:
                pass
    else:
        T = tms()
        for cls in (T.FirstHeader, T.AvailabilitySecondHeader):
            try:
                h = cls.from_bytes(data)
                repr(h)
                h.as_bytes()
            except Exception:
                pass
        try:
            T.TextMessagingService.decode_sn_and_encoding(data + b"\x00\x00", 0)
        except Exception:
            pass


def _op_build(a):
    build = _tms_build if a["kind"] == "tms" else _ars_build
    msg, _ = build(a["case"])
    msg.as_bytes()
    repr(msg)


PRELUDE_OPS = {"parse": _op_parse, "headers": _op_headers, "build": _op_build}


def _ref_image(kind, c):
    """wire image of a message case by the reference builder (no library call); None when the builder does not cover it"""
    try:
        if kind == "ars":
            second = c.get("second")
            more = (c.get("event") is not None) if c["pdu"] in ARS_REGS else (second is not None) if c["pdu"] == "response" else False
            ack = ("failure" in second) if (c["pdu"] == "response" and second is not None) else bool(c["ack"])
            octet = None if second is None or c["pdu"] != "response" else (MR.ARS_FAILURES[second["failure"]] if "failure" in second else second["refresh"])
            return MR.ars_bytes(c["pdu"], more, ack, bool(c["priority"]), bool(c["control"]), event=MR.ARS_EVENTS[c["event"]] if c.get("event") is not None else None,
                                device=c.get("device"), user=c.get("user"), password=c.get("password"), second=octet, csbk=bool(c.get("csbk")))
        enc = 4 if c.get("encoding") == "UCS2_LE" else 0
        return MR.tms_bytes(c["pdu"], bool(c["ack"]), bool(c["reserved"]), bytes.fromhex(c["address"]), capability=c.get("capability"), sn=c.get("sn"), encoding=enc,
                            message=bytes.fromhex(c.get("message", "")) if c["pdu"] == "text" else b"")
    except Exception:
        return None


def prelude_for(sub, case, rng):
    if sub not in ("tms", "ars"):
        return []
    kind = sub
    calls = []
    twins = (tms_twins if kind == "tms" else ars_twins)(case)
    rng.shuffle(twins)
    img = _ref_image(kind, case)
    for _, y in twins[:3]:
        b = _ref_image(kind, y)
        if b is not None:
            calls.append({"x": "parse", "a": {"kind": kind, "hex": b.hex()}})
        else:
            calls.append({"x": "build", "a": {"kind": kind, "case": y}})
    if img is not None:
        hdr = img[2:]
        # the case's own header octets through every header class, plain and with the top (flag) bit flipped
        tail = img[3 + (0 if kind == "ars" else 1 + len(bytes.fromhex(case["address"]))):] or b"\x00"
        for h in (hdr[:1], bytes([hdr[0] ^ 0x40]), tail[:1], bytes([tail[0] ^ 0x80]), bytes([tail[0] & 0x7F])):
            calls.append({"x": "headers", "a": {"kind": kind, "hex": h.hex()}})
        # rightly refused / damaged variants of the same image
        refused = [img[:-1], img[:2] + bytes([img[2] | 0x0E]) + img[3:], (len(img) + 5).to_bytes(2, "big") + img[2:], img[:3], img + b"\x10\x80"]
        for b in rng.sample(refused, 2):
            calls.append({"x": "parse", "a": {"kind": kind, "hex": b.hex()}})
        # the other family's parser on the same octets
        calls.append({"x": "parse", "a": {"kind": "ars" if kind == "tms" else "tms", "hex": img.hex()}})
    rng.shuffle(calls)
    return calls[:10]


SUBCHECKS = [
    SubCheck("tms", oracle_tms, drv_tms, "TMS availability / acknowledgement / text: length prefix, parse-back fields, fixed point, reference layout"),
    SubCheck("ars", oracle_ars, drv_ars, "ARS registration / query / de-registration / response (+CSBK trailer): length prefix, parse-back fields, fixed point, reference layout"),
    SubCheck("retained", oracle_retained, drv_retained, "batches: parse X, parse near twins of X (one field / one header bit different), then serialise and inspect every kept object again"),
]

PREDICATES = {
    "tms_ack_sequence_number_0": lambda case, fail: case.get("pdu") == "ack" and case.get("sn") == 0,
}
