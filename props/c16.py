"""C16 — Motorola TMS and ARS messages keep length framing and fields over a round trip.

For every message built from fields:  (1) the leading 16-bit length equals the number of bytes that follow;  (2)
X.from_bytes(bytes) has the fields the message was built from (normalisation: None == "" == absent header;
TMSEncoding.UNDEFINED == None; the forced 'reserved' bit of text messages is not compared);  (3) the parsed object
serialises again to the same bytes;  (4) the bytes, decoded by the independent reference decoder of vp/refs/moto_ref.py
(frame layout written from the module doc-strings and the captured messages: 5+2-bit sequence-number split, address /
length-value fields, second headers, CSBK trailer), carry the built fields.  (4) accepts every valid encoding of the same
fields (it does not compare byte-for-byte), so it cannot object to an encoder that, say, always emits the second
sequence-number header.
"""
from __future__ import annotations

from vp.core import Ctx, Fail, SubCheck, Tally, call
from props.c14 import warm_hypothesis_constants
from vp.refs import moto_ref as MR

LEVEL = "exploration"
RULE = (
    "TMS: Hypothesis-generated service availability (with/without capability header, 4 capabilities), acknowledgement "
    "(sequence number absent or 0..127, boundary-biased 0/31/32/63/64/95/96/127) and simple text (address 0..255 arbitrary "
    "octets incl. 0/127/128/255, sequence 0..127, encoding None/UNDEFINED/UCS2-LE, text 0..200 UTF-16 code units incl. "
    "surrogate pairs) with every combination of the acknowledgement / reserved flags and of the has_more_headers value the "
    "builder passes in; plus the complete grid pdu x flags x sequence number (enumeration).  ARS: device / user registration "
    "(optional event+encoding header with the 3 events; device id, user id, password None/''/text of 0..255 UTF-8 bytes incl. "
    "127/128/255), status query, de-registration, response without second header / success with refresh 1..127 / failure "
    "with each of the 4 reasons, all with every combination of acknowledgement / priority / control flags where the flag is "
    "free, CSBK trailer on/off.  Every run also executes a DETERMINISTIC boundary pass: TMS address lengths {0,1,127,128,129,"
    "255} x text lengths {0,1,63,64,65,100,127,128,129,199,200 code units} (patterned and 10/80-filled), address lengths x "
    "every optional-header variant x all flag combinations, address / text contents equal to / starting with / ending with "
    "each octet that means something in the formats (00 04 10 1F 31 3F 74 7F 80 9F BF D0 E0 F0 F5 FF, and 10 80), every "
    "sequence number x address lengths {0,1,127,128,255}; ARS complete cross of the three length-value fields at lengths "
    "{0,1,127,128,129,255} in six content styles (ASCII, ending with 10 so that a following 128-byte field gives 10 80 across "
    "the boundary, all 10, ending with 80 (U+0080), starting C2 80 / ending 00, 3- and 4-octet characters), all 16 flag "
    "combinations x device lengths (first header 10 followed by length 80), special texts (00 10 1F 7F U+0080 U+00FF "
    "U+FFFF U+10FFFF ...) alone / as prefix / as suffix in each field position, None / '' in all combinations; every "
    "character codecs treat specially (U+FEFF, U+FFFE, U+FFFD, NUL, blank, tab, CR, LF, CRLF, NBSP, U+2028, U+8010 / U+1080 "
    "(UTF-16 image 10 80 / 80 10), U+8000, U+0010, U+FFFF, non-BMP, the mis-decoded BOM) alone / at the start / in the middle "
    "/ at the end / doubled / as a run filling the field, in every ARS text field and in the TMS text, and mixed into the "
    "random texts; refresh "
    "times 1..127 and all failure reasons x trailer x flags are complete in the grid.  Distinct by case hash; non-trivial: TMS sequence >= 32 or address >= 128 octets or an "
    "optional header present; ARS optional/second header present or an identifier >= 128 bytes or CSBK trailer."
)
ASSUMPTIONS = [
    "reference layouts in vp/refs/moto_ref.py (unit-checked against the 13 captured messages of test_tms.py / test_ars.py)",
    "text messages are built with a sequence number and a bytes message (b'' for the empty text): the serializer needs both",
    "acknowledgements carry no encoding; service availability carries no sequence number",
    "ARS: has_more_headers is set exactly when the optional / second header is supplied; ResponseSecondHeader is given its "
    "first header through .context(header) before serialising, as from_bytes does (without it as_bytes raises ValueError)",
    "ARS success responses use refresh times 1..127 (0 is rejected by the serializer); USER_DEREGISTRATION_REQUEST and "
    "USER_REGISTRATION_RESPONSE are rejected by the library (ValueError, not implemented) and outside the domain",
]


def tms():
    import okdmr.dmrlib.motorola.text_messaging_service as T

    return T


def ars():
    import okdmr.dmrlib.motorola.automatic_registration_service as A

    return A


def _norm_text(x):
    return x if x else None


# ---------------------------------------------------------------------------------------------- TMS


def oracle_tms(case):
    """case = {pdu: availability|ack|text, ack, reserved, more_in, address: hex, capability: None|0..3, sn: None|0..127,
    encoding: None|UNDEFINED|UCS2_LE, message: hex}"""
    T = tms()
    pdu = case["pdu"]
    ptype = {"availability": T.TMSPDUType.SERVICE_AVAILABILITY, "ack": T.TMSPDUType.TMS_ACKNOWLEDGEMENT, "text": T.TMSPDUType.SIMPLE_TEXT_MESSAGE}[pdu]
    addr = bytes.fromhex(case["address"])
    cap, sn, enc_name = case.get("capability"), case.get("sn"), case.get("encoding")
    enc = None if enc_name is None else T.TMSEncoding[enc_name]
    enc_eff = None if enc_name in (None, "UNDEFINED") else enc
    message = bytes.fromhex(case.get("message", "")) if pdu == "text" else None
    klass = pdu + ("_sn0" if sn == 0 else "")

    _, fh = call(T.FirstHeader, has_more_headers=bool(case.get("more_in")), is_acknowledged=case["ack"], is_reserved=case["reserved"], pdu_type=ptype)
    avail = None
    if cap is not None:
        _, avail = call(T.AvailabilitySecondHeader, T.TMSDeviceCapability(cap))
    _, msg = call(T.TextMessagingService, first_header=fh, address=addr, availability_header=avail, sequence_number=sn, encoding=enc, message=message)
    _, b = call(msg.as_bytes)
    b = bytes(b)
    # (1) framing
    if len(b) < 4 or int.from_bytes(b[:2], "big") != len(b) - 2:
        raise Fail("length_prefix_counts_following_bytes", {"prefix": int.from_bytes(b[:2], "big"), "bytes": b.hex()}, len(b) - 2, klass)
    # (2) fields
    _, p = call(T.TextMessagingService.from_bytes, b)
    if p is None:
        raise Fail("parses_back", None, "a TextMessagingService", klass)
    exp_more = {"availability": cap is not None, "ack": sn is not None, "text": True}[pdu]
    got = {
        "pdu_type": p.header.pdu_type.name, "is_acknowledged": p.header.is_acknowledged, "is_control_message": p.header.is_control_message,
        "has_more_headers": p.header.has_more_headers, "address": bytes(p.address).hex(),
        "capability": p.availability_header.capability.value if p.availability_header is not None else None,
        "sequence_number": p.sequence_number, "encoding": None if p.encoding in (None, T.TMSEncoding.UNDEFINED) else p.encoding.name,
        "message": bytes(p.message).hex() if p.message else None,
    }
    exp = {
        "pdu_type": ptype.name, "is_acknowledged": bool(case["ack"]), "is_control_message": pdu != "text",
        "has_more_headers": exp_more, "address": addr.hex(), "capability": cap,
        "sequence_number": sn, "encoding": enc_eff.name if enc_eff is not None else None,
        "message": message.hex() if message else None,
    }
    if pdu != "text":
        got["is_reserved"], exp["is_reserved"] = p.header.is_reserved, bool(case["reserved"])
    if pdu == "ack":
        # an acknowledgement has no encoding field of its own
        got["encoding"] = exp["encoding"] = None
    if got != exp:
        diff = {k: [got[k], exp[k]] for k in exp if got[k] != exp[k]}
        raise Fail("parsed_fields_equal_built_fields", {k: v[0] for k, v in diff.items()}, {k: v[1] for k, v in diff.items()}, klass)
    # (3) fixed point
    _, b2 = call(p.as_bytes)
    if bytes(b2) != b:
        raise Fail("parsed_message_serialises_to_same_bytes", bytes(b2).hex(), b.hex(), klass)
    # (4) reference layout: the octets, decoded by layout knowledge alone, carry the built fields
    try:
        r = MR.tms_parse(b)
    except (MR.LayoutError, IndexError) as e:
        raise Fail("wire_image_follows_reference_layout", f"{b.hex()}: {e}", "decodable by the documented layout", klass)
    got_r = {"pdu": r["pdu"], "ack": r["ack"], "address": r["address"].hex(), "capability": r["capability"], "sn": r["sn"],
             "encoding": None if pdu == "ack" else r["encoding"], "message": r["message"].hex() if r["message"] else None, "more": r["more"]}
    exp_r = {"pdu": pdu, "ack": bool(case["ack"]), "address": addr.hex(), "capability": cap, "sn": sn,
             "encoding": None if pdu == "ack" else (enc_eff.value if enc_eff is not None else 0), "message": message.hex() if message else None, "more": exp_more}
    if pdu != "text":
        got_r["reserved"], exp_r["reserved"] = r["reserved"], bool(case["reserved"])
    if got_r != exp_r:
        diff = {k: [got_r[k], exp_r[k]] for k in exp_r if got_r[k] != exp_r[k]}
        raise Fail("wire_image_decodes_to_built_fields_by_reference_layout", {"bytes": b.hex(), **{k: v[0] for k, v in diff.items()}}, {k: v[1] for k, v in diff.items()}, klass)


# ---------------------------------------------------------------------------------------------- ARS


def oracle_ars(case):
    """case = {pdu: device_reg|user_reg|query|dereg|response, ack, priority, control, event: None|name, device, user, password:
    None|str, second: None|{refresh: n}|{failure: name}, csbk}"""
    A = ars()
    pdu = case["pdu"]
    ptype = {
        "device_reg": A.ARSPDUType.DEVICE_REGISTRATION_REQUEST, "user_reg": A.ARSPDUType.USER_REGISTRATION_REQUEST, "query": A.ARSPDUType.STATUS_QUERY_REQUEST,
        "dereg": A.ARSPDUType.DEVICE_DEREGISTATION_NOTICE, "response": A.ARSPDUType.ARS_DEVICE_OR_QUERY_RESPONSE,
    }[pdu]
    event, second, csbk = case.get("event"), case.get("second"), bool(case.get("csbk"))
    more = (event is not None) if pdu in ("device_reg", "user_reg") else (second is not None) if pdu == "response" else False
    ack = bool(case["ack"])
    if pdu == "response" and second is not None:
        ack = "failure" in second  # the acknowledgement flag of a response selects failure reason / refresh time
    klass = pdu
    _, fh = call(A.FirstHeader, has_more_headers=more, is_acknowledged=ack, is_priority=case["priority"], is_control_message=case["control"], pdu_type=ptype)
    reg = rsh = None
    if pdu in ("device_reg", "user_reg") and event is not None:
        _, reg = call(A.RegistrationRequestHeader, event=A.RegistrationEvent[event], encoding=A.Encoding.UTF8)
    second_octet = None
    if pdu == "response" and second is not None:
        if "failure" in second:
            _, rsh = call(A.ResponseSecondHeader, failure_reason=A.FailureReason[second["failure"]])
            second_octet = MR.ARS_FAILURES[second["failure"]]
        else:
            _, rsh = call(A.ResponseSecondHeader, refresh_time=second["refresh"])
            second_octet = second["refresh"]
        rsh.context(fh)
    kw = {}
    if pdu in ("device_reg", "user_reg"):
        kw = {"device_identifier": case.get("device"), "user_identifier": case.get("user"), "password": case.get("password")}
    _, msg = call(A.AutomaticRegistrationService, first_header=fh, registration_request_header=reg, response_second_header=rsh, is_csbk_ars=csbk, **kw)
    _, b = call(msg.as_bytes)
    b = bytes(b)
    if len(b) < 3 or int.from_bytes(b[:2], "big") != len(b) - 2:
        raise Fail("length_prefix_counts_following_bytes", {"prefix": int.from_bytes(b[:2], "big"), "bytes": b.hex()}, len(b) - 2, klass)
    _, p = call(A.AutomaticRegistrationService.from_bytes, b)
    got = {
        "pdu_type": p.header.pdu_type.name, "has_more_headers": p.header.has_more_headers, "is_acknowledged": p.header.is_acknowledged,
        "is_priority": p.header.is_priority, "is_control_message": p.header.is_control_message, "is_csbk_ars": p.is_csbk_ars,
        "event": p.registration_request_header.event.name if p.registration_request_header is not None else None,
        "encoding": p.registration_request_header.encoding.name if p.registration_request_header is not None else None,
        "device_identifier": _norm_text(p.device_identifier), "user_identifier": _norm_text(p.user_identifier), "password": _norm_text(p.password),
        "second_header_present": p.response_second_header is not None,
    }
    exp = {
        "pdu_type": ptype.name, "has_more_headers": more, "is_acknowledged": ack, "is_priority": bool(case["priority"]), "is_control_message": bool(case["control"]),
        "is_csbk_ars": csbk, "event": event, "encoding": "UTF8" if event is not None else None,
        "device_identifier": _norm_text(kw.get("device_identifier")), "user_identifier": _norm_text(kw.get("user_identifier")), "password": _norm_text(kw.get("password")),
        "second_header_present": rsh is not None,
    }
    if rsh is not None and p.response_second_header is not None:
        if "failure" in second:
            got["failure_reason"] = p.response_second_header.failure_reason.name if p.response_second_header.failure_reason is not None else None
            exp["failure_reason"] = second["failure"]
        else:
            got["refresh_time"], exp["refresh_time"] = p.response_second_header.refresh_time, second["refresh"]
    if got != exp:
        diff = {k: [got.get(k), exp[k]] for k in exp if got.get(k) != exp[k]}
        raise Fail("parsed_fields_equal_built_fields", {k: v[0] for k, v in diff.items()}, {k: v[1] for k, v in diff.items()}, klass)
    _, b2 = call(p.as_bytes)
    if bytes(b2) != b:
        raise Fail("parsed_message_serialises_to_same_bytes", bytes(b2).hex(), b.hex(), klass)
    try:
        r = MR.ars_parse(b)
    except (MR.LayoutError, IndexError, UnicodeDecodeError) as e:
        raise Fail("wire_image_follows_reference_layout", f"{b.hex()}: {e}", "decodable by the documented layout", klass)
    got_r = {k: r[k] for k in ("pdu", "more", "ack", "priority", "control", "event", "second", "csbk")}
    got_r.update({k: _norm_text(r[k]) for k in ("device", "user", "password")})
    exp_r = {"pdu": pdu, "more": more, "ack": ack, "priority": bool(case["priority"]), "control": bool(case["control"]),
             "event": MR.ARS_EVENTS[event] if event is not None else None, "second": second_octet, "csbk": csbk,
             "device": _norm_text(kw.get("device_identifier")), "user": _norm_text(kw.get("user_identifier")), "password": _norm_text(kw.get("password"))}
    if got_r != exp_r:
        diff = {k: [got_r[k], exp_r[k]] for k in exp_r if got_r[k] != exp_r[k]}
        raise Fail("wire_image_decodes_to_built_fields_by_reference_layout", {"bytes": b.hex(), **{k: v[0] for k, v in diff.items()}}, {k: v[1] for k, v in diff.items()}, klass)


# ---------------------------------------------------------------------------------------------- classes


def tms_nontrivial(c) -> bool:
    return (c.get("sn") or 0) >= 32 or len(c["address"]) // 2 >= 128 or c.get("capability") is not None or c.get("sn") is not None


def tms_classes(c):
    out = [c["pdu"]]
    sn = c.get("sn")
    out.append("sn_absent" if sn is None else "sn_0" if sn == 0 else "sn_1-31" if sn < 32 else "sn_32-127")
    n = len(c["address"]) // 2
    out.append("addr_0" if n == 0 else "addr_1-127" if n < 128 else "addr_128-255")
    if c["pdu"] == "text":
        out.append("enc_" + str(c.get("encoding")))
        m = len(c.get("message", "")) // 4
        out.append("text_0" if m == 0 else "text_1-50" if m <= 50 else "text_51-200")
    if c["pdu"] == "availability":
        out.append("cap_" + str(c.get("capability")))
    return out


def ars_nontrivial(c) -> bool:
    return c.get("event") is not None or c.get("second") is not None or bool(c.get("csbk")) or any(len((c.get(k) or "").encode()) >= 128 for k in ("device", "user", "password"))


def ars_classes(c):
    out = [c["pdu"]]
    if c.get("csbk"):
        out.append("csbk")
    if c["pdu"] in ("device_reg", "user_reg"):
        out.append("event_" + str(c.get("event")))
        for k in ("device", "user", "password"):
            v = c.get(k)
            n = len((v or "").encode())
            out.append(f"{k}_" + ("none" if v is None else "empty" if n == 0 else "1-127" if n < 128 else "128-255"))
    if c["pdu"] == "response":
        s = c.get("second")
        out.append("second_none" if s is None else "success" if "refresh" in s else "failure_" + s["failure"])
    return out


# ---------------------------------------------------------------------------------------------- strategies / drivers

# characters that text codecs treat specially (BOM / byte-order marks, replacement character, NUL, white space, line ends,
# non-BMP) and characters whose UTF-16-LE image contains octets that mean something in the frame (10 80 trailer, 00 00,
# length / header octets)
CODEC_SPECIALS = ["\ufeff", "\ufffe", "\ufffd", "\x00", " ", "\t", "\r", "\n", "\r\n", "\u00a0", "\u2028", "\u8010", "\u1080", "\u8000", "\u0010", "\uffff", "\u00ff", "\u0080",
                  "\U00010000", "\U0001f600", "\U0010ffff", "\u00ef\u00bb\u00bf"]


def special_text_shapes(x: str):
    """x alone, at the start, in the middle, at the end, doubled, and as a long homogeneous run"""
    return [x, x + "a", "a" + x + "b", "ab" + x, x + x, x + "a" + x, " " + x, x + " "]


SN_EDGES = [0, 1, 30, 31, 32, 33, 63, 64, 65, 95, 96, 97, 126, 127]


def _tms_strategy():
    from hypothesis import strategies as st

    addr = st.one_of(st.binary(max_size=6), st.sampled_from([0, 1, 127, 128, 129, 254, 255]).flatmap(lambda n: st.binary(min_size=n, max_size=n)), st.binary(max_size=255)).map(bytes.hex)
    sn = st.one_of(st.sampled_from(SN_EDGES), st.integers(0, 127))
    bmp = st.characters(max_codepoint=0xFFFF, exclude_categories=["Cs"])
    spiced = st.one_of(st.sampled_from(CODEC_SPECIALS), st.sampled_from(CODEC_SPECIALS), st.characters(min_codepoint=0x20, max_codepoint=0x7E), bmp)
    text = st.one_of(st.just(""), st.text(bmp, min_size=1, max_size=20), st.text(bmp, min_size=21, max_size=200), st.text(min_size=1, max_size=100),
                     st.sampled_from([51, 128, 199, 200]).flatmap(lambda n: st.text(bmp, min_size=n, max_size=n)),
                     st.lists(spiced, min_size=1, max_size=12).map("".join), st.lists(spiced, min_size=1, max_size=100).map(lambda l: "".join(l)[:100]))
    message = text.map(lambda s: s.encode("utf-16-le").hex())
    flags = st.tuples(st.booleans(), st.booleans(), st.booleans())

    def mk(pdu):
        def f(t):
            (ack, reserved, more_in), a, rest = t
            c = {"pdu": pdu, "ack": ack, "reserved": reserved, "more_in": more_in, "address": a, "capability": None, "sn": None, "encoding": None}
            c.update(rest)
            return c

        return f

    avail = st.tuples(flags, addr, st.one_of(st.none(), st.integers(0, 3)).map(lambda c: {"capability": c})).map(mk("availability"))
    ack = st.tuples(flags, addr, st.one_of(st.none(), sn).map(lambda s: {"sn": s})).map(mk("ack"))
    txt = st.tuples(flags, addr, st.tuples(sn, st.sampled_from([None, "UNDEFINED", "UCS2_LE", "UCS2_LE"]), message).map(lambda t: {"sn": t[0], "encoding": t[1], "message": t[2]})).map(mk("text"))
    return st.one_of(avail, ack, ack, txt, txt, txt)


def _fit255(s: str) -> str:
    while len(s.encode("utf-8")) > 255:
        s = s[: len(s) - 1 - (len(s.encode("utf-8")) - 255) // 4]
    return s


def _ars_strategy():
    from hypothesis import strategies as st

    ident = st.one_of(
        st.none(), st.just(""), st.text(max_size=12), st.text(st.characters(min_codepoint=0x30, max_codepoint=0x39), min_size=1, max_size=10),
        st.sampled_from([1, 127, 128, 254, 255]).flatmap(lambda n: st.text(st.characters(min_codepoint=0x20, max_codepoint=0x7E), min_size=n, max_size=n)),
        st.text(max_size=255).map(_fit255),
        st.lists(st.one_of(st.sampled_from(CODEC_SPECIALS), st.sampled_from(CODEC_SPECIALS), st.characters(min_codepoint=0x20, max_codepoint=0x7E), st.characters(codec="utf-8")), min_size=1, max_size=10).map("".join),
        st.lists(st.one_of(st.sampled_from(CODEC_SPECIALS), st.characters(min_codepoint=0x20, max_codepoint=0x7E)), min_size=1, max_size=120).map("".join).map(_fit255),
    )
    flags = st.tuples(st.booleans(), st.booleans(), st.booleans(), st.booleans())

    def base(pdu, t):
        ack, prio, ctrl, csbk = t
        return {"pdu": pdu, "ack": ack, "priority": prio, "control": ctrl, "csbk": csbk, "event": None, "device": None, "user": None, "password": None, "second": None}

    def reg(pdu):
        return st.tuples(flags, st.sampled_from([None, "DONT_CARE", "INITIAL", "REFRESH"]), ident, ident, ident).map(
            lambda t: dict(base(pdu, t[0]), event=t[1], device=t[2], user=t[3], password=t[4])
        )

    second = st.one_of(
        st.none(),
        st.one_of(st.sampled_from([1, 2, 63, 64, 126, 127]), st.integers(1, 127)).map(lambda n: {"refresh": n}),
        st.sampled_from(sorted(MR.ARS_FAILURES)).map(lambda n: {"failure": n}),
    )
    resp = st.tuples(flags, second).map(lambda t: dict(base("response", t[0]), second=t[1]))
    simple = st.tuples(st.sampled_from(["query", "dereg"]), flags).map(lambda t: base(t[0], t[1]))
    return st.one_of(reg("device_reg"), reg("user_reg"), resp, simple)


# ---------------------------------------------------------------------------------------------- deterministic boundary passes

LENS = [0, 1, 127, 128, 129, 255]
# octets that mean something somewhere in the two formats: CSBK trailer 10 80, LV terminator / empty 00, failure reason FF,
# first-header values (1F 9F BF 3F D0 E0 F0 F5 74 31), more-headers bit 80, 5-bit masks 1F / 7F, encoding 04
DELIMS = [0x00, 0x04, 0x10, 0x1F, 0x31, 0x3F, 0x74, 0x7F, 0x80, 0x9F, 0xBF, 0xD0, 0xE0, 0xF0, 0xF5, 0xFF]
TEXT_UNITS = [0, 1, 63, 64, 65, 100, 127, 128, 129, 199, 200]
FLAGS3 = [(a, b, c) for a in (False, True) for b in (False, True) for c in (False, True)]
FLAGS4 = [(a, b, c, d) for a in (False, True) for b in (False, True) for c in (False, True) for d in (False, True)]


def _pat(n: int, salt: int) -> bytes:
    return bytes((salt + 7 * i) & 0xFF for i in range(n))


def tms_boundary_cases():
    out = []

    def add(cls, pdu, i, address: bytes, **kw):
        ack, reserved, more_in = FLAGS3[i % 8]
        c = {"pdu": pdu, "ack": ack, "reserved": reserved, "more_in": more_in, "address": address.hex(), "capability": None, "sn": None, "encoding": None}
        c.update(kw)
        out.append((c, cls))

    i = 0
    # address length x text length (adjacent variable-length fields), patterned and delimiter-filled contents
    for la in LENS:
        for lt in TEXT_UNITS:
            for fill in (None, 0x10, 0x80):
                i += 1
                addr = _pat(la, i) if fill is None else bytes([fill]) * la
                msg = _pat(2 * lt, 3 * i) if fill is None else bytes([0x10, 0x80]) * lt
                add("addr_len_x_text_len", "text", i, addr, sn=[0, 31, 32, 127, 16, 96][i % 6], encoding=[None, "UCS2_LE", "UNDEFINED"][i % 3], message=msg.hex())
    # address length x the PDUs without payload, every optional-header variant
    for la in LENS:
        for k, sn in enumerate([None, 0, 16, 31, 32, 127]):
            for fl in range(8):
                add("addr_len_x_ack", "ack", fl, _pat(la, la + k), sn=sn)
        for cap in (None, 0, 1, 2, 3):
            for fl in range(8):
                add("addr_len_x_availability", "availability", fl, _pat(la, la + 1), capability=cap)
    # address / text contents equal to, starting with and ending with every meaningful octet
    for x in DELIMS:
        for k, addr in enumerate([bytes([x]), bytes([x, 0x41]), bytes([0x41, x]), bytes([x, x]), bytes([x]) * 127, bytes([x]) * 128, bytes([x]) * 255, bytes([0x10, 0x80]),
                                  bytes([0x41, 0x10, 0x80]), bytes([0x10, 0x80, 0x41]), bytes([x, 0x10, 0x80]), bytes([0x10, 0x80, x])]):
            i += 1
            add("addr_content", "availability", i, addr, capability=[None, 0, 3][k % 3])
            add("addr_content", "ack", i + 1, addr, sn=[None, 0, x & 0x7F][k % 3])
            add("addr_content", "text", i + 2, addr, sn=x & 0x7F, encoding=[None, "UCS2_LE"][k % 2], message=bytes([x, x]).hex())
        for k, msg in enumerate([bytes([x, x]), bytes([0x41, 0, x, x]), bytes([x, x, 0x41, 0]), bytes([x, 0]), bytes([0, x]), bytes([0x10, 0x80]), bytes([x, x]) * 100, bytes([0x10, 0x80, x, x]), bytes([x, x, 0x10, 0x80])]):
            i += 1
            add("text_content", "text", i, bytes([x])[: k % 2], sn=[0, 16, 31, 32, 64, 127][k % 6], encoding=[None, "UCS2_LE"][k % 2], message=msg.hex())
    # texts with the characters codecs treat specially: alone / start / middle / end / doubled / long homogeneous runs
    for x in CODEC_SPECIALS:
        per = 2 if ord(x[0]) > 0xFFFF else 1
        shapes = special_text_shapes(x) + [x * (100 // (per * len(x))), x * (200 // (per * len(x))), "a" * 99 + x, x + "a" * (199 - per * len(x))]
        for k, txt in enumerate(shapes):
            i += 1
            add("text_codec_special", "text", i, _pat([0, 1, 2, 128][k % 4], i), sn=[0, 31, 32, 127][k % 4], encoding=[None, "UCS2_LE", "UCS2_LE"][k % 3], message=txt.encode("utf-16-le").hex())
    # sequence numbers: complete range x address length x flag combinations (grid covers the short-address part completely)
    for sn in range(128):
        for k, la in enumerate([0, 1, 127, 128, 255]):
            add("sn_x_addr_len", "ack", sn + k, _pat(la, sn), sn=sn)
            add("sn_x_addr_len", "text", sn + k + 3, _pat(la, sn + 1), sn=sn, encoding=[None, "UCS2_LE"][(sn + k) % 2], message=_pat(2 * (sn % 5), sn).hex())
    return out


def _s(nbytes: int, style: str) -> str:
    """text whose UTF-8 form has exactly nbytes octets; style selects the last / first octets"""
    if nbytes == 0:
        return ""
    if style == "ascii":
        return "".join(chr(0x30 + (i * 7) % 75) for i in range(nbytes))
    if style == "ends_10":  # last octet = first trailer octet (the next field's length octet may be 80)
        return _s(nbytes - 1, "ascii") + "\x10"
    if style == "all_10":
        return "\x10" * nbytes
    if style == "ends_80":  # U+0080 = C2 80
        return ("\x10" if nbytes % 2 else "") + "\u0080" * (nbytes // 2) if nbytes >= 2 else "\x10"
    if style == "starts_80ish":  # first octets C2 80 .. and last octet 00
        return ("\u0080" * (nbytes // 2) + ("\x00" if nbytes % 2 else "")) if nbytes >= 2 else "\x00"
    if style == "wide":  # 3- and 4-octet characters (EF BF BF / F0 90 80 80), padded with FF-adjacent U+00FF (C3 BF)
        out, left = "", nbytes
        while left >= 4:
            out += "\U00010000" if (left // 4) % 2 else "\uffff\x7f"
            left -= 4
        return out + {0: "", 1: "\x7f", 2: "\u00ff", 3: "\uffff"}[left]
    raise ValueError(style)


STYLES = ["ascii", "ends_10", "all_10", "ends_80", "starts_80ish", "wide"]
SPECIAL_TEXTS = ["\x00", "\x10", "\x1f", "\x7f", "\u0080", "\u00ff", "\x10\u0080", "\u0080\x10", "\x10\x10", "\x00\x00", "\uffff", "\U0010ffff", "\x10\x80"[:1] + "\u0410"]


def ars_boundary_cases():
    out = []

    def add(cls, pdu, i, **kw):
        ack, prio, ctrl, csbk = FLAGS4[i % 16]
        c = {"pdu": pdu, "ack": ack, "priority": prio, "control": ctrl, "csbk": csbk, "event": None, "device": None, "user": None, "password": None, "second": None}
        c.update(kw)
        out.append((c, cls))

    i = 0
    # three adjacent length-value fields: complete cross of the boundary lengths, six content styles
    for ld in LENS:
        for lu in LENS:
            for lp in LENS:
                for k, style in enumerate(STYLES):
                    i += 1
                    add("lv_len_cross:" + style, ["device_reg", "user_reg"][i % 2], i, event=[None, "INITIAL", "DONT_CARE", "REFRESH"][(i // 2) % 4],
                        device=_s(ld, style), user=_s(lu, style), password=_s(lp, style), csbk=bool((i // 3) % 2))
    # first header x device length (header octet 10 followed by length octet 80 etc.): every flag combination
    for fl in range(16):
        for ev in (None, "INITIAL"):
            for ld in LENS:
                for csbk in (False, True):
                    add("flags_x_device_len", "device_reg", fl, event=ev, device=_s(ld, "ends_10"), user=None, password=None, csbk=csbk)
    # field contents equal to / starting with / ending with the special octets, in each field position
    for x in SPECIAL_TEXTS:
        for var in (x, x + "a", "a" + x, x + x):
            for pos in ("device", "user", "password"):
                for csbk in (False, True):
                    i += 1
                    kw = {"device": "11", "user": "9", "password": "p"}
                    kw[pos] = var
                    add("special_content:" + pos, ["device_reg", "user_reg"][i % 2], i, event=[None, "REFRESH"][i % 2], csbk=csbk, **kw)
                    kw2 = {"device": None, "user": None, "password": None}
                    kw2[pos] = var
                    add("special_content_alone:" + pos, ["user_reg", "device_reg"][i % 2], i + 5, event=[None, "INITIAL"][i % 2], csbk=csbk, **kw2)
    # the characters codecs treat specially (BOM, U+FFFE, U+FFFD, NUL, blanks, CR / LF, non-BMP, the mis-decoded BOM "ï»¿"),
    # alone / start / middle / end / doubled, and as runs filling the field, in each field position
    for x in CODEC_SPECIALS:
        nb = len(x.encode("utf-8"))
        shapes = special_text_shapes(x) + [x * (127 // nb), x * (128 // nb), x * (255 // nb), "a" * (255 - nb) + x, x + "a" * (255 - nb)]
        for k, var in enumerate(shapes):
            for pos in ("device", "user", "password"):
                i += 1
                kw = {"device": "11", "user": "9", "password": "p"}
                kw[pos] = var
                add("codec_special:" + pos, ["device_reg", "user_reg"][i % 2], i, event=[None, "REFRESH", "INITIAL"][i % 3], csbk=bool(k % 2), **kw)
        # all three fields at once, and the special field between two empty ones
        i += 1
        add("codec_special:all_fields", "user_reg", i, event="DONT_CARE", device=x, user=x + "u", password="p" + x, csbk=bool(i % 2))
        add("codec_special:alone", "device_reg", i + 1, event=None, device=None, user=x, password=None, csbk=bool(i % 2))
    # None / "" / absent in every combination
    for d in (None, "", "1"):
        for u in (None, "", "2"):
            for pw in (None, "", "3"):
                for csbk in (False, True):
                    i += 1
                    add("empty_fields", ["device_reg", "user_reg"][i % 2], i, event=[None, "INITIAL"][i % 2], device=d, user=u, password=pw, csbk=csbk)
    return out


def _run_boundary(ctx: Ctx, sub: SubCheck, oracle, cases, nontrivial):
    def work(ch, t: Tally):
        for c, cls in ch:
            ctx.run_case(sub.name, oracle, c, t)
            t.case(sub.name, key=c, nontrivial=nontrivial(c), cls="boundary:" + cls)

    ctx.shards(work, [cases[i::32] for i in range(32)])
    ctx.tally.extra.setdefault("deterministic_boundary_cases", {})[sub.name] = len(cases)


def drv_tms(ctx: Ctx, sub: SubCheck):
    # complete grid: pdu x flags x sequence number (x capability) with a short address
    grid = []
    for ack in (False, True):
        for reserved in (False, True):
            for more_in in (False, True):
                b = {"ack": ack, "reserved": reserved, "more_in": more_in, "address": "01" if ack else "", "capability": None, "sn": None, "encoding": None}
                for cap in (None, 0, 1, 2, 3):
                    grid.append(dict(b, pdu="availability", capability=cap))
                for sn in [None] + list(range(128)):
                    grid.append(dict(b, pdu="ack", sn=sn))
                for sn in range(128):
                    for enc in (None, "UNDEFINED", "UCS2_LE"):
                        grid.append(dict(b, pdu="text", sn=sn, encoding=enc, message="6100" if sn % 2 else ""))

    def work(ch, t: Tally):
        for c in ch:
            ctx.run_case(sub.name, oracle_tms, c, t)
            t.case(sub.name, key=c, nontrivial=tms_nontrivial(c))
            for k in tms_classes(c):
                t.cls(sub.name, "grid:" + k)

    ctx.shards(work, [grid[i::16] for i in range(16)])
    _run_boundary(ctx, sub, oracle_tms, tms_boundary_cases(), tms_nontrivial)
    strat = _tms_strategy()

    def rec(c, t: Tally):
        t.case(sub.name, key=c, nontrivial=tms_nontrivial(c))
        for k in tms_classes(c):
            t.cls(sub.name, k)

    warm_hypothesis_constants()
    ctx.shards(lambda i, t: ctx.hypothesis(sub.name, strat, oracle_tms, ctx.pick(2800, 14000), tally=t, shard=i, record=rec), list(range(ctx.pick(16, 80))))


def drv_ars(ctx: Ctx, sub: SubCheck):
    # complete grid over the small fields
    grid = []
    for ack in (False, True):
        for prio in (False, True):
            for ctrl in (False, True):
                for csbk in (False, True):
                    b = {"ack": ack, "priority": prio, "control": ctrl, "csbk": csbk, "event": None, "device": None, "user": None, "password": None, "second": None}
                    for pdu in ("query", "dereg"):
                        grid.append(dict(b, pdu=pdu))
                    for pdu in ("device_reg", "user_reg"):
                        for ev in (None, "DONT_CARE", "INITIAL", "REFRESH"):
                            grid.append(dict(b, pdu=pdu, event=ev, device="11", user=("999999999" if pdu == "user_reg" else None), password=("pw" if csbk else None)))
                    grid.append(dict(b, pdu="response"))
                    if not ack:
                        for n in range(1, 128):
                            grid.append(dict(b, pdu="response", second={"refresh": n}))
                    else:
                        for f in sorted(MR.ARS_FAILURES):
                            grid.append(dict(b, pdu="response", second={"failure": f}))

    def work(ch, t: Tally):
        for c in ch:
            ctx.run_case(sub.name, oracle_ars, c, t)
            t.case(sub.name, key=c, nontrivial=ars_nontrivial(c))
            for k in ars_classes(c):
                t.cls(sub.name, "grid:" + k)

    ctx.shards(work, [grid[i::16] for i in range(16)])
    _run_boundary(ctx, sub, oracle_ars, ars_boundary_cases(), ars_nontrivial)
    strat = _ars_strategy()

    def rec(c, t: Tally):
        t.case(sub.name, key=c, nontrivial=ars_nontrivial(c))
        for k in ars_classes(c):
            t.cls(sub.name, k)

    warm_hypothesis_constants()
    ctx.shards(lambda i, t: ctx.hypothesis(sub.name, strat, oracle_ars, ctx.pick(2400, 12000), tally=t, shard=i, record=rec), list(range(ctx.pick(16, 80))))


SUBCHECKS = [
    SubCheck("tms", oracle_tms, drv_tms, "TMS availability / acknowledgement / text: length prefix, parse-back fields, fixed point, reference layout"),
    SubCheck("ars", oracle_ars, drv_ars, "ARS registration / query / de-registration / response (+CSBK trailer): length prefix, parse-back fields, fixed point, reference layout"),
]

PREDICATES = {
    "tms_ack_sequence_number_0": lambda case, fail: case.get("pdu") == "ack" and case.get("sn") == 0,
}
