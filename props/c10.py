"""C10 — rate 3/4 trellis coding is lossless for every 144-bit block.

Everything goes through the public functions of okdmr/dmrlib/etsi/fec/trellis.py (no table of the library is read):
structure — dibit<->bit-pair and point<->dibit-pair maps are bijections, interleave/deinterleave are inverse permutations
of 98 positions, the 8x8 (state, tribit) transition table derived from the encodings of the 64 alternating blocks has 8
distinct points in every state row and is position-independent; end to end — encode gives 196 bits, decode returns the
block for bits and bytes input; rejection — a stream whose point at some position is one the encoder state there cannot
emit raises instead of returning a block.
"""
from __future__ import annotations

from array import array

from bitarray import bitarray, frozenbitarray

from vp.core import Ctx, Fail, HarnessError, SubCheck, Tally, call
from vp.refs import trellis34_ref as tref

LEVEL = "exploration"
RULE = (
    "structure (complete, both tiers): all 4 bit pairs, all 16 constellation points and all 16 dibit pairs through the "
    "library's maps; the marker array 0..97 and all 98 unit arrays through interleave/deinterleave; the 64 alternating "
    "blocks (a,b,a,b,…) which put every (previous tribit, tribit) pair at every position 1..47, from which the 8x8 "
    "transition table is derived via the library's own inverse maps; all 8 state rows.  End to end: the 64 alternating, 8 "
    "all-equal and 48x7 single-tribit blocks plus Hypothesis-drawn blocks (uniform octets, sparse, few-symbol alphabets), "
    "each as bitarray and as bytes, and again in other containers (encode: frozenbitarray; decode: little-endian bitarray, "
    "frozenbitarray of either bit order).  Transformed codewords: 16 wrong-path images (interleave skipped / applied twice / "
    "inverse applied, bits / dibits / points reversed, complemented, rotated by one bit / dibit / point either way, halves "
    "swapped, dibits of a point or bits of a dibit swapped) of the alternating, constant and seeded random codewords, "
    "judged by the independent trellis reference and by the library-derived structure; those both call invalid must be "
    "rejected in every container.  Rejection: (block, position 0..48, each of the 8 points the state at that position "
    "cannot emit) patched into the encoded stream through the library's maps — complete over positions x points for the "
    "chosen blocks (all 64 alternating blocks plus 4 / 60 seeded random blocks).  Distinct by construction "
    "(enumerations) / by hash (Hypothesis).  Non-trivial: blocks with >= 3 distinct tribits; every patched stream; "
    "alternating blocks with a != b.  Interleaved histories: judged operations (round trip in three input forms, decode of an "
    "encoder-made stream in four containers, rejection of an unemittable point) with stimulus in between - every other way of "
    "calling trellis.py on values derived from the judged block or a near twin of it: valid paths with flush tribit 1..7, streams "
    "refused at position k, wrong lengths, refused / out-of-domain encode arguments, the public state walks called directly "
    "(no flush, flush != 0, tribit out of range at k, fewer than 49 points), every helper with valid / short / long / garbage "
    "arguments and its result scribbled on; complete over the stimulus shapes x 7 judged operations (directed) plus seeded "
    "random histories of 2..9 operations; retained results are compared with their snapshots at the end and every block is "
    "round-tripped once more; non-trivial = a judged operation follows a stimulus, or near twins.  The same stimuli serve as "
    "the module's prelude (prelude_for) for every 8th case of all other sub-checks."
)
ASSUMPTIONS = [
    "blocks are big-endian bitarrays of exactly 144 bits or bytes of exactly 18 octets (what Burst passes); containers are only "
    "varied where the unchanged tree accepts them and is right (probed 2026-09: encode - big-endian bitarray, frozenbitarray, "
    "bytes; NOT little-endian bitarrays (tribits are read with ba2int) and NOT bytearray / memoryview (rejected by the length "
    "assertion); decode - bitarray of either bit order, frozen or not)",
    "reject_transformed uses vp/refs/trellis34_ref.py (structure of ETSI tables B.7-B.9) only to build codewords and to judge "
    "streams, and claims rejection only where the library-derived structure agrees that the stream is invalid",
    "'a constellation point that no encoder state can emit' is read as: a point that the encoder state at that position "
    "(= previous tribit, 0 at the start) cannot emit — every one of the 16 points is emitted by some state, so the literal "
    "reading would be empty",
    "rejection = any exception raised by Trellis34.decode (AssertionError today); returning a value is the violation",
    "the check does not compare the interleave order or the transition table with ETSI TS 102 361-1 tables B.8/B.9: the "
    "statement claims losslessness, inverse permutations and rejection, not conformance (the repository's captured "
    "vectors cover conformance)",
    "interleaved / preludes: a stimulus (direct call of a public helper, a stream this encoder cannot produce, a refused or "
    "out-of-domain call, built from the reference so that it does not depend on library state) is never judged - only the "
    "operations of the statement around it are; a worker stops after its first failing history so that every reported history "
    "is self-contained (replays in a fresh interpreter)",
]


REJECTIONS = (TypeError, AttributeError, ValueError, NotImplementedError)  # policy of vp/containers.py: a clean rejection of a
# non-default container is 'not accepted' (outside the property), never a violation; once accepted the result must be right
ENCODE_REPS = ["frozen_big"]
DECODE_REPS = ["little", "frozen_big", "frozen_little"]


def make_bits(s, rep="big"):
    b = bitarray(s, endian="little" if rep.endswith("little") else "big")
    return frozenbitarray(b) if rep.startswith("frozen") else b


def T():
    from okdmr.dmrlib.etsi.fec.trellis import Trellis34

    return Trellis34


# ---------------------------------------------------------------------------------------------- helpers (harness side)


def tribits_to_bitstr(tribits):
    return "".join(format(t, "03b") for t in tribits)


def block_tribits(hexblock):
    s = format(int(hexblock, 16), "0144b")
    return [int(s[i : i + 3], 2) for i in range(0, 144, 3)]


def block_from_tribits(tribits):
    assert len(tribits) == 48
    return "%036x" % int(tribits_to_bitstr(tribits), 2)


def alternating(a, b):
    return block_from_tribits([a if i % 2 == 0 else b for i in range(48)])


def _lst(x):
    return [int(v) for v in x]


def stream_to_points(bits196: bitarray):
    """encoded stream -> 49 constellation points, through the library's own maps"""
    t = T()
    dibits = call(t.bits_to_dibits, bits196)[1]
    de = call(t.deinterleave, dibits)[1]
    return _lst(call(t.dibits_to_points, de)[1])


def points_to_stream(points) -> bitarray:
    t = T()
    dibits = call(t.points_to_dibits, array("B", points))[1]
    inter = call(t.interleave, dibits)[1]
    return bitarray(call(t.dibits_to_bits, inter)[1])


def encode_bits(hexblock) -> bitarray:
    arg = bitarray(format(int(hexblock, 16), "0144b"))
    keep = arg.copy()
    enc = call(T().encode, arg)[1]
    if arg != keep:
        raise Fail("encode_does_not_mutate_input", arg.to01(), keep.to01())
    if not isinstance(enc, bitarray) or len(enc) != 196:
        raise Fail("encode_yields_196_bits", f"{type(enc).__name__} of length {len(enc) if hasattr(enc, '__len__') else '?'}", "bitarray of 196 bits")
    return enc


_TABLE = {}


def derived_table():
    """8x8 table state -> tribit -> point, derived from the encodings of the 64 alternating blocks (position 1 holds the
    transition a -> b).  Cached per process; a pure function of the library."""
    if not _TABLE:
        for a in range(8):
            for b in range(8):
                pts = stream_to_points(encode_bits(alternating(a, b)))
                _TABLE[(a, b)] = pts[1]
    return _TABLE


# ---------------------------------------------------------------------------------------------- structure oracles


def oracle_dibit_map(case):
    """case = {}: the 4 bit pairs map to 4 distinct dibit values and back."""
    t = T()
    pairs = bitarray("00011011")
    d = _lst(call(t.bits_to_dibits, pairs)[1])
    if len(d) != 4 or len(set(d)) != 4:
        raise Fail("bit_pairs_to_dibits_bijective", d, "4 distinct values")
    back = bitarray(call(t.dibits_to_bits, array("b", d))[1])
    if back != pairs:
        raise Fail("dibits_to_bits_inverts_bits_to_dibits", back.to01(), pairs.to01())
    case["_dibits"] = d


def oracle_point_map(case):
    """case = {}: the 16 constellation points map to 16 distinct dibit pairs (all 4x4 pairs) and back."""
    t = T()
    alphabet = set(_lst(call(t.bits_to_dibits, bitarray("00011011"))[1]))
    d = _lst(call(t.points_to_dibits, array("B", range(16)))[1])
    if len(d) != 32:
        raise Fail("point_maps_to_two_dibits", len(d), 32)
    pairs = [(d[2 * i], d[2 * i + 1]) for i in range(16)]
    if len(set(pairs)) != 16 or any(x not in alphabet for p in pairs for x in p):
        raise Fail("points_to_dibit_pairs_bijective", pairs, f"16 distinct pairs over {sorted(alphabet)}")
    back = _lst(call(t.dibits_to_points, array("b", d))[1])
    if back != list(range(16)):
        raise Fail("dibits_to_points_inverts_points_to_dibits", back, list(range(16)))
    # and the other way round over all 4x4 dibit pairs
    allpairs = [(x, y) for x in sorted(alphabet) for y in sorted(alphabet)]
    pts = _lst(call(t.dibits_to_points, array("b", [v for p in allpairs for v in p]))[1])
    if sorted(pts) != list(range(16)):
        raise Fail("dibit_pairs_to_points_bijective", pts, "a permutation of 0..15")


def oracle_permutation(case):
    """case = {values: [98 ints in -128..127]}: interleave and deinterleave rearrange (multiset preserved) and are mutually
    inverse; for the marker array this shows they are inverse permutations of the 98 positions."""
    t = T()
    vals = case["values"]
    if len(vals) != 98:
        raise HarnessError("need 98 values")
    src = array("b", vals)
    inter = call(t.interleave, array("b", vals))[1]
    de = call(t.deinterleave, array("b", vals))[1]
    for name, out in (("interleave", inter), ("deinterleave", de)):
        if len(out) != 98 or sorted(_lst(out)) != sorted(vals):
            raise Fail(f"{name}_is_a_permutation_of_98_positions", _lst(out), "a rearrangement of the input")
    back = call(t.deinterleave, inter)[1]
    if _lst(back) != vals:
        raise Fail("deinterleave_inverts_interleave", _lst(back), vals)
    back2 = call(t.interleave, de)[1]
    if _lst(back2) != vals:
        raise Fail("interleave_inverts_deinterleave", _lst(back2), vals)
    if _lst(src) != vals:
        raise HarnessError("marker changed")


def oracle_transition(case):
    """case = {a, b}: alternating block (a,b,a,b,…): round trip; the point emitted for a transition does not depend on the
    position; the library's tribits_to_points agrees with what encode put on the air."""
    a, b = case["a"], case["b"]
    blk = alternating(a, b)
    enc = encode_bits(blk)
    pts = stream_to_points(enc)
    if len(pts) != 49:
        raise Fail("stream_holds_49_points", len(pts), 49)
    # positions: 0: 0->a, odd i: a->b, even i>=2: b->a, 48: b->0 (flush)
    ab = {pts[i] for i in range(1, 48, 2)}
    ba = {pts[i] for i in range(2, 48, 2)}
    if len(ab) != 1 or len(ba) != 1:
        raise Fail("transition_point_independent_of_position", {"a->b": sorted(ab), "b->a": sorted(ba)}, "one point per transition")
    tab = derived_table()
    exp = [tab[(0, a)]] + [tab[(a, b)] if i % 2 == 1 else tab[(b, a)] for i in range(1, 48)] + [tab[(b, 0)]]
    if pts != exp:
        raise Fail("encoder_is_a_finite_state_machine_on_previous_tribit", pts, exp)
    tri = [a if i % 2 == 0 else b for i in range(48)] + [0]
    via_fn = _lst(call(T().tribits_to_points, array("B", tri))[1])
    if via_fn != pts:
        raise Fail("tribits_to_points_agrees_with_encode", via_fn, pts)
    dec = call(T().decode, enc.copy())[1]
    want = bitarray(format(int(blk, 16), "0144b"))
    if bitarray(dec) != want:
        raise Fail("decode_returns_block", bitarray(dec).to01(), want.to01())


def oracle_state_row(case):
    """case = {state}: the 8 points a state can emit are pairwise distinct (each transition uniquely invertible) and valid."""
    s = case["state"]
    tab = derived_table()
    row = [tab[(s, t)] for t in range(8)]
    if len(set(row)) != 8 or any(not (0 <= p <= 15) for p in row):
        raise Fail("state_row_emits_8_distinct_points", row, "8 distinct points in 0..15")
    case["_row"] = row


# ---------------------------------------------------------------------------------------------- end to end


def oracle_roundtrip(case):
    """case = {block: hex36}"""
    blk = case["block"]
    want_bits = bitarray(format(int(blk, 16), "0144b"))
    want_bytes = bytes.fromhex(blk)
    enc = encode_bits(blk)
    enc_b = call(T().encode, want_bytes)[1]
    if not isinstance(enc_b, bitarray) or len(enc_b) != 196:
        raise Fail("encode_yields_196_bits", f"{type(enc_b).__name__} of length {len(enc_b)}", "bitarray of 196 bits", "bytes_input")
    if enc_b != enc:
        raise Fail("bits_and_bytes_input_encode_identically", enc_b.to01(), enc.to01())
    arg = enc.copy()
    dec = call(T().decode, arg)[1]
    if arg != enc:
        raise Fail("decode_does_not_mutate_input", arg.to01(), enc.to01())
    if not isinstance(dec, bitarray) or dec != want_bits:
        raise Fail("decode_returns_block", dec.to01() if isinstance(dec, bitarray) else repr(dec), want_bits.to01())
    dec_b = call(T().decode, enc_b.copy(), True)[1]
    if not isinstance(dec_b, bytes) or dec_b != want_bytes:
        raise Fail("decode_as_bytes_returns_block", dec_b.hex() if isinstance(dec_b, bytes) else repr(dec_b), blk)
    dec_kw = call(T().decode, enc.copy(), as_bytes=False)[1]
    if bitarray(dec_kw) != want_bits:
        raise Fail("decode_returns_block", bitarray(dec_kw).to01(), want_bits.to01(), "as_bytes_false")
    # the same bit sequences in other containers (lesson A.1): encode takes big-endian bitarray / frozenbitarray / bytes,
    # decode takes a bitarray of either bit order, frozen or not - where the unchanged tree is right (see ASSUMPTIONS)
    s144, s196 = want_bits.to01(), enc.to01()
    for rep in ENCODE_REPS:
        arg = make_bits(s144, rep)
        st, e2 = call(T().encode, arg, allowed=REJECTIONS)
        if st == "raised":
            case.setdefault("_container_not_accepted", []).append("encode:" + rep)
            continue
        if arg.to01() != s144:
            raise Fail("encode_does_not_mutate_input", arg.to01(), s144, rep)
        if not isinstance(e2, bitarray) or e2.to01() != s196:
            raise Fail("encode_independent_of_container", e2.to01() if isinstance(e2, bitarray) else repr(e2), s196, rep)
    for rep in DECODE_REPS:
        arg = make_bits(s196, rep)
        st, d2 = call(T().decode, arg, allowed=REJECTIONS)
        if st == "raised":
            case.setdefault("_container_not_accepted", []).append("decode:" + rep)
            continue
        if arg.to01() != s196:
            raise Fail("decode_does_not_mutate_input", arg.to01(), s196, rep)
        if not isinstance(d2, bitarray) or d2.to01() != s144:
            raise Fail("decode_independent_of_container", d2.to01() if isinstance(d2, bitarray) else repr(d2), s144, rep)
        d3 = call(T().decode, make_bits(s196, rep), True)[1]
        if d3 != want_bytes:
            raise Fail("decode_independent_of_container", repr(d3), blk, rep + ":as_bytes")


# ---------------------------------------------------------------------------------------------- transformed codewords


_REF_DIBIT = {bits: sym for sym, bits in tref._SYMBOL_BITS.items()}
_REF_POINT = {(tref._POINT_I[p], tref._POINT_Q[p]): p for p in range(16)}


def ref_walk(bits196: str):
    """Normative receive path on the independent reference (vp/refs/trellis34_ref.py): bits -> dibits -> de-interleave ->
    points -> state walk from state 0.  Returns the 49 tribits, or None when some point is not a successor of the state."""
    rx = [_REF_DIBIT[(int(bits196[2 * i]), int(bits196[2 * i + 1]))] for i in range(98)]
    de = [0] * 98
    for i in range(98):
        de[tref.INTERLEAVE[i]] = rx[i]
    state, out = 0, []
    for k in range(49):
        p = _REF_POINT[(de[2 * k], de[2 * k + 1])]
        nxt = [t for t in range(8) if tref.transition(state, t) == p]
        if not nxt:
            return None
        out.append(nxt[0])
        state = nxt[0]
    return out


def lib_walk(bits196: str):
    """The same judgement with the structure derived from the library (its own maps + the table derived from its encoder)."""
    pts = stream_to_points(bitarray(bits196))
    tab = derived_table()
    state, out = 0, []
    for p in pts:
        nxt = [t for t in range(8) if tab[(state, t)] == p]
        if not nxt:
            return None
        out.append(nxt[0])
        state = nxt[0]
    return out


def _perm_dibits(bits, perm):
    """output dibit i = input dibit perm[i]"""
    return "".join(bits[2 * perm[i] : 2 * perm[i] + 2] for i in range(98))


_INV = [0] * 98
for _i, _v in enumerate(tref.INTERLEAVE):
    _INV[_v] = _i

TRANSFORMS = {
    # what a wrong transmit / receive path would do to a valid codeword (dibit permutations refer to the reference interleaver)
    "interleave_skipped": lambda b: _perm_dibits(b, _INV),  # the de-interleaved (trellis order) dibits sent as they are
    "interleave_applied_twice": lambda b: _perm_dibits(b, tref.INTERLEAVE),
    "inverse_interleave_applied": lambda b: _perm_dibits(_perm_dibits(b, _INV), _INV),
    "bits_reversed": lambda b: b[::-1],
    "dibits_reversed": lambda b: _perm_dibits(b, list(range(97, -1, -1))),
    "points_reversed": lambda b: "".join(b[4 * k : 4 * k + 4] for k in range(48, -1, -1)),
    "complemented": lambda b: "".join("1" if c == "0" else "0" for c in b),
    "rotated_left_1_bit": lambda b: b[1:] + b[:1],
    "rotated_right_1_bit": lambda b: b[-1:] + b[:-1],
    "rotated_left_1_dibit": lambda b: b[2:] + b[:2],
    "rotated_right_1_dibit": lambda b: b[-2:] + b[:-2],
    "rotated_left_1_point": lambda b: b[4:] + b[:4],
    "rotated_right_1_point": lambda b: b[-4:] + b[:-4],
    "halves_swapped": lambda b: b[98:] + b[:98],
    "dibits_of_each_point_swapped": lambda b: "".join(b[4 * k + 2 : 4 * k + 4] + b[4 * k : 4 * k + 2] for k in range(49)),
    "bits_of_each_dibit_swapped": lambda b: "".join(b[2 * k + 1] + b[2 * k] for k in range(98)),
}


def transformed_verdict(block, transform):
    """(stream, 'invalid' | 'valid' | 'judges_disagree') for the codeword of ``block`` under ``transform``; the codeword is the
    reference's, so the case does not depend on the library's encoder."""
    v = int(block, 16)
    cw = "".join(map(str, tref.encode([(v >> (143 - i)) & 1 for i in range(144)])))
    bad = TRANSFORMS[transform](cw)
    if len(bad) != 196:
        raise HarnessError("transform changed the length")
    r, l = ref_walk(bad), lib_walk(bad)
    if (r is None) != (l is None):
        return bad, "judges_disagree"
    return bad, "invalid" if r is None else "valid"


def oracle_reject_transformed(case):
    """case = {block: hex36, transform}: the image of a valid codeword under a wrong-path transformation; when the normative
    receive path (reference AND library-derived structure) meets a point the tracked state cannot emit, decode must raise -
    for every container of the stream and for both return types."""
    bad, verdict = transformed_verdict(case["block"], case["transform"])
    if verdict != "invalid":
        return  # happens to be a valid path (e.g. constant blocks under a rotation) or the judges disagree: nothing claimed
    for rep in ["big"] + DECODE_REPS:
        for as_bytes in (False, True):
            st, res = call(T().decode, make_bits(bad, rep), as_bytes, allowed=(Exception,))
            if st == "ok":
                raise Fail("stream_with_unemittable_point_rejected", {"returned": res.to01() if isinstance(res, bitarray) else repr(res)}, "an exception", case["transform"])


# ---------------------------------------------------------------------------------------------- rejection


def oracle_reject(case):
    """case = {block: hex36, pos: 0..48, point: 0..15}: the point must be one the state at that position cannot emit; the
    patched stream raises."""
    blk, pos, point = case["block"], case["pos"], case["point"]
    tri = block_tribits(blk) + [0]
    state = 0 if pos == 0 else tri[pos - 1]
    tab = derived_table()
    row = [tab[(state, t)] for t in range(8)]
    if len(set(row)) != 8:
        raise Fail("state_row_emits_8_distinct_points", row, "8 distinct points")
    if point in row or not (0 <= point <= 15):
        raise HarnessError(f"point {point} can be emitted by state {state}: not a rejection case")
    enc = encode_bits(blk)
    pts = stream_to_points(enc)
    if points_to_stream(pts) != enc:
        raise Fail("library_maps_reproduce_encoded_stream", points_to_stream(pts).to01(), enc.to01())
    if pts[pos] != tab[(state, tri[pos])]:
        raise Fail("encoder_is_a_finite_state_machine_on_previous_tribit", pts[pos], tab[(state, tri[pos])])
    pts[pos] = point
    bad = points_to_stream(pts)
    if len(bad) != 196 or bad == enc:
        raise HarnessError("patched stream malformed")
    st, res = call(T().decode, bad, allowed=(Exception,))
    if st == "ok":
        raise Fail("stream_with_unemittable_point_rejected", {"returned": res.to01() if isinstance(res, bitarray) else repr(res)}, "an exception", f"pos_{'first' if pos == 0 else 'last' if pos == 48 else 'middle'}")
    for as_bytes in (True,):
        st, res = call(T().decode, bad.copy(), as_bytes, allowed=(Exception,))
        if st == "ok":
            raise Fail("stream_with_unemittable_point_rejected", {"returned": repr(res)}, "an exception", "as_bytes")


# ---------------------------------------------------------------------------------------------- drivers


def drv_maps(ctx: Ctx, sub: SubCheck):
    ctx.run_case("dibit_map", oracle_dibit_map, {})
    ctx.tally.case("dibit_map", nontrivial=True, cls="all_4_bit_pairs", n=4)
    ctx.tally.sample("dibit_map", {"bit_pairs": "00 01 10 11"})
    ctx.tally.exhaustive["dibit_map"] = True
    ctx.run_case("point_map", oracle_point_map, {})
    ctx.tally.case("point_map", nontrivial=True, cls="all_16_points_and_16_dibit_pairs", n=32)
    ctx.tally.sample("point_map", {"points": list(range(16))})
    ctx.tally.exhaustive["point_map"] = True


def drv_permutation(ctx: Ctx, sub: SubCheck):
    cases = [{"values": list(range(98))}, {"values": [97 - i for i in range(98)]}]
    for i in range(98):
        v = [0] * 98
        v[i] = 1
        cases.append({"values": v})
    rng = ctx.rng("perm")
    for _ in range(ctx.pick(20, 500)):
        cases.append({"values": [rng.choice([3, 1, -1, -3]) for _ in range(98)]})
    for i, c in enumerate(cases):
        ctx.run_case(sub.name, oracle_permutation, c)
        ctx.tally.case(sub.name, nontrivial=True, cls="marker" if i < 2 else ("unit_array" if i < 100 else "random_dibits"))
    ctx.tally.sample(sub.name, cases[0])
    ctx.tally.sample(sub.name, cases[50])
    ctx.tally.exhaustive[sub.name] = True
    ctx.tally.notes.append("permutation: the marker array 0..97 decides the property completely; unit and random dibit arrays are additional")


def drv_transitions(ctx: Ctx, sub: SubCheck):
    items = [(a, b) for a in range(8) for b in range(8)]

    def work(it, t: Tally):
        a, b = it
        ctx.run_case(sub.name, oracle_transition, {"a": a, "b": b}, t)
        t.case(sub.name, nontrivial=(a != b), cls="a_ne_b" if a != b else "a_eq_b")
        if (a * 8 + b) % 13 == 0:
            t.sample(sub.name, {"a": a, "b": b, "block": alternating(a, b)})

    ctx.shards(work, items, chunksize=4)
    ctx.tally.exhaustive[sub.name] = True
    rows = {}
    for s in range(8):
        case = {"state": s}
        ctx.run_case("state_rows", oracle_state_row, case)
        ctx.tally.case("state_rows", nontrivial=True, cls="row")
        rows[str(s)] = case.get("_row")
    ctx.tally.sample("state_rows", {"state": 3})
    ctx.tally.exhaustive["state_rows"] = True
    ctx.tally.extra["derived_transition_table"] = rows


def _n_distinct(blk):
    return len(set(block_tribits(blk)))


def drv_roundtrip_structured(ctx: Ctx, sub: SubCheck):
    blocks = [alternating(a, b) for a in range(8) for b in range(8)]
    for p in range(48):
        for v in range(1, 8):
            tr = [0] * 48
            tr[p] = v
            blocks.append(block_from_tribits(tr))
    blocks += ["ff" * 18, "00" * 18, "aa" * 18, "55" * 18]
    # de Bruijn-like: all 512 tribit triples appear (sequence over 8 symbols, order 3, cut into 48-tribit blocks with overlap)
    seq = _de_bruijn(8, 3)
    seq = seq + seq[:2]
    for lo in range(0, len(seq) - 2, 46):
        chunk = seq[lo : lo + 48]
        chunk = chunk + [0] * (48 - len(chunk))
        blocks.append(block_from_tribits(chunk))
    chunks = [blocks[i::16] for i in range(16)]

    def work(chunk, t: Tally):
        for blk in chunk:
            ctx.run_case(sub.name, oracle_roundtrip, {"block": blk}, t)
            t.case(sub.name, nontrivial=_n_distinct(blk) >= 3, cls=f"{min(_n_distinct(blk), 4)}{'+' if _n_distinct(blk) >= 4 else ''}_distinct_tribits")
        if chunk:
            t.sample(sub.name, {"block": chunk[len(chunk) // 2]})

    ctx.shards(work, chunks)
    ctx.tally.extra["structured_blocks"] = len(blocks)


def _de_bruijn(k, n):
    a = [0] * k * n
    seq = []

    def db(t, p):
        if t > n:
            if n % p == 0:
                seq.extend(a[1 : p + 1])
        else:
            a[t] = a[t - p]
            db(t + 1, p)
            for j in range(a[t - p] + 1, k):
                a[t] = j
                db(t + 1, t)

    db(1, 1)
    return seq


def st_block():
    from hypothesis import strategies as st

    uniform = st.binary(min_size=18, max_size=18).map(bytes.hex)
    small_alphabet = st.lists(st.integers(0, 7), min_size=1, max_size=3).flatmap(lambda al: st.lists(st.sampled_from(al), min_size=48, max_size=48)).map(block_from_tribits)
    any_tribits = st.lists(st.integers(0, 7), min_size=48, max_size=48).map(block_from_tribits)
    return st.one_of(uniform, uniform, any_tribits, small_alphabet)


def drv_roundtrip_random(ctx: Ctx, sub: SubCheck):
    from hypothesis import strategies as st

    strat = st_block().map(lambda b: {"block": b})

    def work(shard, t: Tally):
        ctx.hypothesis(sub.name, strat, oracle_roundtrip, ctx.pick(250, 6500), tally=t, shard=shard,
                       record=lambda c, tt: tt.case(sub.name, key=c, nontrivial=_n_distinct(c["block"]) >= 3, cls=f"{min(_n_distinct(c['block']), 4)}{'+' if _n_distinct(c['block']) >= 4 else ''}_distinct_tribits"))

    ctx.shards(work, list(range(16)))


def drv_reject(ctx: Ctx, sub: SubCheck):
    rng = ctx.rng("reject")
    alt = [alternating(a, b) for a in range(8) for b in range(8)]
    blocks = alt + ["%036x" % rng.getrandbits(144) for _ in range(ctx.pick(4, 60))]
    items = [(blk, pos) for blk in blocks for pos in range(49)]

    def work(it, t: Tally):
        blk, pos = it
        tri = block_tribits(blk) + [0]
        state = 0 if pos == 0 else tri[pos - 1]
        tab = derived_table()
        row = {tab[(state, x)] for x in range(8)}
        n = 0
        for point in range(16):
            if point in row:
                continue
            ctx.run_case(sub.name, oracle_reject, {"block": blk, "pos": pos, "point": point}, t)
            n += 1
        t.case(sub.name, nontrivial=True, cls="first_position" if pos == 0 else ("flush_position" if pos == 48 else "middle_position"), n=n)
        if pos in (0, 17, 48) and blk == blocks[0]:
            t.sample(sub.name, {"block": blk, "pos": pos, "point": sorted(set(range(16)) - row)[0]})

    ctx.shards(work, items, chunksize=8)
    ctx.tally.exhaustive[sub.name] = True
    ctx.tally.extra["rejection_blocks"] = len(blocks)
    ctx.tally.notes.append("reject: complete over 49 positions x the 8 unemittable points for each chosen block; blocks: " + f"all 64 alternating + {len(blocks) - 64} random")


# ---------------------------------------------------------------------------------------------- reuse / scribble-and-repeat


def _damage(buf: bitarray, how: str):
    """in-place damage of a buffer the library handed out (what a caller simulating channel errors would do)"""
    if how == "invert":
        buf.invert()
    elif how == "flip":
        buf.invert(len(buf) // 3)
    elif how == "truncate":
        del buf[150:]
    elif how == "extend":
        buf.extend([1, 0, 1, 1])
    elif how == "zero":
        buf.setall(0)
    else:
        raise HarnessError(f"unknown damage {how}")


def oracle_reuse(case):
    """case = {blocks: [hex36...], seq: [[block index, "bits"|"bytes", damage], ...]}.  A caller encodes blocks, damages the
    returned streams IN PLACE (channel simulation) and encodes / decodes again, possibly the same block: every encode must
    still yield the 196 bits that decode to the block (for every block = also for a block that was encoded before), and
    the result of decode must not depend on what was done to earlier results."""
    blocks = case["blocks"]
    first = {}
    for idx, form, dmg in case["seq"]:
        blk = blocks[idx]
        want_bits = bitarray(format(int(blk, 16), "0144b"))
        arg = want_bits.copy() if form == "bits" else bytes.fromhex(blk)
        enc = call(T().encode, arg)[1]
        if not isinstance(enc, bitarray) or len(enc) != 196:
            raise Fail("encode_yields_196_bits", f"{type(enc).__name__} of length {len(enc)}", "bitarray of 196 bits", "after_caller_modified_an_earlier_result")
        if blk in first and enc != first[blk]:
            raise Fail("encode_same_block_same_bits_regardless_of_history", enc.to01(), first[blk].to01())
        first.setdefault(blk, enc.copy())
        dec = call(T().decode, enc.copy())[1]
        if bitarray(dec) != want_bits:
            raise Fail("decode_returns_block", bitarray(dec).to01(), want_bits.to01(), "after_caller_modified_an_earlier_result")
        # the caller now owns enc and dec: scribble on them
        _damage(enc, dmg)
        if isinstance(dec, bitarray):
            dec.invert()
        if isinstance(arg, bitarray):
            arg.invert()


def drv_reuse(ctx: Ctx, sub: SubCheck):
    from hypothesis import strategies as st

    damages = ["invert", "flip", "truncate", "extend", "zero"]
    step = st.tuples(st.integers(0, 1), st.sampled_from(["bits", "bytes"]), st.sampled_from(damages)).map(list)
    strat = st.builds(lambda b0, b1, seq: {"blocks": [b0, b1], "seq": seq}, st_block(), st_block(), st.lists(step, min_size=2, max_size=6))

    def rec(c, tt):
        idxs = [x[0] for x in c["seq"]]
        repeat = len(set(idxs)) < len(idxs)
        tt.case(sub.name, key=c, nontrivial=repeat, cls="same_block_encoded_again" if repeat else "no_repeat")

    # deterministic core: every damage kind x both input forms x (same block again | other block in between)
    det = []
    for dmg in damages:
        for f1 in ("bits", "bytes"):
            for f2 in ("bits", "bytes"):
                det.append({"blocks": ["a4" + "00" * 17, "5a" * 18], "seq": [[0, f1, dmg], [0, f2, dmg]]})
                det.append({"blocks": ["0123456789abcdef0123456789abcdef0123", "ff" * 18], "seq": [[0, f1, dmg], [1, f2, dmg], [0, f2, "invert"], [1, f1, dmg]]})
    for c in det:
        ctx.run_case(sub.name, oracle_reuse, c)
        ctx.tally.case(sub.name, key=c, nontrivial=True, cls="directed")

    def work(shard, t: Tally):
        ctx.hypothesis(sub.name, strat, oracle_reuse, ctx.pick(60, 800), tally=t, shard=shard, record=rec)

    ctx.shards(work, list(range(16)))


# ---------------------------------------------------------------------------------------------- interleaved histories (round 7)
#
# Stimulus = every call of trellis.py that is NOT "encode a 144-bit block / decode what encode produced": sibling entry points on
# values related to the judged block (the public state walks called directly, a received stream that is a valid trellis path
# but was not produced by this encoder: flush tribit 1..7), calls that are rightly refused half-way (unemittable point at
# position k, too few points, a tribit out of range at position k, wrong lengths, wrong types), inputs accepted outside the
# judged domain (more than 144 bits, little-endian bits), helpers whose returned arrays the caller then scribbles on.  Nothing
# is claimed about a stimulus; the judged operations around it (round trip, decode of an encoder-made stream, rejection of an
# unemittable point) must not notice it.  The reference (vp/refs/trellis34_ref.py) only builds stimulus values.


def ref_chain(tribits49, override=None):
    """reference values of every stage for a tribit sequence: points, de-interleaved dibits, interleaved dibits, bits (str).
    override = (position, point) replaces one constellation point after the state walk."""
    state, pts = 0, []
    for t in tribits49:
        pts.append(tref.transition(state, t))
        state = t
    if override is not None:
        pts[override[0]] = override[1]
    de = [v for p in pts for v in (tref._POINT_I[p], tref._POINT_Q[p])]
    inter = [de[tref.INTERLEAVE[i]] for i in range(len(de))] if len(de) == 98 else list(de)
    bits = "".join("%d%d" % tref._SYMBOL_BITS[d] for d in inter)
    return {"points": pts, "de": de, "inter": inter, "bits": bits}


def ref_unemittable(state):
    row = {tref.transition(state, t) for t in range(8)}
    return [p for p in range(16) if p not in row]


STIM_KINDS = ["foreign", "refused", "badlen", "encbad", "walk_t", "walk_p", "helper", "valid"]
_ENCBAD = ["short_bits", "short_bytes", "empty_bytes", "empty_bits", "str", "none", "bytearray", "int", "list", "long_bits", "long_bytes", "little", "frozen_little", "memoryview"]
_WALK_T = ["no_flush", "flush", "oob", "empty", "short", "twice", "list"]
_WALK_P = ["short", "bad_point", "unemittable", "foreign", "valid", "negative", "list"]
_HELPERS = ["bits_to_dibits", "dibits_to_bits", "interleave", "deinterleave", "dibits_to_points", "points_to_dibits", "points_to_tribits", "tribits_to_points", "tribits_to_bits", "bits_to_tribits"]
_HELPER_VARIANTS = ["valid", "short", "long", "garbage", "empty", "wrong_type"]
_DAMAGES = ["none", "zero", "reverse", "grow", "shrink", "flip"]
_BADLEN = [0, 1, 4, 144, 192, 194, 195, 197, 198, 200, 392]


def _damage_any(obj, how):
    """scribble on an array / bitarray the library returned (the caller owns it)"""
    try:
        if how == "none" or obj is None or not hasattr(obj, "__len__"):
            return
        if isinstance(obj, (bytes, frozenbitarray)):
            return
        n = len(obj)
        if how == "zero":
            for i in range(n):
                obj[i] = 0
        elif how == "reverse":
            obj.reverse()
        elif how == "grow":
            obj.extend([1, 0, 1])
        elif how == "shrink":
            del obj[n // 2 :]
        elif how == "flip" and n:
            obj[n // 3] = 1 - (obj[n // 3] & 1) if not isinstance(obj, bitarray) else (not obj[n // 3])
    except (TypeError, ValueError, OverflowError, AttributeError, IndexError):
        pass


def stim_call(block, op):
    """(function, args) of the library call an abstract stimulus ``op`` stands for, with values derived from ``block``"""
    t = T()
    tri = block_tribits(block) + [0]
    kind = op["k"]
    pos = int(op.get("pos", 0)) % 49
    if kind == "valid":  # an ordinary call of the other direction / form (an encoder-made stream decoded, the block encoded)
        if op.get("dir") == "decode":
            return t.decode, (make_bits(ref_chain(tri)["bits"], op.get("rep", "big")), bool(op.get("as_bytes")))
        return t.encode, (bytes.fromhex(block) if op.get("form") == "bytes" else make_bits(format(int(block, 16), "0144b"), "frozen_big" if op.get("form") == "frozen" else "big"),)
    if kind == "foreign":  # valid trellis path that this encoder cannot produce: flush tribit 1..7
        tri[48] = 1 + (int(op.get("flush", 1)) - 1) % 7
        return t.decode, (make_bits(ref_chain(tri)["bits"], op.get("rep", "big")), bool(op.get("as_bytes")))
    if kind == "refused":  # unemittable point at position pos: refused after pos points were walked
        state = 0 if pos == 0 else tri[pos - 1]
        bad = ref_unemittable(state)[int(op.get("pt", 0)) % 8]
        return t.decode, (make_bits(ref_chain(tri, (pos, bad))["bits"], op.get("rep", "big")), bool(op.get("as_bytes")))
    if kind == "badlen":
        n = int(op.get("n", 195))
        s = (ref_chain(tri)["bits"] * 2)[:n]
        return t.decode, (make_bits(s, op.get("rep", "big")), bool(op.get("as_bytes")))
    if kind == "encbad":
        how = op.get("how", "short_bits")
        s144 = format(int(block, 16), "0144b")
        raw = bytes.fromhex(block)
        arg = {
            "short_bits": lambda: bitarray(s144[:143]), "short_bytes": lambda: raw[:17], "empty_bytes": lambda: b"", "empty_bits": lambda: bitarray(),
            "str": lambda: s144, "none": lambda: None, "bytearray": lambda: bytearray(raw), "int": lambda: 144, "list": lambda: [int(c) for c in s144],
            "long_bits": lambda: bitarray(s144 + "101"), "long_bytes": lambda: raw + b"\x00", "little": lambda: make_bits(s144, "little"),
            "frozen_little": lambda: make_bits(s144, "frozen_little"), "memoryview": lambda: memoryview(raw),
        }[how]()
        return t.encode, (arg,)
    if kind == "walk_t":  # the encoder's state walk called directly
        how = op.get("how", "no_flush")
        seq = {
            "no_flush": lambda: tri[:48], "flush": lambda: tri[:48] + [1 + pos % 7], "oob": lambda: tri[:pos] + [8 + (int(op.get("pt", 0)) * 31) % 248] + tri[pos + 1 :],
            "empty": lambda: [], "short": lambda: tri[: pos + 1], "twice": lambda: tri[:48] + tri[:48], "list": lambda: tri[:48] + [1 + pos % 7],
        }[how]()
        return t.tribits_to_points, (seq if how == "list" else array("B", seq),)
    if kind == "walk_p":  # the decoder's state walk called directly
        how = op.get("how", "short")
        pts = ref_chain(tri)["points"]
        state = 0 if pos == 0 else tri[pos - 1]
        seq = {
            "short": lambda: pts[:pos], "bad_point": lambda: pts[:pos] + [16 + (int(op.get("pt", 0)) * 29) % 240] + pts[pos + 1 :],
            "unemittable": lambda: pts[:pos] + [ref_unemittable(state)[int(op.get("pt", 0)) % 8]] + pts[pos + 1 :],
            "foreign": lambda: ref_chain(tri[:48] + [1 + pos % 7])["points"], "valid": lambda: pts, "negative": lambda: pts[:pos] + [-1 - int(op.get("pt", 0)) % 8] + pts[pos + 1 :],
            "list": lambda: ref_chain(tri[:48] + [1 + pos % 7])["points"],
        }[how]()
        return t.points_to_tribits, (seq if how in ("list", "negative") else array("B", seq),)
    if kind == "helper":
        name, var = op.get("fn", "interleave"), op.get("how", "valid")
        ch = ref_chain(tri)
        valid = {
            "bits_to_dibits": lambda: bitarray(ch["bits"]), "dibits_to_bits": lambda: array("b", ch["inter"]), "interleave": lambda: array("b", ch["de"]),
            "deinterleave": lambda: array("b", ch["inter"]), "dibits_to_points": lambda: array("b", ch["de"]), "points_to_dibits": lambda: array("B", ch["points"]),
            "points_to_tribits": lambda: array("B", ch["points"]), "tribits_to_points": lambda: array("B", tri), "tribits_to_bits": lambda: array("B", tri),
            "bits_to_tribits": lambda: bitarray(format(int(block, 16), "0144b")),
        }[name]()
        if var == "short":
            arg = valid[: max(1, pos)]
        elif var == "long":
            arg = valid + valid[: 1 + pos]
        elif var == "garbage":
            arg = bitarray(format(pos + 1, "07b") * 28) if isinstance(valid, bitarray) else array(valid.typecode, [(7 * i + pos) % 120 for i in range(len(valid))])
        elif var == "empty":
            arg = valid[:0]
        elif var == "wrong_type":
            arg = [None, "0110", 5, b"\x01\x02", {}][pos % 5]
        else:
            arg = valid
        return getattr(t, name), (arg,)
    raise HarnessError(f"unknown stimulus {kind}")


def run_stim(block, op):
    """run one stimulus; what it returns or raises is ignored; the returned object is scribbled on when the op says so"""
    fn, args = stim_call(block, op)
    try:
        res = fn(*args)
    except (KeyboardInterrupt, SystemExit, MemoryError):
        raise
    except BaseException:
        return None
    _damage_any(res, op.get("damage", "none"))
    return res


def _op_stim(a):
    run_stim(a["block"], a["op"])


PRELUDE_OPS = {"stim": _op_stim}


def random_stim(rng):
    k = rng.choice(STIM_KINDS + ["foreign", "refused", "walk_t", "walk_p"])
    op = {"k": k, "pos": rng.choice([0, 1, 2, 24, 46, 47, 48, rng.randrange(49)]), "pt": rng.randrange(8), "rep": rng.choice(["big", "big", "little", "frozen_big"]),
          "as_bytes": rng.random() < 0.3, "damage": rng.choice(_DAMAGES)}
    if k == "foreign":
        op["flush"] = rng.randrange(1, 8)
    elif k == "badlen":
        op["n"] = rng.choice(_BADLEN)
    elif k == "encbad":
        op["how"] = rng.choice(_ENCBAD)
    elif k == "walk_t":
        op["how"] = rng.choice(_WALK_T)
    elif k == "walk_p":
        op["how"] = rng.choice(_WALK_P)
    elif k == "helper":
        op["fn"], op["how"] = rng.choice(_HELPERS), rng.choice(_HELPER_VARIANTS)
    elif k == "valid":
        op["dir"], op["form"] = rng.choice(["decode", "encode"]), rng.choice(["bits", "bytes", "frozen"])
    return op


def _case_blocks(case):
    if not isinstance(case, dict):
        return []
    if "blocks" in case:
        return [b for b in case["blocks"] if isinstance(b, str)]
    if "block" in case:
        return [case["block"]]
    if "a" in case and "b" in case:
        return [alternating(case["a"], case["b"])]
    return []


def prelude_for(sub, case, rng):
    """sibling / refused / out-of-domain calls of trellis.py on values derived from the judged block (and on a near twin)"""
    blocks = _case_blocks(case) or ["%036x" % rng.getrandbits(144)]
    blk = rng.choice(blocks)
    calls = []
    for i in range(3):
        b = blk if i != 1 else near_twin(blk, rng.choice(TWIN_KINDS), rng.randrange(144))
        calls.append({"x": "stim", "a": {"block": b, "op": random_stim(rng)}})
    return calls


TWIN_KINDS = ["flip_bit", "last_octet_zero", "first_octet_zero", "last_tribit", "first_tribit", "trailing_zeros", "same"]


def near_twin(block, kind, pos=0):
    """a block that equals ``block`` in everything but what a too-wide key / fast path would overlook"""
    v = int(block, 16)
    if kind == "flip_bit":
        v ^= 1 << (143 - pos % 144)
    elif kind == "last_octet_zero":
        v &= ~0xFF
    elif kind == "first_octet_zero":
        v &= (1 << 136) - 1
    elif kind == "last_tribit":
        v ^= 1 + pos % 7
    elif kind == "first_tribit":
        v ^= (1 + pos % 7) << 141
    elif kind == "trailing_zeros":
        v &= ~((1 << (8 * (1 + pos % 9))) - 1)
    return "%036x" % v


def _random_block(r):
    x = r.random()
    if x < 0.5:
        return "%036x" % r.getrandbits(144)
    al = [r.randrange(8) for _ in range(r.randrange(1, 4))]
    return block_from_tribits([r.choice(al) for _ in range(48)])


def _form_arg(blk, form):
    s = format(int(blk, 16), "0144b")
    return bytes.fromhex(blk) if form == "bytes" else make_bits(s, "frozen_big" if form == "frozen" else "big")


def oracle_interleaved(case):
    """case = {blocks: [hex36...], ops: [op...]}; op = {k: "rt", i, form} | {k: "dec", i, rep, as_bytes} | {k: "rej", i, pos, pt, rep,
    as_bytes} | stimulus {k: one of STIM_KINDS, i, ...}.  Judged: every rt (196 bits, equal to the first encoding of that block in
    this history, decode returns the block), every dec (an encoder-made stream decodes to its block in every container), every rej
    (a stream with a point the state at that position cannot emit raises - claimed when the reference and the library-derived
    structure both call it invalid).  Results of judged operations are retained untouched and compared with their snapshots at the
    end, and every block is round-tripped once more after the last operation."""
    blocks = case["blocks"]
    derived_table()  # derive the library's structure before any stimulus runs (cached per process)
    first, kept = {}, []

    def rt(blk, form, where):
        want = format(int(blk, 16), "0144b")
        arg = _form_arg(blk, form)
        enc = call(T().encode, arg)[1]
        if not isinstance(enc, bitarray) or len(enc) != 196:
            raise Fail("encode_yields_196_bits", f"{type(enc).__name__} of length {len(enc) if hasattr(enc, '__len__') else '?'}", "bitarray of 196 bits", where)
        if not isinstance(arg, bytes) and arg.to01() != want:
            raise Fail("encode_does_not_mutate_input", arg.to01(), want, where)
        if blk in first and enc.to01() != first[blk]:
            raise Fail("encode_same_block_same_bits_regardless_of_history", enc.to01(), first[blk], where)
        first.setdefault(blk, enc.to01())
        st, dec = call(T().decode, enc.copy(), allowed=(AssertionError,))
        if st == "raised" or not isinstance(dec, bitarray) or dec.to01() != want:
            raise Fail("decode_returns_block", repr(dec) if st == "raised" or not isinstance(dec, bitarray) else dec.to01(), want, where)
        kept.append((enc, enc.to01(), "encode"))
        kept.append((dec, want, "decode"))

    for n, op in enumerate(case["ops"]):
        blk = blocks[op.get("i", 0) % len(blocks)]
        k = op["k"]
        if k == "rt":
            rt(blk, op.get("form", "bits"), f"op_{k}")
        elif k == "dec":
            if blk not in first:
                rt(blk, "bits", "op_dec")
            want = format(int(blk, 16), "0144b")
            st, dec = call(T().decode, make_bits(first[blk], op.get("rep", "big")), bool(op.get("as_bytes")), allowed=(AssertionError,))
            got = dec.to01() if isinstance(dec, bitarray) else (format(int.from_bytes(dec, "big"), "0144b") if isinstance(dec, bytes) and len(dec) == 18 else repr(dec))
            if st == "raised" or got != want or isinstance(dec, bytes) != bool(op.get("as_bytes")):
                raise Fail("decode_returns_block", got, want, "op_dec")
            kept.append((dec, dec if isinstance(dec, bytes) else want, "decode"))
        elif k == "rej":
            tri = block_tribits(blk) + [0]
            pos = int(op.get("pos", 0)) % 49
            bad_pt = ref_unemittable(0 if pos == 0 else tri[pos - 1])[int(op.get("pt", 0)) % 8]
            bad = ref_chain(tri, (pos, bad_pt))["bits"]
            if ref_walk(bad) is None and lib_walk(bad) is None:
                st, res = call(T().decode, make_bits(bad, op.get("rep", "big")), bool(op.get("as_bytes")), allowed=(Exception,))
                if st == "ok":
                    raise Fail("stream_with_unemittable_point_rejected", {"returned": res.to01() if isinstance(res, bitarray) else repr(res)}, "an exception", "in_history")
        else:
            run_stim(blk, op)
    for obj, snap, what in kept:
        now = obj if isinstance(obj, bytes) else obj.to01()
        if now != snap:
            raise Fail("earlier_result_unchanged_by_later_calls", now if isinstance(now, str) else now.hex(), snap if isinstance(snap, str) else snap.hex(), what)
    for blk in dict.fromkeys(blocks):
        rt(blk, "bits", "at_end_of_history")


def _stim_catalogue():
    """every stimulus shape once (deterministic): kind x variant x a few positions"""
    out = []
    for f in (1, 3, 7):
        for rep, ab in (("big", False), ("little", True)):
            out.append({"k": "foreign", "flush": f, "rep": rep, "as_bytes": ab})
    for pos in (0, 1, 17, 47, 48):
        for pt in (0, 5):
            out.append({"k": "refused", "pos": pos, "pt": pt, "as_bytes": pt == 5})
            out.append({"k": "walk_p", "how": "unemittable", "pos": pos, "pt": pt})
        out.append({"k": "walk_p", "how": "short", "pos": pos})
        out.append({"k": "walk_p", "how": "bad_point", "pos": pos, "pt": 3})
        out.append({"k": "walk_p", "how": "negative", "pos": pos, "pt": 2})
        out.append({"k": "walk_t", "how": "oob", "pos": pos, "pt": 1})
        out.append({"k": "walk_t", "how": "oob", "pos": pos, "pt": 7})
        out.append({"k": "walk_t", "how": "short", "pos": pos})
        out.append({"k": "walk_t", "how": "flush", "pos": pos})
    for how in _WALK_T:
        out.append({"k": "walk_t", "how": how, "pos": 4})
    for how in _WALK_P:
        out.append({"k": "walk_p", "how": how, "pos": 4})
    for n in _BADLEN:
        out.append({"k": "badlen", "n": n})
    for how in _ENCBAD:
        out.append({"k": "encbad", "how": how})
    for fn in _HELPERS:
        for how in _HELPER_VARIANTS:
            out.append({"k": "helper", "fn": fn, "how": how, "pos": 5, "damage": "zero" if how == "valid" else "none"})
        for dmg in ("reverse", "grow", "shrink", "flip"):
            out.append({"k": "helper", "fn": fn, "how": "valid", "pos": 5, "damage": dmg})
    return out


def drv_interleaved(ctx: Ctx, sub: SubCheck):
    rng = ctx.rng("interleaved")
    judged = [{"k": "rt", "form": "bits"}, {"k": "rt", "form": "bytes"}, {"k": "rt", "form": "frozen"}, {"k": "dec", "rep": "big"}, {"k": "dec", "rep": "little", "as_bytes": True},
              {"k": "rej", "pos": 0, "pt": 2}, {"k": "rej", "pos": 30, "pt": 6}]
    det = []
    for stim in _stim_catalogue():
        b0 = "%036x" % rng.getrandbits(144)
        twin = near_twin(b0, rng.choice(TWIN_KINDS), rng.randrange(144))
        for j in judged:
            # X, stimulus on X's own values, X again | X, stimulus on a near twin, X again | stimulus first
            det.append({"blocks": [b0, twin], "ops": [dict(j, i=0), dict(stim, i=0), dict(j, i=0)]})
        det.append({"blocks": [b0, twin], "ops": [dict(judged[0], i=0), dict(stim, i=1), dict(judged[1], i=0), dict(stim, i=0), dict(judged[3], i=1)]})
        det.append({"blocks": [b0, twin], "ops": [dict(stim, i=0), dict(judged[2], i=1)]})
    # near twins encoded / decoded alternately, every twin kind (a key or fast path that is too wide)
    for kind in TWIN_KINDS:
        for pos in (0, 7, 71, 143):
            b0 = "%036x" % rng.getrandbits(144)
            tw = near_twin(b0, kind, pos)
            det.append({"blocks": [b0, tw], "ops": [{"k": "rt", "i": 0, "form": "bytes"}, {"k": "rt", "i": 1, "form": "bytes"}, {"k": "dec", "i": 0}, {"k": "dec", "i": 1, "as_bytes": True}, {"k": "rt", "i": 0, "form": "bits"}]})
    chunks = [det[i::16] for i in range(16)]

    def cls_of(c):
        ks = [o["k"] for o in c["ops"] if o["k"] not in ("rt", "dec", "rej")]
        return "stimulus_" + ks[0] if ks else "judged_only"

    def nontriv(c):
        ks = [o["k"] in ("rt", "dec", "rej") for o in c["ops"]]
        return (False in ks and True in ks[ks.index(False):]) or len(set(c["blocks"])) > 1

    def random_history(r):
        b0, b1 = (_random_block(r) for _ in range(2))
        ops = []
        for _ in range(r.randrange(2, 10)):
            i, x = r.randrange(3), r.random()
            if x < 0.25:
                ops.append({"k": "rt", "i": i, "form": r.choice(["bits", "bytes", "frozen"])})
            elif x < 0.4:
                ops.append({"k": "dec", "i": i, "rep": r.choice(["big", "little", "frozen_big", "frozen_little"]), "as_bytes": r.random() < 0.5})
            elif x < 0.5:
                ops.append({"k": "rej", "i": i, "pos": r.choice([0, 1, 47, 48, r.randrange(49)]), "pt": r.randrange(8), "as_bytes": r.random() < 0.5})
            else:
                ops.append(dict(random_stim(r), i=i))
        return {"blocks": [b0, near_twin(b0, r.choice(TWIN_KINDS), r.randrange(144)), b1], "ops": ops}

    n_random = ctx.pick(60, 1200)

    def work(item, t: Tally):
        r = ctx.rng("interleaved-random", item)
        todo = [(c, None) for c in chunks[item]] + [(random_history(r), True) for _ in range(n_random)]
        for n, (c, keyed) in enumerate(todo):
            if not ctx.run_case(sub.name, oracle_interleaved, c, t):
                # what a failing history left behind in this process may taint the next ones: report this one (it replays in a
                # fresh interpreter) and stop this worker
                t.excluded["histories not run after a failing history in the same worker"] += len(todo) - n - 1
                break
            t.case(sub.name, key=c if keyed else None, nontrivial=nontriv(c), cls=cls_of(c))
        if chunks[item]:
            t.sample(sub.name, chunks[item][0])

    ctx.shards(work, list(range(16)))
    ctx.tally.extra["interleaved_directed_histories"] = len(det)
    ctx.tally.notes.append(f"interleaved: {len(det)} directed histories (every stimulus shape of trellis.py between two judged operations on the same block, on a near twin, and first in the history) + 16 x {n_random} seeded random histories of 2..9 operations over a block, its near twin and a third block")


def drv_reject_transformed(ctx: Ctx, sub: SubCheck):
    if not tref.selfcheck():
        raise HarnessError("trellis reference self-check failed")
    rng = ctx.rng("transformed")
    blocks = [alternating(a, b) for a in range(8) for b in range(8)] + ["00" * 18, "ff" * 18, "aa" * 18]
    blocks += ["%036x" % rng.getrandbits(144) for _ in range(ctx.pick(60, 1500))]
    names = sorted(TRANSFORMS)
    chunks = [blocks[i::16] for i in range(16)]

    def work(chunk, t: Tally):
        for blk in chunk:
            for name in names:
                case = {"block": blk, "transform": name}
                verdict = transformed_verdict(blk, name)[1]
                if verdict == "invalid":
                    ctx.run_case(sub.name, oracle_reject_transformed, case, t)
                    t.case(sub.name, nontrivial=True, cls=name)
                else:
                    t.excluded[f"transformed stream {verdict}"] += 1
        if chunk:
            t.sample(sub.name, {"block": chunk[-1], "transform": "interleave_skipped"})

    ctx.shards(work, chunks)
    ctx.tally.notes.append(f"reject_transformed: {len(names)} wrong-path images of {len(blocks)} codewords (64 alternating, 3 constant, seeded random), judged by the independent trellis reference and by the library-derived structure; only streams both call invalid are claimed")


SUBCHECKS = [
    SubCheck("dibit_map", oracle_dibit_map, drv_maps, "bit pair <-> dibit value is a bijection on 4 values"),
    SubCheck("point_map", oracle_point_map, lambda ctx, sub: None, "constellation point <-> dibit pair is a bijection on 16 values (driven by dibit_map)"),
    SubCheck("permutation", oracle_permutation, drv_permutation, "interleave / deinterleave are inverse permutations of the 98 dibit positions"),
    SubCheck("transitions", oracle_transition, drv_transitions, "64 alternating blocks: round trip, position-independent transitions, FSM on the previous tribit"),
    SubCheck("state_rows", oracle_state_row, lambda ctx, sub: None, "each of the 8 state rows of the derived table emits 8 distinct points (driven by transitions)"),
    SubCheck("roundtrip_structured", oracle_roundtrip, drv_roundtrip_structured, "alternating, single-tribit, constant and de-Bruijn blocks: 196 bits, decode == block, bits == bytes"),
    SubCheck("roundtrip_random", oracle_roundtrip, drv_roundtrip_random, "Hypothesis blocks: 196 bits, decode == block, bits == bytes"),
    SubCheck("reject", oracle_reject, drv_reject, "every unemittable point at every position of the chosen blocks makes decode raise"),
    SubCheck("reject_transformed", oracle_reject_transformed, drv_reject_transformed, "codewords with the interleave skipped / doubled / inverted, reversed, rotated, complemented, halves swapped: decode raises whenever the normative path meets an unemittable point"),
    SubCheck("reuse", oracle_reuse, drv_reuse, "histories: encode, caller damages the returned stream in place, encode/decode again (same or other block) - results independent of that"),
    SubCheck("interleaved", oracle_interleaved, drv_interleaved, "histories: judged round trips / decodes / rejections with sibling entry points, rightly refused calls, foreign valid paths (flush tribit != 0), out-of-domain inputs and scribbled helper results in between, on the same block and on near twins; earlier results re-inspected at the end"),
]
PREDICATES = {}
