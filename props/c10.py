"""C10 — rate 3/4 trellis coding is lossless for every 144-bit block.

Everything goes through the public functions of okdmr/dmrlib/etsi/fec/trellis.py (no table of the library is read):
structure — dibit<->bit-pair and point<->dibit-pair maps are bijections, interleave/deinterleave are inverse permutations
of 98 positions, the 8x8 (state, tribit) transition table derived from the encodings of the 64 alternating blocks has 8
distinct points in every state row and is position-independent; end to end — encode gives 196 bits, decode returns the
block for bits and bytes input; rejection — a stream whose point at some position is one the encoder state there cannot
emit raises instead of returning a block.
"""
from __future__ import annotations

from array import array

from bitarray import bitarray, frozenbitarray

from vp.core import Ctx, Fail, HarnessError, SubCheck, Tally, call
from vp.refs import trellis34_ref as tref

LEVEL = "exploration"
RULE = (
    "structure (complete, both tiers): all 4 bit pairs, all 16 constellation points and all 16 dibit pairs through the "
    "library's maps; the marker array 0..97 and all 98 unit arrays through interleave/deinterleave; the 64 alternating "
    "blocks (a,b,a,b,…) which put every (previous tribit, tribit) pair at every position 1..47, from which the 8x8 "
    "transition table is derived via the library's own inverse maps; all 8 state rows.  End to end: the 64 alternating, 8 "
    "all-equal and 48x7 single-tribit blocks plus Hypothesis-drawn blocks (uniform octets, sparse, few-symbol alphabets), "
    "each as bitarray and as bytes, and again in other containers (encode: frozenbitarray; decode: little-endian bitarray, "
    "frozenbitarray of either bit order).  Transformed codewords: 16 wrong-path images (interleave skipped / applied twice / "
    "inverse applied, bits / dibits / points reversed, complemented, rotated by one bit / dibit / point either way, halves "
    "swapped, dibits of a point or bits of a dibit swapped) of the alternating, constant and seeded random codewords, "
    "judged by the independent trellis reference and by the library-derived structure; those both call invalid must be "
    "rejected in every container.  Rejection: (block, position 0..48, each of the 8 points the state at that position "
    "cannot emit) patched into the encoded stream through the library's maps — complete over positions x points for the "
    "chosen blocks (all 64 alternating blocks plus 4 / 60 seeded random blocks).  Distinct by construction "
    "(enumerations) / by hash (Hypothesis).  Non-trivial: blocks with >= 3 distinct tribits; every patched stream; "
    "alternating blocks with a != b."
)
ASSUMPTIONS = [
    "blocks are big-endian bitarrays of exactly 144 bits or bytes of exactly 18 octets (what Burst passes); containers are only "
    "varied where the unchanged tree accepts them and is right (probed 2026-09: encode - big-endian bitarray, frozenbitarray, "
    "bytes; NOT little-endian bitarrays (tribits are read with ba2int) and NOT bytearray / memoryview (rejected by the length "
    "assertion); decode - bitarray of either bit order, frozen or not)",
    "reject_transformed uses vp/refs/trellis34_ref.py (structure of ETSI tables B.7-B.9) only to build codewords and to judge "
    "streams, and claims rejection only where the library-derived structure agrees that the stream is invalid",
    "'a constellation point that no encoder state can emit' is read as: a point that the encoder state at that position "
    "(= previous tribit, 0 at the start) cannot emit — every one of the 16 points is emitted by some state, so the literal "
    "reading would be empty",
    "rejection = any exception raised by Trellis34.decode (AssertionError today); returning a value is the violation",
    "the check does not compare the interleave order or the transition table with ETSI TS 102 361-1 tables B.8/B.9: the "
    "statement claims losslessness, inverse permutations and rejection, not conformance (the repository's captured "
    "vectors cover conformance)",
]


REJECTIONS = (TypeError, AttributeError, ValueError, NotImplementedError)  # policy of vp/containers.py: a clean rejection of a
# non-default container is 'not accepted' (outside the property), never a violation; once accepted the result must be right
ENCODE_REPS = ["frozen_big"]
DECODE_REPS = ["little", "frozen_big", "frozen_little"]


def make_bits(s, rep="big"):
    b = bitarray(s, endian="little" if rep.endswith("little") else "big")
    return frozenbitarray(b) if rep.startswith("frozen") else b


def T():
    from okdmr.dmrlib.etsi.fec.trellis import Trellis34

    return Trellis34


# ---------------------------------------------------------------------------------------------- helpers (harness side)


def tribits_to_bitstr(tribits):
    return "".join(format(t, "03b") for t in tribits)


def block_tribits(hexblock):
    s = format(int(hexblock, 16), "0144b")
    return [int(s[i : i + 3], 2) for i in range(0, 144, 3)]


def block_from_tribits(tribits):
    assert len(tribits) == 48
    return "%036x" % int(tribits_to_bitstr(tribits), 2)


def alternating(a, b):
    return block_from_tribits([a if i % 2 == 0 else b for i in range(48)])


def _lst(x):
    return [int(v) for v in x]


def stream_to_points(bits196: bitarray):
    """encoded stream -> 49 constellation points, through the library's own maps"""
    t = T()
    dibits = call(t.bits_to_dibits, bits196)[1]
    de = call(t.deinterleave, dibits)[1]
    return _lst(call(t.dibits_to_points, de)[1])


def points_to_stream(points) -> bitarray:
    t = T()
    dibits = call(t.points_to_dibits, array("B", points))[1]
    inter = call(t.interleave, dibits)[1]
    return bitarray(call(t.dibits_to_bits, inter)[1])


def encode_bits(hexblock) -> bitarray:
    arg = bitarray(format(int(hexblock, 16), "0144b"))
    keep = arg.copy()
    enc = call(T().encode, arg)[1]
    if arg != keep:
        raise Fail("encode_does_not_mutate_input", arg.to01(), keep.to01())
    if not isinstance(enc, bitarray) or len(enc) != 196:
        raise Fail("encode_yields_196_bits", f"{type(enc).__name__} of length {len(enc) if hasattr(enc, '__len__') else '?'}", "bitarray of 196 bits")
    return enc


_TABLE = {}


def derived_table():
    """8x8 table state -> tribit -> point, derived from the encodings of the 64 alternating blocks (position 1 holds the
    transition a -> b).  Cached per process; a pure function of the library."""
    if not _TABLE:
        for a in range(8):
            for b in range(8):
                pts = stream_to_points(encode_bits(alternating(a, b)))
                _TABLE[(a, b)] = pts[1]
    return _TABLE


# ---------------------------------------------------------------------------------------------- structure oracles


def oracle_dibit_map(case):
    """case = {}: the 4 bit pairs map to 4 distinct dibit values and back."""
    t = T()
    pairs = bitarray("00011011")
    d = _lst(call(t.bits_to_dibits, pairs)[1])
    if len(d) != 4 or len(set(d)) != 4:
        raise Fail("bit_pairs_to_dibits_bijective", d, "4 distinct values")
    back = bitarray(call(t.dibits_to_bits, array("b", d))[1])
    if back != pairs:
        raise Fail("dibits_to_bits_inverts_bits_to_dibits", back.to01(), pairs.to01())
    case["_dibits"] = d


def oracle_point_map(case):
    """case = {}: the 16 constellation points map to 16 distinct dibit pairs (all 4x4 pairs) and back."""
    t = T()
    alphabet = set(_lst(call(t.bits_to_dibits, bitarray("00011011"))[1]))
    d = _lst(call(t.points_to_dibits, array("B", range(16)))[1])
    if len(d) != 32:
        raise Fail("point_maps_to_two_dibits", len(d), 32)
    pairs = [(d[2 * i], d[2 * i + 1]) for i in range(16)]
    if len(set(pairs)) != 16 or any(x not in alphabet for p in pairs for x in p):
        raise Fail("points_to_dibit_pairs_bijective", pairs, f"16 distinct pairs over {sorted(alphabet)}")
    back = _lst(call(t.dibits_to_points, array("b", d))[1])
    if back != list(range(16)):
        raise Fail("dibits_to_points_inverts_points_to_dibits", back, list(range(16)))
    # and the other way round over all 4x4 dibit pairs
    allpairs = [(x, y) for x in sorted(alphabet) for y in sorted(alphabet)]
    pts = _lst(call(t.dibits_to_points, array("b", [v for p in allpairs for v in p]))[1])
    if sorted(pts) != list(range(16)):
        raise Fail("dibit_pairs_to_points_bijective", pts, "a permutation of 0..15")


def oracle_permutation(case):
    """case = {values: [98 ints in -128..127]}: interleave and deinterleave rearrange (multiset preserved) and are mutually
    inverse; for the marker array this shows they are inverse permutations of the 98 positions."""
    t = T()
    vals = case["values"]
    if len(vals) != 98:
        raise HarnessError("need 98 values")
    src = array("b", vals)
    inter = call(t.interleave, array("b", vals))[1]
    de = call(t.deinterleave, array("b", vals))[1]
    for name, out in (("interleave", inter), ("deinterleave", de)):
        if len(out) != 98 or sorted(_lst(out)) != sorted(vals):
            raise Fail(f"{name}_is_a_permutation_of_98_positions", _lst(out), "a rearrangement of the input")
    back = call(t.deinterleave, inter)[1]
    if _lst(back) != vals:
        raise Fail("deinterleave_inverts_interleave", _lst(back), vals)
    back2 = call(t.interleave, de)[1]
    if _lst(back2) != vals:
        raise Fail("interleave_inverts_deinterleave", _lst(back2), vals)
    if _lst(src) != vals:
        raise HarnessError("marker changed")


def oracle_transition(case):
    """case = {a, b}: alternating block (a,b,a,b,…): round trip; the point emitted for a transition does not depend on the
    position; the library's tribits_to_points agrees with what encode put on the air."""
    a, b = case["a"], case["b"]
    blk = alternating(a, b)
    enc = encode_bits(blk)
    pts = stream_to_points(enc)
    if len(pts) != 49:
        raise Fail("stream_holds_49_points", len(pts), 49)
    # positions: 0: 0->a, odd i: a->b, even i>=2: b->a, 48: b->0 (flush)
    ab = {pts[i] for i in range(1, 48, 2)}
    ba = {pts[i] for i in range(2, 48, 2)}
    if len(ab) != 1 or len(ba) != 1:
        raise Fail("transition_point_independent_of_position", {"a->b": sorted(ab), "b->a": sorted(ba)}, "one point per transition")
    tab = derived_table()
    exp = [tab[(0, a)]] + [tab[(a, b)] if i % 2 == 1 else tab[(b, a)] for i in range(1, 48)] + [tab[(b, 0)]]
    if pts != exp:
        raise Fail("encoder_is_a_finite_state_machine_on_previous_tribit", pts, exp)
    tri = [a if i % 2 == 0 else b for i in range(48)] + [0]
    via_fn = _lst(call(T().tribits_to_points, array("B", tri))[1])
    if via_fn != pts:
        raise Fail("tribits_to_points_agrees_with_encode", via_fn, pts)
    dec = call(T().decode, enc.copy())[1]
    want = bitarray(format(int(blk, 16), "0144b"))
    if bitarray(dec) != want:
        raise Fail("decode_returns_block", bitarray(dec).to01(), want.to01())


def oracle_state_row(case):
    """case = {state}: the 8 points a state can emit are pairwise distinct (each transition uniquely invertible) and valid."""
    s = case["state"]
    tab = derived_table()
    row = [tab[(s, t)] for t in range(8)]
    if len(set(row)) != 8 or any(not (0 <= p <= 15) for p in row):
        raise Fail("state_row_emits_8_distinct_points", row, "8 distinct points in 0..15")
    case["_row"] = row


# ---------------------------------------------------------------------------------------------- end to end


def oracle_roundtrip(case):
    """case = {block: hex36}"""
    blk = case["block"]
    want_bits = bitarray(format(int(blk, 16), "0144b"))
    want_bytes = bytes.fromhex(blk)
    enc = encode_bits(blk)
    enc_b = call(T().encode, want_bytes)[1]
    if not isinstance(enc_b, bitarray) or len(enc_b) != 196:
        raise Fail("encode_yields_196_bits", f"{type(enc_b).__name__} of length {len(enc_b)}", "bitarray of 196 bits", "bytes_input")
    if enc_b != enc:
        raise Fail("bits_and_bytes_input_encode_identically", enc_b.to01(), enc.to01())
    arg = enc.copy()
    dec = call(T().decode, arg)[1]
    if arg != enc:
        raise Fail("decode_does_not_mutate_input", arg.to01(), enc.to01())
    if not isinstance(dec, bitarray) or dec != want_bits:
        raise Fail("decode_returns_block", dec.to01() if isinstance(dec, bitarray) else repr(dec), want_bits.to01())
    dec_b = call(T().decode, enc_b.copy(), True)[1]
    if not isinstance(dec_b, bytes) or dec_b != want_bytes:
        raise Fail("decode_as_bytes_returns_block", dec_b.hex() if isinstance(dec_b, bytes) else repr(dec_b), blk)
    dec_kw = call(T().decode, enc.copy(), as_bytes=False)[1]
    if bitarray(dec_kw) != want_bits:
        raise Fail("decode_returns_block", bitarray(dec_kw).to01(), want_bits.to01(), "as_bytes_false")
    # the same bit sequences in other containers (lesson A.1): encode takes big-endian bitarray / frozenbitarray / bytes,
    # decode takes a bitarray of either bit order, frozen or not - where the unchanged tree is right (see ASSUMPTIONS)
    s144, s196 = want_bits.to01(), enc.to01()
    for rep in ENCODE_REPS:
        arg = make_bits(s144, rep)
        st, e2 = call(T().encode, arg, allowed=REJECTIONS)
        if st == "raised":
            case.setdefault("_container_not_accepted", []).append("encode:" + rep)
            continue
        if arg.to01() != s144:
            raise Fail("encode_does_not_mutate_input", arg.to01(), s144, rep)
        if not isinstance(e2, bitarray) or e2.to01() != s196:
            raise Fail("encode_independent_of_container", e2.to01() if isinstance(e2, bitarray) else repr(e2), s196, rep)
    for rep in DECODE_REPS:
        arg = make_bits(s196, rep)
        st, d2 = call(T().decode, arg, allowed=REJECTIONS)
        if st == "raised":
            case.setdefault("_container_not_accepted", []).append("decode:" + rep)
            continue
        if arg.to01() != s196:
            raise Fail("decode_does_not_mutate_input", arg.to01(), s196, rep)
        if not isinstance(d2, bitarray) or d2.to01() != s144:
            raise Fail("decode_independent_of_container", d2.to01() if isinstance(d2, bitarray) else repr(d2), s144, rep)
        d3 = call(T().decode, make_bits(s196, rep), True)[1]
        if d3 != want_bytes:
            raise Fail("decode_independent_of_container", repr(d3), blk, rep + ":as_bytes")


# ---------------------------------------------------------------------------------------------- transformed codewords


_REF_DIBIT = {bits: sym for sym, bits in tref._SYMBOL_BITS.items()}
_REF_POINT = {(tref._POINT_I[p], tref._POINT_Q[p]): p for p in range(16)}


def ref_walk(bits196: str):
    """Normative receive path on the independent reference (vp/refs/trellis34_ref.py): bits -> dibits -> de-interleave ->
    points -> state walk from state 0.  Returns the 49 tribits, or None when some point is not a successor of the state."""
    rx = [_REF_DIBIT[(int(bits196[2 * i]), int(bits196[2 * i + 1]))] for i in range(98)]
    de = [0] * 98
    for i in range(98):
        de[tref.INTERLEAVE[i]] = rx[i]
    state, out = 0, []
    for k in range(49):
        p = _REF_POINT[(de[2 * k], de[2 * k + 1])]
        nxt = [t for t in range(8) if tref.transition(state, t) == p]
        if not nxt:
            return None
        out.append(nxt[0])
        state = nxt[0]
    return out


def lib_walk(bits196: str):
    """The same judgement with the structure derived from the library (its own maps + the table derived from its encoder)."""
    pts = stream_to_points(bitarray(bits196))
    tab = derived_table()
    state, out = 0, []
    for p in pts:
        nxt = [t for t in range(8) if tab[(state, t)] == p]
        if not nxt:
            return None
        out.append(nxt[0])
        state = nxt[0]
    return out


def _perm_dibits(bits, perm):
    """output dibit i = input dibit perm[i]"""
    return "".join(bits[2 * perm[i] : 2 * perm[i] + 2] for i in range(98))


_INV = [0] * 98
for _i, _v in enumerate(tref.INTERLEAVE):
    _INV[_v] = _i

TRANSFORMS = {
    # what a wrong transmit / receive path would do to a valid codeword (dibit permutations refer to the reference interleaver)
    "interleave_skipped": lambda b: _perm_dibits(b, _INV),  # the de-interleaved (trellis order) dibits sent as they are
    "interleave_applied_twice": lambda b: _perm_dibits(b, tref.INTERLEAVE),
    "inverse_interleave_applied": lambda b: _perm_dibits(_perm_dibits(b, _INV), _INV),
    "bits_reversed": lambda b: b[::-1],
    "dibits_reversed": lambda b: _perm_dibits(b, list(range(97, -1, -1))),
    "points_reversed": lambda b: "".join(b[4 * k : 4 * k + 4] for k in range(48, -1, -1)),
    "complemented": lambda b: "".join("1" if c == "0" else "0" for c in b),
    "rotated_left_1_bit": lambda b: b[1:] + b[:1],
    "rotated_right_1_bit": lambda b: b[-1:] + b[:-1],
    "rotated_left_1_dibit": lambda b: b[2:] + b[:2],
    "rotated_right_1_dibit": lambda b: b[-2:] + b[:-2],
    "rotated_left_1_point": lambda b: b[4:] + b[:4],
    "rotated_right_1_point": lambda b: b[-4:] + b[:-4],
    "halves_swapped": lambda b: b[98:] + b[:98],
    "dibits_of_each_point_swapped": lambda b: "".join(b[4 * k + 2 : 4 * k + 4] + b[4 * k : 4 * k + 2] for k in range(49)),
    "bits_of_each_dibit_swapped": lambda b: "".join(b[2 * k + 1] + b[2 * k] for k in range(98)),
}


def transformed_verdict(block, transform):
    """(stream, 'invalid' | 'valid' | 'judges_disagree') for the codeword of ``block`` under ``transform``; the codeword is the
    reference's, so the case does not depend on the library's encoder."""
    v = int(block, 16)
    cw = "".join(map(str, tref.encode([(v >> (143 - i)) & 1 for i in range(144)])))
    bad = TRANSFORMS[transform](cw)
    if len(bad) != 196:
        raise HarnessError("transform changed the length")
    r, l = ref_walk(bad), lib_walk(bad)
    if (r is None) != (l is None):
        return bad, "judges_disagree"
    return bad, "invalid" if r is None else "valid"


def oracle_reject_transformed(case):
    """case = {block: hex36, transform}: the image of a valid codeword under a wrong-path transformation; when the normative
    receive path (reference AND library-derived structure) meets a point the tracked state cannot emit, decode must raise -
    for every container of the stream and for both return types."""
    bad, verdict = transformed_verdict(case["block"], case["transform"])
    if verdict != "invalid":
        return  # happens to be a valid path (e.g. constant blocks under a rotation) or the judges disagree: nothing claimed
    for rep in ["big"] + DECODE_REPS:
        for as_bytes in (False, True):
            st, res = call(T().decode, make_bits(bad, rep), as_bytes, allowed=(Exception,))
            if st == "ok":
                raise Fail("stream_with_unemittable_point_rejected", {"returned": res.to01() if isinstance(res, bitarray) else repr(res)}, "an exception", case["transform"])


# ---------------------------------------------------------------------------------------------- rejection


def oracle_reject(case):
    """case = {block: hex36, pos: 0..48, point: 0..15}: the point must be one the state at that position cannot emit; the
    patched stream raises."""
    blk, pos, point = case["block"], case["pos"], case["point"]
    tri = block_tribits(blk) + [0]
    state = 0 if pos == 0 else tri[pos - 1]
    tab = derived_table()
    row = [tab[(state, t)] for t in range(8)]
    if len(set(row)) != 8:
        raise Fail("state_row_emits_8_distinct_points", row, "8 distinct points")
    if point in row or not (0 <= point <= 15):
        raise HarnessError(f"point {point} can be emitted by state {state}: not a rejection case")
    enc = encode_bits(blk)
    pts = stream_to_points(enc)
    if points_to_stream(pts) != enc:
        raise Fail("library_maps_reproduce_encoded_stream", points_to_stream(pts).to01(), enc.to01())
    if pts[pos] != tab[(state, tri[pos])]:
        raise Fail("encoder_is_a_finite_state_machine_on_previous_tribit", pts[pos], tab[(state, tri[pos])])
    pts[pos] = point
    bad = points_to_stream(pts)
    if len(bad) != 196 or bad == enc:
        raise HarnessError("patched stream malformed")
    st, res = call(T().decode, bad, allowed=(Exception,))
    if st == "ok":
        raise Fail("stream_with_unemittable_point_rejected", {"returned": res.to01() if isinstance(res, bitarray) else repr(res)}, "an exception", f"pos_{'first' if pos == 0 else 'last' if pos == 48 else 'middle'}")
    for as_bytes in (True,):
        st, res = call(T().decode, bad.copy(), as_bytes, allowed=(Exception,))
        if st == "ok":
            raise Fail("stream_with_unemittable_point_rejected", {"returned": repr(res)}, "an exception", "as_bytes")


# ---------------------------------------------------------------------------------------------- drivers


def drv_maps(ctx: Ctx, sub: SubCheck):
    ctx.run_case("dibit_map", oracle_dibit_map, {})
    ctx.tally.case("dibit_map", nontrivial=True, cls="all_4_bit_pairs", n=4)
    ctx.tally.sample("dibit_map", {"bit_pairs": "00 01 10 11"})
    ctx.tally.exhaustive["dibit_map"] = True
    ctx.run_case("point_map", oracle_point_map, {})
    ctx.tally.case("point_map", nontrivial=True, cls="all_16_points_and_16_dibit_pairs", n=32)
    ctx.tally.sample("point_map", {"points": list(range(16))})
    ctx.tally.exhaustive["point_map"] = True


def drv_permutation(ctx: Ctx, sub: SubCheck):
    cases = [{"values": list(range(98))}, {"values": [97 - i for i in range(98)]}]
    for i in range(98):
        v = [0] * 98
        v[i] = 1
        cases.append({"values": v})
    rng = ctx.rng("perm")
    for _ in range(ctx.pick(20, 500)):
        cases.append({"values": [rng.choice([3, 1, -1, -3]) for _ in range(98)]})
    for i, c in enumerate(cases):
        ctx.run_case(sub.name, oracle_permutation, c)
        ctx.tally.case(sub.name, nontrivial=True, cls="marker" if i < 2 else ("unit_array" if i < 100 else "random_dibits"))
    ctx.tally.sample(sub.name, cases[0])
    ctx.tally.sample(sub.name, cases[50])
    ctx.tally.exhaustive[sub.name] = True
    ctx.tally.notes.append("permutation: the marker array 0..97 decides the property completely; unit and random dibit arrays are additional")


def drv_transitions(ctx: Ctx, sub: SubCheck):
    items = [(a, b) for a in range(8) for b in range(8)]

    def work(it, t: Tally):
        a, b = it
        ctx.run_case(sub.name, oracle_transition, {"a": a, "b": b}, t)
        t.case(sub.name, nontrivial=(a != b), cls="a_ne_b" if a != b else "a_eq_b")
        if (a * 8 + b) % 13 == 0:
            t.sample(sub.name, {"a": a, "b": b, "block": alternating(a, b)})

    ctx.shards(work, items, chunksize=4)
    ctx.tally.exhaustive[sub.name] = True
    rows = {}
    for s in range(8):
        case = {"state": s}
        ctx.run_case("state_rows", oracle_state_row, case)
        ctx.tally.case("state_rows", nontrivial=True, cls="row")
        rows[str(s)] = case.get("_row")
    ctx.tally.sample("state_rows", {"state": 3})
    ctx.tally.exhaustive["state_rows"] = True
    ctx.tally.extra["derived_transition_table"] = rows


def _n_distinct(blk):
    return len(set(block_tribits(blk)))


def drv_roundtrip_structured(ctx: Ctx, sub: SubCheck):
    blocks = [alternating(a, b) for a in range(8) for b in range(8)]
    for p in range(48):
        for v in range(1, 8):
            tr = [0] * 48
            tr[p] = v
            blocks.append(block_from_tribits(tr))
    blocks += ["ff" * 18, "00" * 18, "aa" * 18, "55" * 18]
    # de Bruijn-like: all 512 tribit triples appear (sequence over 8 symbols, order 3, cut into 48-tribit blocks with overlap)
    seq = _de_bruijn(8, 3)
    seq = seq + seq[:2]
    for lo in range(0, len(seq) - 2, 46):
        chunk = seq[lo : lo + 48]
        chunk = chunk + [0] * (48 - len(chunk))
        blocks.append(block_from_tribits(chunk))
    chunks = [blocks[i::16] for i in range(16)]

    def work(chunk, t: Tally):
        for blk in chunk:
            ctx.run_case(sub.name, oracle_roundtrip, {"block": blk}, t)
            t.case(sub.name, nontrivial=_n_distinct(blk) >= 3, cls=f"{min(_n_distinct(blk), 4)}{'+' if _n_distinct(blk) >= 4 else ''}_distinct_tribits")
        if chunk:
            t.sample(sub.name, {"block": chunk[len(chunk) // 2]})

    ctx.shards(work, chunks)
    ctx.tally.extra["structured_blocks"] = len(blocks)


def _de_bruijn(k, n):
    a = [0] * k * n
    seq = []

    def db(t, p):
        if t > n:
            if n % p == 0:
                seq.extend(a[1 : p + 1])
        else:
            a[t] = a[t - p]
            db(t + 1, p)
            for j in range(a[t - p] + 1, k):
                a[t] = j
                db(t + 1, t)

    db(1, 1)
    return seq


def st_block():
    from hypothesis import strategies as st

    uniform = st.binary(min_size=18, max_size=18).map(bytes.hex)
    small_alphabet = st.lists(st.integers(0, 7), min_size=1, max_size=3).flatmap(lambda al: st.lists(st.sampled_from(al), min_size=48, max_size=48)).map(block_from_tribits)
    any_tribits = st.lists(st.integers(0, 7), min_size=48, max_size=48).map(block_from_tribits)
    return st.one_of(uniform, uniform, any_tribits, small_alphabet)


def drv_roundtrip_random(ctx: Ctx, sub: SubCheck):
    from hypothesis import strategies as st

    strat = st_block().map(lambda b: {"block": b})

    def work(shard, t: Tally):
        ctx.hypothesis(sub.name, strat, oracle_roundtrip, ctx.pick(250, 6500), tally=t, shard=shard,
                       record=lambda c, tt: tt.case(sub.name, key=c, nontrivial=_n_distinct(c["block"]) >= 3, cls=f"{min(_n_distinct(c['block']), 4)}{'+' if _n_distinct(c['block']) >= 4 else ''}_distinct_tribits"))

    ctx.shards(work, list(range(16)))


def drv_reject(ctx: Ctx, sub: SubCheck):
    rng = ctx.rng("reject")
    alt = [alternating(a, b) for a in range(8) for b in range(8)]
    blocks = alt + ["%036x" % rng.getrandbits(144) for _ in range(ctx.pick(4, 60))]
    items = [(blk, pos) for blk in blocks for pos in range(49)]

    def work(it, t: Tally):
        blk, pos = it
        tri = block_tribits(blk) + [0]
        state = 0 if pos == 0 else tri[pos - 1]
        tab = derived_table()
        row = {tab[(state, x)] for x in range(8)}
        n = 0
        for point in range(16):
            if point in row:
                continue
            ctx.run_case(sub.name, oracle_reject, {"block": blk, "pos": pos, "point": point}, t)
            n += 1
        t.case(sub.name, nontrivial=True, cls="first_position" if pos == 0 else ("flush_position" if pos == 48 else "middle_position"), n=n)
        if pos in (0, 17, 48) and blk == blocks[0]:
            t.sample(sub.name, {"block": blk, "pos": pos, "point": sorted(set(range(16)) - row)[0]})

    ctx.shards(work, items, chunksize=8)
    ctx.tally.exhaustive[sub.name] = True
    ctx.tally.extra["rejection_blocks"] = len(blocks)
    ctx.tally.notes.append("reject: complete over 49 positions x the 8 unemittable points for each chosen block; blocks: " + f"all 64 alternating + {len(blocks) - 64} random")


# ---------------------------------------------------------------------------------------------- reuse / scribble-and-repeat


def _damage(buf: bitarray, how: str):
    """in-place damage of a buffer the library handed out (what a caller simulating channel errors would do)"""
    if how == "invert":
        buf.invert()
    elif how == "flip":
        buf.invert(len(buf) // 3)
    elif how == "truncate":
        del buf[150:]
    elif how == "extend":
        buf.extend([1, 0, 1, 1])
    elif how == "zero":
        buf.setall(0)
    else:
        raise HarnessError(f"unknown damage {how}")


def oracle_reuse(case):
    """case = {blocks: [hex36...], seq: [[block index, "bits"|"bytes", damage], ...]}.  A caller encodes blocks, damages the
    returned streams IN PLACE (channel simulation) and encodes / decodes again, possibly the same block: every encode must
    still yield the 196 bits that decode to the block (for every block = also for a block that was encoded before), and
    the result of decode must not depend on what was done to earlier results."""
    blocks = case["blocks"]
    first = {}
    for idx, form, dmg in case["seq"]:
        blk = blocks[idx]
        want_bits = bitarray(format(int(blk, 16), "0144b"))
        arg = want_bits.copy() if form == "bits" else bytes.fromhex(blk)
        enc = call(T().encode, arg)[1]
        if not isinstance(enc, bitarray) or len(enc) != 196:
            raise Fail("encode_yields_196_bits", f"{type(enc).__name__} of length {len(enc)}", "bitarray of 196 bits", "after_caller_modified_an_earlier_result")
        if blk in first and enc != first[blk]:
            raise Fail("encode_same_block_same_bits_regardless_of_history", enc.to01(), first[blk].to01())
        first.setdefault(blk, enc.copy())
        dec = call(T().decode, enc.copy())[1]
        if bitarray(dec) != want_bits:
            raise Fail("decode_returns_block", bitarray(dec).to01(), want_bits.to01(), "after_caller_modified_an_earlier_result")
        # the caller now owns enc and dec: scribble on them
        _damage(enc, dmg)
        if isinstance(dec, bitarray):
            dec.invert()
        if isinstance(arg, bitarray):
            arg.invert()


def drv_reuse(ctx: Ctx, sub: SubCheck):
    from hypothesis import strategies as st

    damages = ["invert", "flip", "truncate", "extend", "zero"]
    step = st.tuples(st.integers(0, 1), st.sampled_from(["bits", "bytes"]), st.sampled_from(damages)).map(list)
    strat = st.builds(lambda b0, b1, seq: {"blocks": [b0, b1], "seq": seq}, st_block(), st_block(), st.lists(step, min_size=2, max_size=6))

    def rec(c, tt):
        idxs = [x[0] for x in c["seq"]]
        repeat = len(set(idxs)) < len(idxs)
        tt.case(sub.name, key=c, nontrivial=repeat, cls="same_block_encoded_again" if repeat else "no_repeat")

    # deterministic core: every damage kind x both input forms x (same block again | other block in between)
    det = []
    for dmg in damages:
        for f1 in ("bits", "bytes"):
            for f2 in ("bits", "bytes"):
                det.append({"blocks": ["a4" + "00" * 17, "5a" * 18], "seq": [[0, f1, dmg], [0, f2, dmg]]})
                det.append({"blocks": ["0123456789abcdef0123456789abcdef0123", "ff" * 18], "seq": [[0, f1, dmg], [1, f2, dmg], [0, f2, "invert"], [1, f1, dmg]]})
    for c in det:
        ctx.run_case(sub.name, oracle_reuse, c)
        ctx.tally.case(sub.name, key=c, nontrivial=True, cls="directed")

    def work(shard, t: Tally):
        ctx.hypothesis(sub.name, strat, oracle_reuse, ctx.pick(60, 800), tally=t, shard=shard, record=rec)

    ctx.shards(work, list(range(16)))


def drv_reject_transformed(ctx: Ctx, sub: SubCheck):
    if not tref.selfcheck():
        raise HarnessError("trellis reference self-check failed")
    rng = ctx.rng("transformed")
    blocks = [alternating(a, b) for a in range(8) for b in range(8)] + ["00" * 18, "ff" * 18, "aa" * 18]
    blocks += ["%036x" % rng.getrandbits(144) for _ in range(ctx.pick(60, 1500))]
    names = sorted(TRANSFORMS)
    chunks = [blocks[i::16] for i in range(16)]

    def work(chunk, t: Tally):
        for blk in chunk:
            for name in names:
                case = {"block": blk, "transform": name}
                verdict = transformed_verdict(blk, name)[1]
                if verdict == "invalid":
                    ctx.run_case(sub.name, oracle_reject_transformed, case, t)
                    t.case(sub.name, nontrivial=True, cls=name)
                else:
                    t.excluded[f"transformed stream {verdict}"] += 1
        if chunk:
            t.sample(sub.name, {"block": chunk[-1], "transform": "interleave_skipped"})

    ctx.shards(work, chunks)
    ctx.tally.notes.append(f"reject_transformed: {len(names)} wrong-path images of {len(blocks)} codewords (64 alternating, 3 constant, seeded random), judged by the independent trellis reference and by the library-derived structure; only streams both call invalid are claimed")


SUBCHECKS = [
    SubCheck("dibit_map", oracle_dibit_map, drv_maps, "bit pair <-> dibit value is a bijection on 4 values"),
    SubCheck("point_map", oracle_point_map, lambda ctx, sub: None, "constellation point <-> dibit pair is a bijection on 16 values (driven by dibit_map)"),
    SubCheck("permutation", oracle_permutation, drv_permutation, "interleave / deinterleave are inverse permutations of the 98 dibit positions"),
    SubCheck("transitions", oracle_transition, drv_transitions, "64 alternating blocks: round trip, position-independent transitions, FSM on the previous tribit"),
    SubCheck("state_rows", oracle_state_row, lambda ctx, sub: None, "each of the 8 state rows of the derived table emits 8 distinct points (driven by transitions)"),
    SubCheck("roundtrip_structured", oracle_roundtrip, drv_roundtrip_structured, "alternating, single-tribit, constant and de-Bruijn blocks: 196 bits, decode == block, bits == bytes"),
    SubCheck("roundtrip_random", oracle_roundtrip, drv_roundtrip_random, "Hypothesis blocks: 196 bits, decode == block, bits == bytes"),
    SubCheck("reject", oracle_reject, drv_reject, "every unemittable point at every position of the chosen blocks makes decode raise"),
    SubCheck("reject_transformed", oracle_reject_transformed, drv_reject_transformed, "codewords with the interleave skipped / doubled / inverted, reversed, rotated, complemented, halves swapped: decode raises whenever the normative path meets an unemittable point"),
    SubCheck("reuse", oracle_reuse, drv_reuse, "histories: encode, caller damages the returned stream in place, encode/decode again (same or other block) - results independent of that"),
]
PREDICATES = {}
