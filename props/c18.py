"""C18 — repeater handshake handlers: the P2P handler serves only registered peers, the RDAC identification handler advances
per-peer steps correctly, peers are isolated, completion is reported once.

History property.  Runner = reference model + the real P2PDatagramProtocol and RDACDatagramProtocol sharing one
RepeaterStorage (as in the application), each wired to a recording fake asyncio DatagramTransport.  Ops are plain-JSON
datagram descriptions turned into octets by builders in this file.  `Repeater.read_snmp_values` (network I/O) is replaced by
a recording stub while a Runner is alive and restored in close().

Sub-checks
  p2p_exhaustive      all sequences over 27 P2P symbols (3 peers x 8 datagram kinds + configuration / boundary symbols)
  rdac_exhaustive     all sequences over 26 RDAC symbols, started from every one of the 14 reachable steps of peer 0
  random_histories    Hypothesis RuleBasedStateMachine, both handlers interleaved, random filler / lengths / texts, woven bursts of 2-3 peers
  interleaved_runs    scripted interleavings of two or three peers' complete identification runs / P2P lives: every cut point, strict
                      alternation with every lead, every merge order, restarts and garbage in between
End of every history (finish / op 'solo_check'): every source is compared with the same source's datagrams delivered alone to fresh
handlers on a fresh storage (emissions, allowed exceptions, completion reports, SNMP reads, final step, record fields except the id).
Prelude (PRELUDE_OPS): another storage with its own two handlers serves sources with the same addresses as the case's peers.
"""
from __future__ import annotations

import asyncio
import collections
import itertools

from vp.core import Ctx, Fail, SubCheck, Tally, exc_klass, lib_raised, make_machine, replay_ops_oracle

LEVEL = "exploration"
RULE = (
    "histories of datagrams from 8 sources (3 distinct hosts; pairs that share the host and differ in the port, share the port and differ in "
    "the host, or differ only in the case / textual representation of the host; deterministic 'twin' scripts: one twin registers, every "
    "request kind from the other) - every symbol also repeated 300 / 1000 times in every mode, random histories contain repeated blocks - "
    "to the P2P handler {registration, DMR start-up, RDAC start-up, ping, ack, "
    "unknown command type, non-command garbage, short command, short ping, octet-4 = 255 boundary} and to the RDAC handler "
    "{the response expected for the peer's current model step, each response prefix FD/10/00/FA, other prefixes, one-byte "
    "datagrams 0x00 / other, garbage, short step-10 response, step-6 response with invalid UTF-16} plus storage configuration "
    "of the outbound address; (a) ALL sequences up to the bounds in 'exhaustive_history_length' (RDAC: from every reachable "
    "start step of peer 0), (b) random interleavings up to 50 (quick) / 150 (thorough) datagrams.  Oracle: reference model "
    "(registered set, stored outbound addresses, per-IP step automaton, completion count) compared with emissions, the step "
    "dictionary, the registered attribute, a field dump of every other peer's record and the callback log after every "
    "datagram; at the end of every history (<= 400 datagrams) every source is served once more alone on fresh handlers and must have been "
    "treated identically (sources sharing their host with another RDAC source excepted); (c) scripted interleavings of 2-3 peers' complete "
    "13-datagram identification runs and 4-datagram P2P lives at every cut point / alternating / every merge order.  Distinct = hash of the op sequence (enumeration: by construction).  Non-trivial: P2P - a request before and "
    "after the same peer's registration; RDAC - a peer reaches step >= 7, or a one-byte reset arrives at step >= 2."
)
ASSUMPTIONS = [
    "a source is an (host string, port) pair compared as given; the RDAC handler keys its steps by the host string, so two sources on one host "
    "share one identification run by design (the model does the same), while records, registration and the completion report are per source",
    "step 0 is 'not started': any datagram from an idle peer starts the identification (code: step0 ignores its data); a "
    "one-byte datagram restarts it at any step; at step 14 (completed) the code ignores it, which the model accepts as well "
    "(a restart there would begin a new run with its own completion report)",
    "the expected response prefixes per step and the names of the requests sent per transition are read from "
    "rdac_datagram_protocol.py (HRNP: FD accept, 10 data-ack, 00 data, FA close-ack); emitted requests are compared with the "
    "handler's own class constants by name, their octets are not judged",
    "exceptions are tolerated only without emission and without any state change, and only for: step-6 response whose text "
    "fields are not valid UTF-16 (UnicodeDecodeError), step-10 response shorter than 27 octets (IndexError), ping shorter than "
    "15 octets from a registered peer (IndexError), command with octet 4 = 255 (ValueError)",
    "emitted P2P datagrams are classified by shape only (reject = the single octet 00; acceptance / registration answer = "
    "request length + 1, redirect = + 4, ping answer = same length with the ping marker); their field values are not part of "
    "the statement",
    "'keeps peers separate' is also read as: what the handlers send to, store for and report about a source does not depend on the datagrams of "
    "other sources (record ids, which are random, are left out of that comparison; two sources on one host share an identification run by design "
    "and are left out when both talk to the RDAC handler)",
    "at step 14 a one-byte 0x00 may be answered by at most one datagram to that peer ('no data available'); nothing else is "
    "ever sent after completion",
]

# peers 0..2: distinct hosts; 3: same host as 0, other port; 1: same port as 0, other host; 4/5: hosts that differ only in case;
# 6: another textual representation of host 4; 7: another textual representation of host 0.  The handlers compare addresses as
# given (strings), so all eight are different sources; the RDAC handler keys its steps by the host string, so 0 and 3 share a step.
PEERS = [["10.0.0.1", 50000], ["10.0.0.2", 50000], ["10.0.0.3", 62000], ["10.0.0.1", 50001], ["fe80::1a", 50000], ["FE80::1A", 50000],
         ["fe80:0:0:0:0:0:0:1a", 50000], ["010.000.000.001", 50000]]
TWINS = [(0, 3), (3, 0), (0, 1), (4, 5), (5, 4), (4, 6), (0, 7), (7, 0)]  # (registers, never registers)
REPEAT_COUNTS = [2, 3, 4, 5, 6, 7, 8, 9, 10, 11, 12, 16, 17, 31, 32, 33, 64, 100, 128, 255, 256, 257, 300]
MARKER_FILLS = ["7e04", "7e0400fd", "fffe", "feff", "0300", "503250", "0a00000014", "0c00000014", "5a5a5a5a", "00", "4100"]
OUTS = [["10.0.0.1", 50000], ["172.16.0.9", 40000], ["", 0]]
P2P_PORT, RDAC_PORT = 50000, 50002
SOLO_MAX_LOG = 400  # histories with more datagrams than this are not replayed source by source at their end
PING_MARK = bytes([0x0A, 0x00, 0x00, 0x00, 0x14])
ACK_MARK = bytes([0x0C, 0x00, 0x00, 0x00, 0x14])
TYPE = {"reg": 0x10, "dmr": 0x11, "rdac": 0x12}

# ---- RDAC reference automaton -------------------------------------------------------------------------------------
EXPECT = {1: 0xFD, 2: 0x10, 3: 0x00, 4: 0x00, 5: 0x10, 6: 0x00, 7: 0x10, 8: 0x10, 10: 0x00, 11: 0x10, 12: 0x00, 13: 0xFA}
NEXT = {1: 2, 2: 3, 3: 4, 4: 5, 5: 6, 6: 7, 7: 8, 8: 10, 10: 11, 11: 12, 12: 13, 13: 14}
EMIT = {
    (0, 1): ["STEP0_REQUEST"],
    (1, 2): ["STEP1_REQUEST"],
    (3, 4): ["STEP3_REQUEST"],
    (4, 5): ["STEP4_REQUEST_1", "STEP4_REQUEST_2"],
    (6, 7): ["STEP6_REQUEST_1", "STEP6_REQUEST_2"],
    (7, 8): ["STEP7_REQUEST"],
    (10, 11): ["STEP10_REQUEST"],
    (12, 13): ["STEP12_REQUEST_1", "STEP12_REQUEST_2"],
}
STEPS = [0, 1, 2, 3, 4, 5, 6, 7, 8, 10, 11, 12, 13, 14]
TEXT_SLICES = [(88, 108), (120, 184), (56, 88), (184, 216)]
DUMP_FIELDS = ["id", "dmr_id", "callsign", "serial", "address_in", "address_out", "address_nat", "snmp_enabled", "nat_enabled"]
DUMP_ATTRS = ["p2p_is_registered", "rdac_hardware", "rdac_firmware", "rx_freq", "tx_freq"]


def utf16_ok(data: bytes) -> bool:
    for a, b in TEXT_SLICES:
        try:
            data[a:b].decode("utf-16-le")
        except UnicodeDecodeError:
            return False
    return True


# ---- builders ------------------------------------------------------------------------------------------------------


def _filled(n: int, fill_hex: str) -> bytearray:
    fill = bytes.fromhex(fill_hex or "00")
    return bytearray((fill * (n // len(fill) + 1))[:n])


def p2p_classify(data: bytes) -> str:
    """datagram kind by the framing alone (used for truncated datagrams, whose kind is no longer the kind they were cut from)"""
    if data[:3] == b"P2P":
        t = data[20] if len(data) > 20 else 0
        for k, v in TYPE.items():
            if t == v:
                return k
        return "unknown"
    if data[4:9] == PING_MARK:
        return "ping" if len(data) >= 15 else "short_ping"
    return "garbage"


def p2p_template(kind: str) -> bytearray:
    """Datagrams shaped like real traffic as far as the repository shows it: the handler's own PING_PREFIX / ACK_PREFIX constants say
    that octet 4 is a sequence / id octet followed by 00 00 00 14; commands are 'P2P' 00 <id> 00 00 00 14, 11 octets, the request type
    at offset 20 and a tail; pings start with 'ZZZZ' (the marker of the IPSC captures in the repository's tests)."""
    if kind in ("ping", "short_ping"):
        return bytearray(b"ZZZZ" + PING_MARK + bytes(11 if kind == "ping" else 3))
    ident = {"reg": 0x00, "dmr": 0x01, "rdac": 0x02, "ack": 0x0C, "unknown": 0x03}[kind]
    typ = {"reg": 0x10, "dmr": 0x11, "rdac": 0x12, "ack": 0x00, "unknown": 0x13}[kind]
    return bytearray(b"P2P\x00" + bytes([ident, 0x00, 0x00, 0x00, 0x14]) + bytes(11) + bytes([typ]) + bytes(13 if kind == "rdac" else 12))


P2P_DONORS = ["p2p_ack", "p2p_ping", "p2p_reg", "p2p_dmr", "p2p_rdac"]
RESP_DONORS = ["resp_fd", "resp_10", "resp_00", "resp_fa"]
REQ_DONORS = ["req_" + n for n in sorted({n for names in EMIT.values() for n in names})]
ALL_DONORS = P2P_DONORS + RESP_DONORS + REQ_DONORS + ["one_00"]
SPANS = {"free": (0, 10**6), "4-8": (4, 9), "4-12": (4, 13), "13-19": (13, 20)}


def donor_bytes(name: str) -> bytes:
    """a real datagram of another kind whose octets are copied into the free positions of a probe"""
    if name.startswith("p2p_"):
        return bytes(p2p_template(name[4:]))
    if name.startswith("resp_"):
        return rdac_response(int(name[5:], 16), 220, "4100")
    if name.startswith("req_"):
        from okdmr.dmrlib.protocols.hytera.rdac_datagram_protocol import RDACDatagramProtocol

        return bytes(getattr(RDACDatagramProtocol, name[4:]))  # donor octets only, never an expectation
    if name == "one_00":
        return b"\x00"
    raise ValueError(name)


def p2p_bytes(op) -> bytes:
    if op.get("cut") is not None:
        return p2p_bytes({k: v for k, v in op.items() if k != "cut"})[: op["cut"]]
    if op.get("tpl"):
        kind = op["kind"]
        d = p2p_template(kind)
        if op.get("from"):
            # the positions the framing of this kind does not use: not the 'P2P' prefix / the type octet at 20 of a command, not the
            # first four octets / the marker at 4..8 of a ping; the length stays
            fixed = {0, 1, 2, 3, 4, 5, 6, 7, 8} if kind in ("ping", "short_ping") else {0, 1, 2, 20}
            donor = donor_bytes(op["from"])
            lo, hi = SPANS[op.get("span", "free")]
            for i in range(max(lo, 0), min(hi, len(d), len(donor))):
                if i not in fixed:
                    d[i] = donor[i]
        if op.get("b4") is not None:
            d[4] = op["b4"] & 0xFF
        if op.get("b0") is not None:
            d[0] = op["b0"] & 0xFF
        return bytes(d)
    kind = op["kind"]
    n = op.get("n", 33)
    if kind in ("reg", "dmr", "rdac", "unknown", "ack"):
        d = _filled(max(n, 21), op.get("fill"))
        d[0:3] = b"P2P"
        d[4] = op.get("b4", 0) & 0xFF
        if kind in TYPE:
            d[20] = TYPE[kind]
        elif kind == "ack":
            d[4:9] = ACK_MARK
            d[20] = 0x00
        else:
            t = op.get("t", 0x13) & 0xFF
            d[20] = t if t not in TYPE.values() else 0x13
        return bytes(d)
    if kind == "short":
        return (b"P2P" + bytes(_filled(max(0, min(n, 20) - 3), op.get("fill"))))[:20]
    if kind in ("ping", "short_ping"):
        n = max(n, 15) if kind == "ping" else min(max(n, 9), 14)
        d = _filled(n, op.get("fill") or "5a")
        d[4:9] = PING_MARK
        if d[0:3] == b"P2P":
            d[0] = 0x5A
        return bytes(d)
    if kind == "garbage":
        d = bytearray.fromhex(op.get("hex", ""))
        if d[0:3] == b"P2P":
            d[0] ^= 0xFF
        if d[4:9] == PING_MARK:
            d[4] ^= 0xFF
        return bytes(d)
    raise ValueError(f"bad p2p kind {kind}")


def rdac_response(last: int, n: int, fill_hex: str, bad_slice=None) -> bytes:
    """n octets: 7E 04 00 <last> + filler (n < 4: a truncated prefix); ``bad_slice``: make one of the four step-6 text fields
    invalid UTF-16 (needs n >= 216)."""
    d = _filled(max(n, 4), fill_hex or "4100")
    d[0:4] = bytes([0x7E, 0x04, 0x00, last & 0xFF])
    if bad_slice is not None and len(d) >= 216:
        a, _ = TEXT_SLICES[bad_slice % 4]
        d[a : a + 4] = b"\x00\xd8\x41\x00"  # lone high surrogate followed by a non-surrogate
    return bytes(d[: max(n, 0)])


class FakeTransport(asyncio.DatagramTransport):
    def __init__(self):
        super().__init__()
        self.sent = []

    def sendto(self, data, addr=None):
        self.sent.append((bytes(data), tuple(addr) if addr is not None else None))

    def is_closing(self):
        return False

    def close(self):
        pass

    def get_extra_info(self, name, default=None):
        return default


# ---- stub for Repeater.read_snmp_values ----------------------------------------------------------------------------
_STUB = {"depth": 0, "orig": None, "calls": []}


def _install_stub():
    from okdmr.dmrlib.storage.repeater import Repeater

    if _STUB["depth"] == 0:
        _STUB["orig"] = Repeater.__dict__["read_snmp_values"]

        def read_snmp_values(self, *a, **kw):  # no network
            _STUB["calls"].append(self.id)
            return {}

        Repeater.read_snmp_values = read_snmp_values
    _STUB["depth"] += 1


def _remove_stub():
    from okdmr.dmrlib.storage.repeater import Repeater

    _STUB["depth"] -= 1
    if _STUB["depth"] == 0:
        Repeater.read_snmp_values = _STUB["orig"]
        _STUB["calls"].clear()


# ---- runner --------------------------------------------------------------------------------------------------------


class Runner:
    def __init__(self):
        from okdmr.dmrlib.protocols.hytera.p2p_datagram_protocol import P2PDatagramProtocol
        from okdmr.dmrlib.protocols.hytera.rdac_datagram_protocol import RDACDatagramProtocol
        from okdmr.dmrlib.storage.repeater_storage import RepeaterStorage

        _install_stub()
        self.closed = False
        self.storage = RepeaterStorage()
        self.p2p = P2PDatagramProtocol(self.storage, p2p_port=P2P_PORT, rdac_port=RDAC_PORT)
        self.tp = FakeTransport()
        self.p2p.connection_made(self.tp)
        self.done = []
        self.rdac = RDACDatagramProtocol(self.storage, callback=self.done.append)
        self.tr = FakeTransport()
        self.rdac.connection_made(self.tr)
        # model
        self.recs = {}  # addr tuple -> {"registered": bool, "out": tuple}
        self.step = {}  # ip -> step
        self.completed = []  # addr tuples in completion order
        # statistics
        self.req_before = set()
        self.req_before_and_after = set()
        self.max_step = 0
        self.reset_after_2 = 0
        self.opc = collections.Counter()
        self.flags = collections.Counter()
        # per-source log for the end-of-history comparison with the same source served alone (see finish)
        self.log = []
        self._last = (None, None)

    def close(self):
        if not self.closed:
            self.closed = True
            _remove_stub()

    # -- helpers ---------------------------------------------------------------------------------
    def dump(self):
        out = {}
        for r in self.storage.all():
            key = tuple(r.address_in) if r.address_in is not None else None
            rec = {f: getattr(r, f) for f in DUMP_FIELDS}
            rec.update({a: r.attr(a) for a in DUMP_ATTRS})
            out.setdefault(key, []).append(rec)
        return out

    def call(self, handler, data, addr, allowed):
        """Deliver; returns the exception instance when an allowed exception type came out, else None."""
        try:
            handler.datagram_received(data, addr)
            return None
        except allowed as e:
            if not lib_raised(e):
                raise
            return e
        except Exception as e:
            if not lib_raised(e):
                raise
            raise Fail("no_unexpected_exception", f"{type(e).__name__}: {e}", "no exception" if not allowed else "only " + "/".join(t.__name__ for t in allowed),
                       exc_klass(e))

    def apply(self, op):
        k = op["k"]
        if k == "repeat":  # the same op or short block of ops n times
            self.flags["repeat_%s" % ("100_or_more" if op["n"] >= 100 else "10_to_99" if op["n"] >= 10 else "2_to_9")] += 1
            for _ in range(op["n"]):
                for o in op["ops"]:
                    self.apply(o)
            return
        if k == "block":  # ops generated together (bursts of several peers woven into each other)
            self.flags["woven_block"] += 1
            for o in op["ops"]:
                self.apply(o)
            return
        if k == "rdac_run":  # a burst of expected responses (plain ops, applied one by one)
            for _ in range(op["count"]):
                self.apply({"k": "rdac", "peer": op["peer"], "kind": "expected", "fill": op.get("fill")})
            return
        if k == "solo_check":
            self.solo_check()
            return
        addr = tuple(PEERS[op["peer"] % len(PEERS)])
        self.expect_unchanged = False
        before = self.dump()
        step_before = dict(self.rdac.step)
        done_before = len(self.done)
        marks = (len(self.tp.sent), len(self.tr.sent), len(self.done), len(_STUB["calls"]))
        self._last = (None, None)
        try:
            if k == "cfg":
                out = tuple(OUTS[op["out"] % len(OUTS)])
                self.storage.match_incoming(addr, auto_create=True, patch={"address_out": out})
                self.recs.setdefault(addr, {"registered": False, "out": ("", 0)})["out"] = out
                self.opc["cfg"] += 1
                self._last = (op["out"] % len(OUTS), None)
            elif k == "p2p":
                self.opc["p2p_" + op["kind"]] += 1
                self.apply_p2p(op, addr)
            elif k == "rdac":
                self.opc["rdac_" + op["kind"]] += 1
                self.apply_rdac(op, addr)
            else:
                raise ValueError(f"bad op {op}")
        finally:
            if len(self.log) <= SOLO_MAX_LOG:
                self.log.append(self._entry(addr, k, self._last[0], self._last[1], marks, self.tp, self.tr, self.done, self.storage))
        self.compare_state(addr, before, step_before, done_before, k)

    # -- every source once more, alone -----------------------------------------------------------------
    @staticmethod
    def _entry(addr, k, payload, exc, marks, tp, tr, done, storage):
        """what one delivered datagram made the handlers do, in terms that do not depend on the random record ids"""
        own = [r.id for r in storage.all() if r.address_in == addr]
        return {"addr": addr, "k": k, "payload": payload, "exc": exc, "p2p_sent": list(tp.sent[marks[0]:]), "rdac_sent": list(tr.sent[marks[1]:]),
                "completions_with_own_id": [i in own for i in done[marks[2]:]], "snmp_reads_of_own_record": [i in own for i in _STUB["calls"][marks[3]:]]}

    @staticmethod
    def _final(addr, rdac, storage, with_step):
        recs = [r for r in storage.all() if r.address_in == addr]
        return {"step": rdac.step.get(addr[0]) if with_step else None, "records": [dict({f: getattr(r, f) for f in DUMP_FIELDS if f != "id"}, **{a: r.attr(a) for a in DUMP_ATTRS}) for r in recs]}

    def finish(self):
        self.solo_check()

    def solo_check(self):
        """Peers are kept separate: what the handlers sent to / stored for / reported about a source during the interleaved history equals
        what they do when the same datagrams of that source arrive alone at fresh handlers on a fresh storage.  Sources that share their
        host string with another source that talked to the RDAC handler are left out (one identification run per host, by design)."""
        if not self.log or len(self.log) > SOLO_MAX_LOG:
            if self.log:
                self.flags["solo_check_skipped_long_history"] += 1
            return
        from okdmr.dmrlib.protocols.hytera.p2p_datagram_protocol import P2PDatagramProtocol
        from okdmr.dmrlib.protocols.hytera.rdac_datagram_protocol import RDACDatagramProtocol
        from okdmr.dmrlib.storage.repeater_storage import RepeaterStorage

        sources = []
        for e in self.log:
            if e["addr"] not in sources:
                sources.append(e["addr"])
        if len(sources) < 2:
            return
        rdac_hosts = collections.Counter(a[0] for a in {e["addr"] for e in self.log if e["k"] == "rdac"})
        for src in sources:
            mine = [e for e in self.log if e["addr"] == src]
            uses_rdac = any(e["k"] == "rdac" for e in mine)
            if (uses_rdac and rdac_hosts.get(src[0], 0) > 1) or any(e["payload"] is None for e in mine):
                self.flags["solo_check_left_out_shared_host"] += 1
                continue
            storage = RepeaterStorage()
            p2p = P2PDatagramProtocol(storage, p2p_port=P2P_PORT, rdac_port=RDAC_PORT)
            tp, tr, done = FakeTransport(), FakeTransport(), []
            p2p.connection_made(tp)
            rdac = RDACDatagramProtocol(storage, callback=done.append)
            rdac.connection_made(tr)
            for i, e in enumerate(mine):
                marks = (len(tp.sent), len(tr.sent), len(done), len(_STUB["calls"]))
                exc = None
                try:
                    if e["k"] == "cfg":
                        storage.match_incoming(src, auto_create=True, patch={"address_out": tuple(OUTS[e["payload"]])})
                    else:
                        (p2p if e["k"] == "p2p" else rdac).datagram_received(e["payload"], src)
                except Exception as x:
                    if not lib_raised(x):
                        raise
                    exc = type(x).__name__
                alone = self._entry(src, e["k"], e["payload"], exc, marks, tp, tr, done, storage)
                if alone != e:
                    diff = {f: [e[f], alone[f]] for f in e if e[f] != alone[f]}
                    raise Fail("peer_is_served_as_if_it_were_alone", {"source": list(src), "its_datagram_number": i, "interleaved_vs_alone": repr(diff)[:600]}, "the same reaction")
            got, want = self._final(src, self.rdac, self.storage, uses_rdac), self._final(src, rdac, storage, uses_rdac)
            if got != want:
                raise Fail("peer_is_served_as_if_it_were_alone", {"source": list(src), "interleaved": repr(got)[:500]}, {"alone": repr(want)[:500]})
            self.flags["solo_check_sources"] += 1

    def stored_out(self, addr):
        """the outbound address stored in the peer's record right now (None: no record)"""
        for r in self.storage.all():
            if r.address_in == addr:
                return tuple(r.address_out)
        return None

    # -- P2P ---------------------------------------------------------------------------------------
    def apply_p2p(self, op, addr):
        data = p2p_bytes(op)
        kind = op["kind"] if (op.get("cut") is None and not op.get("tpl")) else p2p_classify(data)  # cut / template probes: by framing
        n = len(data)
        rec = self.recs.get(addr)
        registered = bool(rec and rec["registered"])
        out_before = self.stored_out(addr)
        n0 = len(self.tp.sent)
        n0r = len(self.tr.sent)
        allowed = ()
        if kind in TYPE and data[4] == 0xFF and (kind == "reg" or registered):
            allowed = (ValueError,)
        if kind == "short_ping" and registered:
            allowed = (IndexError,)
        self._last = (data, None)
        exc = self.call(self.p2p, data, addr, allowed)
        self._last = (data, type(exc).__name__ if exc is not None else None)
        emitted = self.tp.sent[n0:]
        desc = [[raw.hex(), list(a) if a else None] for raw, a in emitted]
        if len(self.tr.sent) != n0r:
            raise Fail("p2p_datagram_does_not_touch_the_rdac_transport", len(self.tr.sent) - n0r, 0)
        if exc is not None:
            self.flags["allowed_exception_" + type(exc).__name__] += 1
            if emitted:
                raise Fail("exception_only_without_emission", desc, [])
            self.expect_unchanged = True
            return
        self.expect_unchanged = False
        if kind in ("dmr", "rdac", "ping", "short_ping"):
            if registered:
                if addr in self.req_before:
                    self.req_before_and_after.add(addr)
            else:
                self.req_before.add(addr)
                if any(v["registered"] and (k2[0] == addr[0] or k2[0].lower() == addr[0].lower()) for k2, v in self.recs.items() if k2 != addr):
                    self.flags["request_from_unregistered_twin_of_registered_peer"] += 1
        if kind == "reg":
            if rec is None:
                rec = self.recs[addr] = {"registered": False, "out": ("", 0)}
            outs = [o for o in (out_before, self.stored_out(addr)) if o is not None]
            for raw, a in emitted:
                if not (len(raw) == n + 1 and raw[0:3] == b"P2P" and a in outs):
                    raise Fail("p2p_emits_only_documented_answers", desc, f"at most one registration answer ({n + 1} octets) to the stored outbound address {[list(o) for o in outs]}")
            if len(emitted) > 1:
                raise Fail("p2p_emits_only_documented_answers", desc, "at most one registration answer")
            self.flags["registration_answered"] += len(emitted)
            rec["registered"] = True
        elif kind in ("dmr", "rdac", "ping", "short_ping"):
            if not registered:
                if emitted != [(b"\x00", addr)]:
                    raise Fail("unregistered_request_answered_by_single_octet_reject_to_requester", desc, [["00", list(addr)]])
                self.flags["reject_unregistered"] += 1
            else:
                seen = collections.Counter()
                for raw, a in emitted:
                    if kind in ("dmr", "rdac"):
                        what = "acceptance" if len(raw) == n + 1 else "redirect" if len(raw) == n + 4 else None
                        if what is None or raw[0:3] != b"P2P":
                            raise Fail("p2p_emits_only_documented_answers", desc, "acceptance (request + 1 octet) and redirect (request + 4 octets)")
                    else:
                        what = "ping_answer"
                        if len(raw) != n or raw[4:9] != PING_MARK:
                            raise Fail("p2p_emits_only_documented_answers", desc, "a ping answer of the request's length")
                    seen[what] += 1
                    if not (a == out_before or (a is not None and a[0] == addr[0])):
                        raise Fail("answer_addressed_to_stored_outbound_address_or_requester", desc, {"outbound": list(out_before or []), "requester": list(addr)})
                if any(v > 1 for v in seen.values()):
                    raise Fail("p2p_emits_only_documented_answers", desc, "each answer at most once per request")
                self.flags["served_registered_" + kind] += 1 if emitted else 0
        else:
            if emitted:
                raise Fail("nothing_is_sent_for_ack_unknown_garbage", desc, [])

    # -- RDAC --------------------------------------------------------------------------------------
    def rdac_bytes(self, op, ip):
        kind = op["kind"]
        s = self.step.get(ip, 0)
        if kind == "expected":
            if s == 0:
                return b"\x00"
            last = EXPECT.get(s, 0xFA)
            return rdac_response(last, op.get("n", 220), op.get("fill"), op.get("bad"))
        if kind == "pfx":
            return rdac_response(op["x"] & 0xFF, op.get("n", 220), op.get("fill"), op.get("bad"))
        if kind == "mix":
            # a step response (x = "expected": the one expected now) whose octets after the compared 4-octet prefix come from another
            # kind of datagram: shift 0 = the donor's octets at the same offsets, shift 1 = the whole donor right after the prefix
            last = EXPECT.get(s, 0xFA) if op["x"] == "expected" else op["x"] & 0xFF
            d = bytearray(rdac_response(last, 220, "4100"))
            donor = donor_bytes(op["from"])
            if op.get("shift"):
                d[4 : 4 + len(donor)] = donor[: len(d) - 4]
            else:
                d[4 : len(donor)] = donor[4 : len(d)]
            return bytes(d[:220])
        if kind == "one":
            return bytes([op.get("v", 0) & 0xFF])
        if kind == "garbage":
            d = bytes.fromhex(op.get("hex", ""))
            return d + b"\x00" if len(d) == 1 else d
        raise ValueError(f"bad rdac kind {kind}")

    def apply_rdac(self, op, addr):
        ip = addr[0]
        data = self.rdac_bytes(op, ip)
        s = self.step.get(ip, 0)
        # model: the record is created on first contact
        if addr not in self.recs:
            self.recs[addr] = {"registered": False, "out": ("", 0)}
        self.step.setdefault(ip, 0)
        want_emit = []
        new = s
        may_raise = ()
        extra_ok = False
        if len(data) == 1:
            if s != 14:
                if s >= 2:
                    self.reset_after_2 += 1
                new = 1
                want_emit = EMIT[(0, 1)]
            else:
                extra_ok = data[0] == 0x00
        elif s == 14:
            pass
        elif s == 0:
            new = 1
            want_emit = EMIT[(0, 1)]
        elif data[:4] == bytes([0x7E, 0x04, 0x00, EXPECT[s]]):
            if s == 6 and not utf16_ok(data):
                may_raise = (UnicodeDecodeError,)
            elif s == 10 and len(data) < 27:
                may_raise = (IndexError,)
            new = NEXT[s]
            want_emit = EMIT.get((s, new), [])
        n0 = len(self.tr.sent)
        n0p = len(self.tp.sent)
        self._last = (data, None)
        exc = self.call(self.rdac, data, addr, may_raise)
        self._last = (data, type(exc).__name__ if exc is not None else None)
        emitted = self.tr.sent[n0:]
        desc = [[raw.hex(), list(a) if a else None] for raw, a in emitted]
        if len(data) == 1 and s == 14 and self.rdac.step.get(ip) == 1:
            # the statement says "restarts on a one-byte reset", the code ignores it once completed: both readings are accepted
            new, want_emit, extra_ok = 1, EMIT[(0, 1)], False
            self.flags["restart_after_completion"] += 1
        if len(self.tp.sent) != n0p:
            raise Fail("rdac_datagram_does_not_touch_the_p2p_transport", len(self.tp.sent) - n0p, 0)
        if exc is not None:
            self.flags["allowed_exception_" + type(exc).__name__] += 1
            if emitted:
                raise Fail("exception_only_without_emission", desc, [])
            new = s
            want_emit = []
            self.expect_unchanged = True
        else:
            self.expect_unchanged = False
        self.step[ip] = new
        self.max_step = max(self.max_step, new)
        got_step = self.rdac.step.get(ip)
        if got_step != new:
            if new > s and got_step == s:
                clause = "step_advances_on_the_expected_response"
            elif len(data) == 1:
                clause = "one_byte_reset_restarts"
            else:
                clause = "step_advances_only_on_the_expected_response"
            raise Fail(clause, {"step": got_step, "datagram": data[:8].hex(), "len": len(data)}, {"step_before": s, "step": new})
        if extra_ok:
            if len(emitted) > 1 or any(a != addr for _, a in emitted):
                raise Fail("rdac_emits_the_requests_of_the_transition", desc, "at most one datagram to the peer")
        else:
            want = [(bytes(getattr(self.rdac, name)), addr) for name in want_emit]
            if emitted != want:
                raise Fail("rdac_emits_the_requests_of_the_transition", desc, [[w.hex(), list(addr)] for w, _ in want])
        if new == 14 and s != 14:
            self.completed.append(addr)

    # -- state comparison after every op -----------------------------------------------------------
    def compare_state(self, addr, before, step_before, done_before, k):
        after = self.dump()
        # isolation: only the acting peer's record may change / appear
        for key in set(before) | set(after):
            if key == addr:
                continue
            if before.get(key) != after.get(key):
                raise Fail("other_peers_records_untouched", {"peer": list(key) if key else None, "before": repr(before.get(key)), "after": repr(after.get(key))}, "unchanged")
        if getattr(self, "expect_unchanged", False) and k != "cfg":
            # (the blank record a source gets on its very first RDAC datagram is created before anything can raise: not a change)
            settled = {key: v for key, v in after.items() if key in before or key != addr}
            if before != settled or step_before != dict(self.rdac.step) or done_before != len(self.done):
                raise Fail("exception_only_without_state_change", {"records_changed": before != after, "steps": dict(self.rdac.step)}, {"steps": step_before})
        # other peers' steps
        for ip in set(step_before) | set(self.rdac.step):
            if ip != addr[0] and step_before.get(ip) != self.rdac.step.get(ip):
                raise Fail("other_peers_steps_untouched", {ip: self.rdac.step.get(ip)}, {ip: step_before.get(ip)})
        if dict(self.rdac.step) != self.step:
            raise Fail("step_dictionary_equals_model", dict(self.rdac.step), dict(self.step))
        # registered attribute per peer address == "a registration of that address was processed"
        if any(len(v) != 1 for v in after.values()):
            raise Fail("one_record_per_peer_address", sorted(map(repr, after)), "no two records with the same inbound address")
        for key in set(after) | set(self.recs):
            got = bool(after[key][0]["p2p_is_registered"]) if key in after else False
            want = bool(self.recs.get(key, {}).get("registered"))
            if got != want:
                raise Fail("registered_attribute_set_exactly_by_processed_registration", {"peer": list(key) if key else None, "registered": got}, want)
        # completion callback: exactly once per completed run, with that peer's repeater id
        want_ids = [after[a][0]["id"] for a in self.completed]
        if self.done != want_ids:
            raise Fail("completion_reported_exactly_once_per_completed_run", [str(x) for x in self.done], [str(x) for x in want_ids])

    # -- reporting -------------------------------------------------------------------------------------
    def nontrivial(self):
        return bool(self.req_before_and_after) or self.max_step >= 7 or self.reset_after_2 > 0

    def classes(self):
        out = [f"op_{c}" for c, n in sorted(self.opc.items()) for _ in range(n)]
        out += [f"flag_{c}" for c in sorted(self.flags)]
        if self.req_before_and_after:
            out.append("p2p_request_before_and_after_registration")
        if self.max_step >= 7:
            out.append("rdac_reached_step_7")
        if self.completed:
            out.append(f"rdac_completed_{len(self.completed)}_peers")
        if self.reset_after_2:
            out.append("rdac_reset_after_step_2")
        out.append(f"rdac_max_step_{self.max_step}")
        return out


oracle_history = replay_ops_oracle(Runner)

# ---- exhaustive parts ------------------------------------------------------------------------------------------------

P2P_SYMBOLS = [{"k": "p2p", "peer": p, "kind": kind, **extra}
               for p in range(3)
               for kind, extra in [("reg", {"n": 33, "fill": "a1"}), ("dmr", {"n": 33, "fill": "b2"}), ("rdac", {"n": 34, "fill": "c3"}), ("ping", {"n": 20}),
                                   ("ack", {"n": 28}), ("unknown", {"t": 0x20, "n": 33}), ("garbage", {"hex": "00112233445566778899aabbccddeeff0011223344556677"}),
                                   ("short", {"n": 12})]] + [
    {"k": "cfg", "peer": 0, "out": 1},
    {"k": "p2p", "peer": 0, "kind": "dmr", "n": 33, "b4": 255},
    {"k": "p2p", "peer": 0, "kind": "short_ping", "n": 12},
]

RDAC_SYMBOLS = [{"k": "rdac", "peer": p, "kind": kind, **extra}
                for p in range(3)
                for kind, extra in [("expected", {}), ("pfx", {"x": 0xFD}), ("pfx", {"x": 0x10}), ("pfx", {"x": 0x00}), ("pfx", {"x": 0xFA}), ("one", {"v": 0}),
                                    ("one", {"v": 1}), ("garbage", {"hex": "7e0401fd00"})]] + [
    {"k": "rdac", "peer": 0, "kind": "expected", "n": 10},
    {"k": "rdac", "peer": 0, "kind": "expected", "bad": 0},
]


def _enumerate(ctx, sub, t, prefix_ops, symbols, first, depth, label):
    for L in range(1, depth + 1):
        for rest in itertools.product(range(len(symbols)), repeat=L - 1):
            idx = [first] + list(rest)
            case = {"ops": prefix_ops + [symbols[i] for i in idx]}
            r = Runner()
            fail = None
            try:
                for op in case["ops"]:
                    r.apply(op)
            except Fail as f:
                fail = f
            except Exception as e:
                if not lib_raised(e):
                    raise
                fail = Fail("no_unexpected_exception", f"{type(e).__name__}: {e}", "no exception", exc_klass(e))
            finally:
                r.close()
            if fail is not None:
                # after 6 judged failures of one bucket in this worker further ones are only counted (keeps failing trees fast)
                bucket = f"{sub.name}|{fail.clause}|{fail.klass}"
                if t.fail_counts.get(bucket, 0) >= 6 and not t.known:
                    t.fail_counts[bucket] += 1
                else:
                    ctx.judge(sub.name, case, fail, t)
            t.case(sub.name, nontrivial=r.nontrivial(), cls=f"{label}len_{L}")
            if r.nontrivial() and (sum((i + 1) * 37 ** k for k, i in enumerate(idx)) % 9001) == 0:
                t.sample(sub.name, {"prefix_ops": len(prefix_ops), "symbols": idx})


def _model_state(r):
    return (dict(r.step), {k: v["registered"] for k, v in r.recs.items()}, len(r.completed))


def _probe(ctx, sub, t, prefix_ops, probes, label):
    """Deliver each probe datagram after the history prefix_ops.  The Runner is shared between probes as long as a probe left the
    model state unchanged (otherwise the prefix is replayed on a fresh Runner); a failure is re-judged by a fresh replay of
    prefix + [probe], or of everything the shared Runner saw when that alone does not reproduce it."""
    r, seen = None, []
    for probe in probes:
        if r is None:
            r, seen = Runner(), list(prefix_ops)
            try:
                for op in prefix_ops:
                    r.apply(op)
            except Exception:
                r.close()
                ctx.run_case(sub.name, oracle_history, {"ops": list(prefix_ops)}, t)  # judged there (the sequence part covers it too)
                return
        before = _model_state(r)
        seen.append(probe)
        failed = False
        try:
            r.apply(probe)
        except Fail:
            failed = True
        except Exception as e:
            if not lib_raised(e):
                r.close()
                raise
            failed = True
        if failed:
            bucket_total = sum(t.fail_counts.values())
            if bucket_total < 12:
                held = ctx.run_case(sub.name, oracle_history, {"ops": list(prefix_ops) + [probe]}, t)
                if held and not t.known:
                    ctx.run_case(sub.name, oracle_history, {"ops": list(seen)}, t)
            else:
                t.fail_counts[max(t.fail_counts, key=t.fail_counts.get)] += 1  # only counted (keeps failing trees fast)
        t.case(sub.name, nontrivial=r.nontrivial(), cls=f"{label}probe" if not failed else "failing")
        if failed or _model_state(r) != before:
            r.close()
            r = None
    if r is not None:
        r.close()


def _p2p_probes(full: bool):
    """every proper prefix of registration / DMR start-up / RDAC start-up / ping / ack datagrams, and each with 1..3 octets added"""
    out = []
    for kind, n, fill in [("reg", 33, "a1"), ("dmr", 33, "b2"), ("rdac", 34, "c3"), ("ping", 20, "5a"), ("ack", 28, "d4")]:
        base = {"k": "p2p", "peer": 0, "kind": kind, "n": n, "fill": fill}
        cuts = range(n) if full else [c for c in (0, 2, 3, 4, 8, 9, 12, 13, 14, 15, 16, 20, 21, n - 1) if c < n]
        out += [dict(base, cut=c) for c in cuts]
        out += [dict(base, n=n + extra) for extra in (1, 2, 3)]
    return out


def _p2p_sweep_probes():
    """the id octet 4 of template registration / DMR start-up / RDAC start-up / ping datagrams over all 256 values (ping: also octet 0)"""
    out = [{"k": "p2p", "peer": 0, "kind": kind, "tpl": 1, "b4": b} for kind in ("reg", "dmr", "rdac", "ping") for b in range(256)]
    out += [{"k": "p2p", "peer": 0, "kind": "ping", "tpl": 1, "b0": b} for b in range(0, 256, 5)]
    return out


def _p2p_cross_probes():
    """kind B built from its template with the octets of a real kind-A datagram copied into B's free positions (all of them, or only
    offsets 4..8 / 4..12 / 13..19)"""
    return [{"k": "p2p", "peer": 0, "kind": b, "tpl": 1, "from": a, "span": span}
            for b in ("reg", "dmr", "rdac", "ping", "ack", "unknown") for a in ALL_DONORS for span in SPANS if a != "p2p_" + b]


P2P_TPL_STATES = [[], [{"k": "p2p", "peer": 0, "kind": "reg", "tpl": 1}]]  # peer 0 unregistered / registered
P2P_PROBE_STATES = [[], [{"k": "cfg", "peer": 0, "out": 1}], [P2P_SYMBOLS[0]], [{"k": "cfg", "peer": 0, "out": 1}, P2P_SYMBOLS[0]]]


def drv_p2p(ctx: Ctx, sub: SubCheck):
    depth = ctx.pick(3, 4)

    def work(first, t: Tally):
        _enumerate(ctx, sub, t, [], P2P_SYMBOLS, first, depth, "")
        # truncated / prefix datagrams as the last datagram after [state prefix, this symbol]
        for state in P2P_PROBE_STATES:
            _probe(ctx, sub, t, state + [P2P_SYMBOLS[first]], _p2p_probes(full=True), "after_symbol_")
            if not ctx.quick:
                for second in range(len(P2P_SYMBOLS)):
                    _probe(ctx, sub, t, state + [P2P_SYMBOLS[first], P2P_SYMBOLS[second]], _p2p_probes(full=False), "after_2_symbols_")

        # id-octet sweeps and cross-contaminated templates as the last datagram after [state prefix, this symbol]
        for state in P2P_TPL_STATES:
            _probe(ctx, sub, t, state + [P2P_SYMBOLS[first]], _p2p_sweep_probes(), "sweep_after_symbol_")
            _probe(ctx, sub, t, state + [P2P_SYMBOLS[first]], _p2p_cross_probes(), "cross_after_symbol_")

    ctx.shards(work, list(range(len(P2P_SYMBOLS))))
    for state in P2P_PROBE_STATES:  # peer 0 unknown / known but unregistered / registered / registered with an outbound address
        _probe(ctx, sub, ctx.tally, state, _p2p_probes(full=True), "single_")
    for state in P2P_TPL_STATES + [[{"k": "cfg", "peer": 0, "out": 1}]]:
        _probe(ctx, sub, ctx.tally, state, _p2p_sweep_probes(), "sweep_single_")
        _probe(ctx, sub, ctx.tally, state, _p2p_cross_probes(), "cross_single_")
    ctx.tally.exhaustive[sub.name] = True
    ctx.tally.extra.setdefault("exhaustive_history_length", {})["p2p"] = depth
    ctx.tally.notes.append(f"{sub.name}: all sequences of length <= {depth} over {len(P2P_SYMBOLS)} symbols (the property text's length 7 is ~1e10 sequences and is not attempted); "
                           "every proper prefix of the registration / DMR / RDAC start-up / ping / ack datagrams (and each with 1-3 octets added) is delivered as a "
                           "probe from peer 0 in 4 states (unknown, known unregistered, registered, registered with outbound address), alone and after every symbol; "
                           "template datagrams (octets 4..8 = id 00 00 00 14 as in the handler's own markers) with the id octet swept over all 256 values and with "
                           "their free positions (all / offsets 4..8 / 4..12 / 13..19) copied from real datagrams of every other kind (P2P ack, ping, registration, "
                           "start-ups, RDAC responses and requests), from an unregistered and a registered peer, alone and after every symbol; judged by framing")


RDAC_FULL_LEN = 220


def _rdac_probes(full: bool):
    """every proper prefix (and the response with 1..3 octets added) of each of the four step responses FD / 10 / 00 / FA, and the
    prefixes of the garbage datagram; the one-byte start-up datagram has only the empty prefix (n = 0)"""
    lengths = [n for n in range(RDAC_FULL_LEN + 4) if n != RDAC_FULL_LEN] if full else [0, 2, 3, 4, 5, 26, 27, 107, 216, 219, 221]
    out = [{"k": "rdac", "peer": 0, "kind": "pfx", "x": x, "n": n, "fill": "4100"} for x in (0xFD, 0x10, 0x00, 0xFA) for n in lengths]
    out += [{"k": "rdac", "peer": 0, "kind": "garbage", "hex": "7e0401fd00"[: 2 * n]} for n in range(5)]
    return out


def _rdac_cross_probes():
    """each step response (the expected one and FD / 10 / 00 / FA) whose octets after the compared prefix are copied from every other
    response, from the handler's requests and from P2P datagrams"""
    return [{"k": "rdac", "peer": 0, "kind": "mix", "x": x, "from": a, "shift": sh}
            for x in ("expected", 0xFD, 0x10, 0x00, 0xFA) for a in ALL_DONORS for sh in (0, 1)]


def _rdac_prefix(si):
    """ops that drive peer 0 from a fresh handler to STEPS[si] (si expected responses); from step 3 on a second peer waits at step 2"""
    prefix = [{"k": "rdac", "peer": 0, "kind": "expected"} for _ in range(si)]
    if si >= 3:
        prefix = [{"k": "rdac", "peer": 1, "kind": "expected"}, {"k": "rdac", "peer": 1, "kind": "expected"}] + prefix
    return prefix


def drv_rdac(ctx: Ctx, sub: SubCheck):
    depth_from_step = ctx.pick(2, 3)
    depth_fresh = ctx.pick(3, 4)
    items = [(si, first) for si in range(len(STEPS)) for first in range(len(RDAC_SYMBOLS))]

    def work(item, t: Tally):
        si, first = item
        prefix = _rdac_prefix(si)
        _enumerate(ctx, sub, t, prefix, RDAC_SYMBOLS, first, depth_fresh if si == 0 else depth_from_step, f"from_step_{STEPS[si]}_")
        # truncated / prefix datagrams as the last datagram after [drive to step, this symbol]
        _probe(ctx, sub, t, prefix + [RDAC_SYMBOLS[first]], _rdac_probes(full=not ctx.quick), f"from_step_{STEPS[si]}_after_symbol_")

    ctx.shards(work, items)

    def single(si, t: Tally):  # every prefix probe as the only datagram after peer 0 was driven to each step (si = 0: fresh handler)
        _probe(ctx, sub, t, _rdac_prefix(si), _rdac_probes(full=True), f"from_step_{STEPS[si]}_single_")
        _probe(ctx, sub, t, _rdac_prefix(si), _rdac_cross_probes(), f"from_step_{STEPS[si]}_cross_")
        # structured content: constant fills made of the marker / header / terminator octets of the enclosing layers (and BOMs in the texts)
        fills = [{"k": "rdac", "peer": 0, "kind": kind, "fill": f, **extra} for f in MARKER_FILLS for kind, extra in (("expected", {}), ("pfx", {"x": 0x00}), ("pfx", {"x": 0x10}))]
        _probe(ctx, sub, t, _rdac_prefix(si), fills, f"from_step_{STEPS[si]}_marker_fill_")

    ctx.shards(single, list(range(len(STEPS))))
    ctx.tally.exhaustive[sub.name] = True
    ctx.tally.extra.setdefault("exhaustive_history_length", {})["rdac"] = {"fresh": depth_fresh, "from_each_of_14_steps": depth_from_step}
    ctx.tally.notes.append(
        f"{sub.name}: all sequences over {len(RDAC_SYMBOLS)} symbols of length <= {depth_fresh} from a fresh handler and <= {depth_from_step} after peer 0 was "
        f"driven to each of the 14 reachable steps (a second peer parked at step 2); from a fresh handler and from each of the 14 steps every proper "
        f"prefix (0..219 octets) and every 1-3 octet extension of the four step responses FD/10/00/FA and the prefixes of a garbage datagram are "
        f"delivered as single probes, and a reduced (quick) / the full (thorough) probe set after every single symbol; from each step also every "
        f"response prefix followed by the octets of every other response / of each request the handler sends / of P2P datagrams (aligned and shifted)"
    )


# ---- address pools with partial overlap ------------------------------------------------------------------------------------


def _p2p_requests(peer):
    return [{"k": "p2p", "peer": peer, "kind": "dmr", "n": 33, "fill": "b2"}, {"k": "p2p", "peer": peer, "kind": "rdac", "n": 34, "fill": "c3"},
            {"k": "p2p", "peer": peer, "kind": "ping", "n": 20}, {"k": "p2p", "peer": peer, "kind": "short_ping", "n": 12},
            {"k": "p2p", "peer": peer, "kind": "dmr", "tpl": 1}, {"k": "p2p", "peer": peer, "kind": "rdac", "tpl": 1}, {"k": "p2p", "peer": peer, "kind": "ping", "tpl": 1},
            {"k": "p2p", "peer": peer, "kind": "ack", "n": 28}, {"k": "p2p", "peer": peer, "kind": "unknown", "t": 0x20, "n": 33}]


def drv_twins(ctx: Ctx, sub: SubCheck):
    """Pairs of sources that share the host and differ in the port, share the port and differ in the host, or differ only in the case /
    textual representation of the host: after one of them registered (or was identified over RDAC), every request kind from the
    other one, then from the first again; and all short sequences over the two twins' symbols."""
    depth = ctx.pick(3, 4)

    def scripted(pair, t: Tally):
        a, b = pair
        reg_a = {"k": "p2p", "peer": a, "kind": "reg", "n": 33, "fill": "a1"}
        pres = {
            "registered": [reg_a],
            "registered_with_outbound_address": [{"k": "cfg", "peer": a, "out": 1}, reg_a],
            "registered_twin_known_over_rdac": [reg_a, {"k": "rdac", "peer": b, "kind": "one", "v": 0}],
            "registered_and_identified": [reg_a, {"k": "rdac_run", "peer": a, "count": 13}],
            "registered_twice": [reg_a, reg_a],
        }
        for name, pre in pres.items():
            for first in _p2p_requests(b):
                for second in _p2p_requests(a)[:4] + [{"k": "p2p", "peer": b, "kind": "reg", "n": 33, "fill": "a1"}]:
                    for third in _p2p_requests(b)[:3] + _p2p_requests(a)[:3]:
                        ctx.run_case(sub.name, oracle_history, {"ops": pre + [first, second, third]}, t)
                        t.case(sub.name, nontrivial=True, cls=f"scripted_{name}")
        # RDAC: the twins interleave their identification (same host: one shared step by design; other host / spelling: separate)
        for n_a in (0, 2, 6, 9, 13):
            for n_b in (1, 3, 7, 13):
                ops = ([{"k": "rdac_run", "peer": a, "count": n_a}] if n_a else []) + [{"k": "rdac_run", "peer": b, "count": n_b}, {"k": "rdac", "peer": a, "kind": "expected"},
                       {"k": "rdac", "peer": b, "kind": "one", "v": 0}, {"k": "rdac_run", "peer": a, "count": 13}, {"k": "rdac_run", "peer": b, "count": 13}]
                ctx.run_case(sub.name, oracle_history, {"ops": ops}, t)
                t.case(sub.name, nontrivial=True, cls="scripted_rdac_interleaved")

        # the other twin's FIRST datagram is one that may raise (bad step-6 texts, short step-10 response) while the shared / own step is there
        for count, probe in ((6, {"kind": "expected", "bad": 0}), (6, {"kind": "pfx", "x": 0, "bad": 2}), (9, {"kind": "expected", "n": 10}), (9, {"kind": "pfx", "x": 0, "n": 26})):
            ops = [{"k": "rdac_run", "peer": a, "count": count}, dict({"k": "rdac", "peer": b}, **probe), {"k": "rdac", "peer": a, "kind": "expected"}, {"k": "rdac", "peer": b, "kind": "expected"}]
            ctx.run_case(sub.name, oracle_history, {"ops": ops}, t)
            t.case(sub.name, nontrivial=True, cls="scripted_rdac_first_datagram_may_raise")

    ctx.shards(scripted, TWINS)

    symbols = {}
    for a, b in [(0, 3), (4, 5), (0, 7)]:
        symbols[(a, b)] = [{"k": "p2p", "peer": p, "kind": kind, "n": n} for p in (a, b) for kind, n in (("reg", 33), ("dmr", 33), ("rdac", 34), ("ping", 20))] + [
            {"k": "cfg", "peer": a, "out": 1}, {"k": "rdac", "peer": b, "kind": "one", "v": 0}]
    items = [(pair, first) for pair in symbols for first in range(len(symbols[pair]))]

    def enum(item, t: Tally):
        pair, first = item
        _enumerate(ctx, sub, t, [], symbols[pair], first, depth, f"twins_{pair[0]}_{pair[1]}_")

    ctx.shards(enum, items)
    ctx.tally.exhaustive[sub.name] = True
    ctx.tally.notes.append(f"{sub.name}: {len(TWINS)} ordered twin pairs (same host / other port, same port / other host, case and representation variants of the host): "
                           f"scripted histories (one twin registers, every request kind from the other, then mixed) and all sequences of length <= {depth} over 10 symbols of 3 pairs")


def drv_runs(ctx: Ctx, sub: SubCheck):
    """every symbol repeated 300 times in each reachable mode: P2P peer 0 unknown / known / registered (also while its twin is registered),
    RDAC peer 0 at each of the 14 steps; plain and with garbage interleaved"""
    n = ctx.pick(300, 1000)
    reg0 = {"k": "p2p", "peer": 0, "kind": "reg", "n": 33, "fill": "a1"}
    p2p_modes = {"unknown": [], "known_unregistered": [{"k": "cfg", "peer": 0, "out": 1}], "registered": [reg0],
                 "unknown_while_twin_registered": [{"k": "p2p", "peer": 3, "kind": "reg", "n": 33, "fill": "a1"}]}
    p2p_syms = [sym for sym in P2P_SYMBOLS if sym.get("peer") == 0] + [{"k": "p2p", "peer": 0, "kind": k, "tpl": 1} for k in ("reg", "dmr", "rdac", "ping")]
    noise_p = {"k": "p2p", "peer": 0, "kind": "garbage", "hex": "0011223344"}
    noise_r = {"k": "rdac", "peer": 0, "kind": "garbage", "hex": "7e0401fd00"}
    rdac_syms = [sym for sym in RDAC_SYMBOLS if sym.get("peer") == 0] + [{"k": "rdac", "peer": 3, "kind": "expected"}, {"k": "rdac", "peer": 1, "kind": "expected"}]
    items = [("p2p", m, i) for m in p2p_modes for i in range(len(p2p_syms))] + [("rdac", si, i) for si in range(len(STEPS)) for i in range(len(rdac_syms))]

    def work(item, t: Tally):
        which, mode, i = item
        if which == "p2p":
            pre, sym, noise, label = p2p_modes[mode], p2p_syms[i], noise_p, f"p2p_{mode}"
            tail = [{"k": "p2p", "peer": 0, "kind": "dmr", "n": 33}, {"k": "p2p", "peer": 3, "kind": "ping", "n": 20}]
        else:
            pre, sym, noise, label = _rdac_prefix(mode), rdac_syms[i], noise_r, f"rdac_from_step_{STEPS[mode]}"
            tail = [{"k": "rdac", "peer": 0, "kind": "expected"}, {"k": "rdac", "peer": 1, "kind": "expected"}]
        for name, block in (("same_op", [sym]), ("with_garbage", [sym, noise])):
            ctx.run_case(sub.name, oracle_history, {"ops": pre + [{"k": "repeat", "n": n, "ops": block}] + tail}, t)
            t.case(sub.name, nontrivial=True, cls=f"{label}_{name}")

    ctx.shards(work, items)
    ctx.tally.exhaustive[sub.name] = True
    ctx.tally.notes.append(f"{sub.name}: every peer-0 symbol repeated {n} times (plain and with garbage interleaved) in 4 P2P modes and from each of the 14 RDAC steps")


# ---- scripted interleavings of complete runs (round 7) ---------------------------------------------------------------------
#
# Every peer's identification is the fixed script of 13 datagrams (start-up octet, then the response expected at each step), every
# peer's P2P life the fixed script request / registration / start-ups / ping.  Two or three peers' scripts are interleaved at every
# cut point, in strict alternation with every lead, and in every merge order of short scripts, with resets and garbage mixed in.
# Each datagram is judged against the per-peer model; at the end every source is compared with the same source served alone.

RUN_LEN = 13
PEER_FILL = {0: "4100", 1: "4200", 2: "4f004b00", 3: "4300", 4: "4400", 5: "4500", 6: "4600", 7: "4700"}
SOLO = {"k": "solo_check"}


def _run(peer, a=0, b=RUN_LEN):
    """datagrams a..b-1 of the peer's identification script (the Runner builds the response expected at the peer's model step)"""
    return [{"k": "rdac", "peer": peer, "kind": "expected", "fill": PEER_FILL[peer]} for _ in range(a, b)]


def _p2p_life(peer, variant=0):
    reg = {"k": "p2p", "peer": peer, "kind": "reg", "n": 33, "fill": PEER_FILL[peer]}
    dmr = {"k": "p2p", "peer": peer, "kind": "dmr", "n": 33, "fill": PEER_FILL[peer]}
    rd = {"k": "p2p", "peer": peer, "kind": "rdac", "n": 34, "fill": PEER_FILL[peer]}
    ping = {"k": "p2p", "peer": peer, "kind": "ping", "n": 20}
    return [[dmr, reg, rd, ping], [ping, reg, dmr, rd], [{"k": "cfg", "peer": peer, "out": 1}, rd, reg, rd], [reg, ping, reg, dmr]][variant % 4]


def _merges(a, b):
    """all order-preserving merges of two op lists"""
    if not a or not b:
        yield list(a) + list(b)
        return
    for rest in _merges(a[1:], b):
        yield [a[0]] + rest
    for rest in _merges(a, b[1:]):
        yield [b[0]] + rest


RDAC_PAIRS = [(0, 1), (1, 2), (4, 5), (0, 7), (6, 2)]  # distinct host strings (incl. hosts that differ only in case / spelling)
RDAC_TRIPLES = [(0, 1, 2), (4, 5, 6), (7, 3, 1)]
P2P_PAIRS = [(0, 1), (0, 3), (3, 0), (4, 5), (0, 7), (6, 4)]


def interleaved_cases(quick: bool):
    """(class label, ops) pairs"""
    for a, b in RDAC_PAIRS:
        for i in range(RUN_LEN + 1):
            for j in range(RUN_LEN + 1):
                if quick and (a, b) != RDAC_PAIRS[0] and (i * 14 + j + a) % 3:
                    continue
                yield "rdac_two_peers_cut", _run(a, 0, i) + _run(b, 0, j) + _run(a, i) + _run(b, j) + [SOLO]
        garbage = {"k": "rdac", "peer": a, "kind": "garbage", "hex": "7e0401fd00"}
        other = {"k": "rdac", "peer": a, "kind": "pfx", "x": 0x00}
        for i in range(RUN_LEN + 1):
            for j in (1, 3, 4, 5, 7, 11, 13):
                for reset in (0, 7):
                    # b restarts after j datagrams; a (waiting at step i) sends garbage and a data response in between, then finishes
                    yield "rdac_two_peers_cut_reset_garbage", (_run(a, 0, i) + _run(b, 0, j) + [{"k": "rdac", "peer": b, "kind": "one", "v": reset}, garbage]
                                                                + _run(b, 0, 2) + ([other] if i not in (3, 4, 6, 10, 12) else []) + _run(a, i) + _run(b, 0, RUN_LEN) + [SOLO])
        for lead in range(RUN_LEN + 1):
            ops = _run(a, 0, lead)
            for n in range(RUN_LEN):
                ops += (_run(a, lead + n, lead + n + 1) if lead + n < RUN_LEN else []) + _run(b, n, n + 1)
            yield "rdac_two_peers_alternating", ops + [SOLO]
    grid = (0, 3, 4, 6, 7, 10, 13) if not quick else (0, 3, 4, 7, 12)
    for t, (a, b, c) in enumerate(RDAC_TRIPLES):
        for n, (i, j, k) in enumerate(itertools.product(grid, repeat=3)):
            order = list(itertools.permutations([(a, i), (b, j), (c, k)]))[(n + t) % 6]
            yield "rdac_three_peers_cut", _run(a, 0, i) + _run(b, 0, j) + _run(c, 0, k) + [o for p, m in order for o in _run(p, m)] + [SOLO]
        for l1, l2 in itertools.product((0, 3, 4, 7), repeat=2):
            ops = _run(a, 0, l1 + l2) + _run(b, 0, l2)
            for n in range(RUN_LEN):
                for p, done in ((a, l1 + l2 + n), (b, l2 + n), (c, n)):
                    ops += _run(p, done, done + 1) if done < RUN_LEN else []
            yield "rdac_three_peers_round_robin", ops + [SOLO]
    for a, b in P2P_PAIRS:
        for va, vb in itertools.product(range(4), repeat=2):
            if quick and vb != (va + 1 + a) % 4:
                continue
            for ops in _merges(_p2p_life(a, va), _p2p_life(b, vb)):
                yield "p2p_two_peers_every_merge", ops + [SOLO]
    for a, b in P2P_PAIRS[:4]:
        # whole lives: registration, RDAC start-up, identification, DMR start-up, ping - cut into each other
        life = lambda p: _p2p_life(p, 0)[:3] + _run(p) + _p2p_life(p, 1)[2:] + [{"k": "p2p", "peer": p, "kind": "ping", "n": 20}]
        la, lb = life(a), life(b)
        for i in range(0, len(la) + 1):
            for j in range(0, len(lb) + 1, 1 if not quick else 2):
                yield "whole_lives_cut", la[:i] + lb[:j] + la[i:] + lb[j:] + [SOLO]


def drv_interleaved(ctx: Ctx, sub: SubCheck):
    cases = list(interleaved_cases(ctx.quick))
    items = list(range(32))

    def work(w, t: Tally):
        for n in range(w, len(cases), 32):
            label, ops = cases[n]
            ctx.run_case(sub.name, oracle_history, {"ops": ops}, t)
            t.case(sub.name, nontrivial=True, cls=label)
            if n % 501 == 0:
                t.sample(sub.name, {"class": label, "n_ops": len(ops)})

    ctx.shards(work, items)
    ctx.tally.notes.append(f"{sub.name}: {len(cases)} scripted interleavings of complete per-peer scripts: two peers' identification runs cut into each other at all 14 x 14 "
                           "cut points (plain; with a restart of the second peer, garbage and an unexpected data response in between), in strict alternation with every lead, "
                           "three peers at a grid of cut points with every finishing order and round robin, every merge order of two peers' 4-datagram P2P lives (4 variants "
                           "each; also sources that share the host or differ only in its spelling), and whole lives (registration, start-up, identification, start-up, ping) "
                           "cut into each other; each datagram judged against the per-peer model, and every source compared with the same source served alone")



# ---- random part -----------------------------------------------------------------------------------------------------


def _strategies():
    from hypothesis import strategies as st

    peer = st.one_of(st.integers(0, 2), st.sampled_from([0, 3]), st.sampled_from([0, 3, 1]), st.sampled_from([4, 5, 6]), st.integers(0, len(PEERS) - 1))
    fill = st.one_of(st.just("00"), st.just("4100"), st.binary(min_size=1, max_size=8).map(bytes.hex), st.sampled_from(MARKER_FILLS))
    b4 = st.one_of(st.integers(0, 254), st.integers(0, 254), st.integers(0, 254), st.just(255))

    def p2p(kind, **f):
        return st.fixed_dictionaries({"k": st.just("p2p"), "peer": peer, "kind": st.just(kind), **f})

    def rdac(kind, **f):
        return st.fixed_dictionaries({"k": st.just("rdac"), "peer": peer, "kind": st.just(kind), **f})

    n_cmd = st.integers(21, 48)
    expected = rdac("expected", n=st.one_of(st.just(220), st.just(220), st.integers(216, 260), st.integers(4, 260)), fill=st.sampled_from(["00", "4100", "4f004b00"]),
                    bad=st.one_of(st.none(), st.none(), st.none(), st.integers(0, 3)))
    rules = {
        "cfg": st.fixed_dictionaries({"k": st.just("cfg"), "peer": peer, "out": st.integers(0, 2)}),
        "p2p_reg": p2p("reg", n=n_cmd, fill=fill, b4=b4),
        "p2p_dmr": p2p("dmr", n=n_cmd, fill=fill, b4=b4),
        "p2p_rdac": p2p("rdac", n=n_cmd, fill=fill, b4=b4),
        "p2p_ping": st.one_of(p2p("ping", n=st.integers(15, 40), fill=fill), p2p("ping", n=st.integers(15, 40), fill=fill), p2p("short_ping", n=st.integers(9, 14), fill=fill)),
        "p2p_other": st.one_of(
            p2p("ack", n=n_cmd, fill=fill),
            p2p("unknown", n=n_cmd, fill=fill, t=st.integers(0, 255), b4=b4),
            p2p("garbage", hex=st.binary(max_size=40).map(bytes.hex)),
            p2p("short", n=st.integers(3, 20), fill=fill),
        ),
        "rdac_expected_a": expected,
        "rdac_expected_b": expected,
        "rdac_expected_c": expected,
        "rdac_run": st.fixed_dictionaries({"k": st.just("rdac_run"), "peer": peer, "count": st.integers(2, 13), "fill": st.sampled_from(["00", "4100", "4f004b00"])}),
        "rdac_pfx": rdac("pfx", x=st.one_of(st.sampled_from([0xFD, 0x10, 0x00, 0xFA]), st.integers(0, 255)), n=st.one_of(st.just(220), st.integers(0, 260)), fill=fill,
                         bad=st.one_of(st.none(), st.integers(0, 3))),
        "rdac_one": rdac("one", v=st.one_of(st.just(0), st.integers(0, 255))),
        "rdac_garbage": rdac("garbage", hex=st.binary(max_size=32).map(bytes.hex)),
    }
    # long homogeneous runs: one op or a short block (op + garbage / two ops) repeated N times
    single = st.one_of(*[v for k, v in rules.items() if k not in ("rdac_run", "cfg")])
    noise = st.one_of(p2p("garbage", hex=st.binary(max_size=12).map(bytes.hex)), p2p("ack", n=n_cmd, fill=fill), rdac("garbage", hex=st.binary(min_size=2, max_size=8).map(bytes.hex)))
    block = st.one_of(single.map(lambda o: [o]), single.map(lambda o: [o]), st.tuples(single, noise).map(list), st.tuples(single, single).map(list),
                      st.tuples(single, noise, single).map(list))
    small = st.sampled_from([2, 3, 4, 5, 6, 7, 8, 9, 10, 11, 12, 16, 17])
    rules["repeat"] = st.fixed_dictionaries({"k": st.just("repeat"), "n": st.one_of(small, small, st.sampled_from(REPEAT_COUNTS)), "ops": block})
    # two or three peers' identification runs (peer-specific content) woven into each other in short bursts, with restarts, garbage and P2P
    # datagrams of the same peers in between
    trio = st.sampled_from(RDAC_PAIRS + RDAC_TRIPLES + [(0, 3), (5, 4, 0)])

    def weave(peers, bursts, extras):
        ops = []
        for n, (which, count, extra) in enumerate(bursts):
            pr = peers[which % len(peers)]
            ops.append({"k": "rdac_run", "peer": pr, "count": count, "fill": PEER_FILL[pr]})
            if extra is not None:
                ops.append(dict(extras[extra % len(extras)], peer=peers[(which + extra) % len(peers)]))
        return {"k": "block", "ops": ops}

    extras = st.lists(st.one_of(rules["rdac_one"], rules["rdac_garbage"], rules["rdac_pfx"], rules["p2p_reg"], rules["p2p_rdac"], rules["p2p_ping"]), min_size=1, max_size=3)
    rules["weave"] = st.builds(weave, trio, st.lists(st.tuples(st.integers(0, 2), st.sampled_from([1, 1, 2, 3, 4, 6, 9, 13]), st.one_of(st.none(), st.none(), st.integers(0, 5))),
                                                     min_size=3, max_size=12), extras)
    return rules


def drv_random(ctx: Ctx, sub: SubCheck):
    M = make_machine("RepeaterHandshakeMachine", Runner, _strategies())

    def work(shard, t: Tally):
        ctx.state_machine(sub.name, M, max_examples=ctx.pick(25, 200), step_count=ctx.pick(40, 150), tally=t, shard=shard)

    ctx.shards(work, list(range(16)))


# ---- preludes (stimulus only) ----------------------------------------------------------------------------------------------


def _op_other_handlers(a):
    """sibling objects: another storage with its own two handlers serves sources with the SAME addresses as the case's peers (other content),
    through registration, start-ups, a complete identification, a restart and a refused datagram"""
    from okdmr.dmrlib.protocols.hytera.p2p_datagram_protocol import P2PDatagramProtocol
    from okdmr.dmrlib.protocols.hytera.rdac_datagram_protocol import RDACDatagramProtocol
    from okdmr.dmrlib.storage.repeater_storage import RepeaterStorage

    _install_stub()
    try:
        storage = RepeaterStorage()
        p2p, rdac = P2PDatagramProtocol(storage, p2p_port=P2P_PORT, rdac_port=RDAC_PORT), RDACDatagramProtocol(storage, callback=lambda _id: None)
        p2p.connection_made(FakeTransport())
        rdac.connection_made(FakeTransport())
        fill = a.get("fill", "5a00")
        for pr in a["peers"]:
            addr = tuple(PEERS[pr % len(PEERS)])
            grams = [(p2p, p2p_bytes({"kind": "reg", "n": 33, "fill": fill})), (p2p, p2p_bytes({"kind": "rdac", "n": 34, "fill": fill})), (rdac, b"\x00")]
            grams += [(rdac, rdac_response(EXPECT[st], 220, fill)) for st in STEPS[1:-1][: a.get("steps", 12)]]
            grams += [(rdac, rdac_response(0x00, 10, fill)), (rdac, b"\x01"), (p2p, p2p_bytes({"kind": "ping", "n": 12})), (p2p, p2p_bytes({"kind": "dmr", "n": 33, "b4": 255}))]
            for h, data in grams:
                try:
                    h.datagram_received(data, addr)
                except Exception:
                    pass
    finally:
        _remove_stub()


PRELUDE_OPS = {"other_handlers": _op_other_handlers}


def _case_peers(x, found):
    if isinstance(x, dict):
        if "peer" in x and isinstance(x["peer"], int) and x["peer"] % len(PEERS) not in found:
            found.append(x["peer"] % len(PEERS))
        for v in x.values():
            _case_peers(v, found)
    elif isinstance(x, list):
        for v in x:
            _case_peers(v, found)
    return found


def prelude_for(sub, case, rng):
    peers = _case_peers(case, [])[:3] or [0]
    return [{"x": "other_handlers", "a": {"peers": peers, "fill": rng.choice(["5a00", "4100", "7e0400fa", "00"]), "steps": rng.choice([2, 3, 6, 10, 12])}}]


SUBCHECKS = [
    SubCheck("p2p_exhaustive", oracle_history, drv_p2p, "all sequences over 27 P2P symbols (3 peers) up to length 3 (quick) / 4 (thorough)"),
    SubCheck("rdac_exhaustive", oracle_history, drv_rdac, "all sequences over 26 RDAC symbols from a fresh handler and from each of the 14 reachable steps of peer 0"),
    SubCheck("twin_peers", oracle_history, drv_twins, "sources sharing host or port or differing only in the spelling of the host: one registers, every request kind from the other; short sequences"),
    SubCheck("interleaved_runs", oracle_history, drv_interleaved, "scripted interleavings of two or three peers' complete identification runs / P2P lives at every cut point, alternating, every merge; per-peer model and comparison with each source served alone"),
    SubCheck("symbol_runs", oracle_history, drv_runs, "every peer-0 symbol repeated 300 / 1000 times in each P2P mode and from each RDAC step, plain and with garbage interleaved"),
    SubCheck("random_histories", oracle_history, drv_random, "Hypothesis RuleBasedStateMachine: both handlers on one storage, 8 sources (partly overlapping addresses), random filler / lengths / texts, repeated blocks"),
]
PREDICATES = {}
