"""C04 — integrity indicators of parsed PDUs tell the truth about the received bits.

Three families (DESIGN.md §4 C04):

(a) rt_*     serialise -> parse  =>  indicator True, and the serialised check value equals an independent reference
             (vp/refs/integrity_ref.py, vp/refs/gf2.py).  Exhaustive for SlotType / EMB field combinations, Hypothesis for
             the CRC-protected PDUs and HRNP.
(b) words_*  ALL 2^20 slot-type words and ALL 2^16 EMB words: indicator == membership in the reference code.
    history  / history_words: the same three statements over short *histories* (see the section "histories"): valid, corrupted,
             valid again; the corrupted one first; every check bit right after the valid parse; runs of failures; refused calls;
             repr; the sibling parser of the same length; the check engines called directly with every mask; a rebuild; near-twin
             and same-check-value PDUs; PDUs of another kind in between; sibling block codes (Hamming ...) on the same word before
             the small FEC words are parsed or built.  rt_small and words_* judge every codeword (and every 251st word) a first
             time right after the word went through the sibling block codes, in worker processes of their own.
(c) fault_*  library-serialised PDU xor error pattern from the code's *guaranteed* detection set (derived from the
             generator polynomial: order of x, (x+1) factor, bursts <= check width *in code-word order*, mapped to
             wire positions through the PDU layout)  =>  parse raises, or indicator False, or every interpreted field
             equals the original.
"""
from __future__ import annotations

import datetime
import enum
import inspect
import itertools
import json
import re

from bitarray import bitarray
from bitarray.util import ba2int, int2ba

from vp.core import Ctx, Fail, HarnessError, SubCheck, Tally, call, exc_klass, lib_raised
from vp.refs import gf2
from vp.refs import integrity_ref as R

LEVEL = "fault_enumeration"
RULE = (
    "(a) rt_small: all 16x16 SlotType(colour code, data type) and all 16x2x4 EMB(colour code, PI, LCSS) combinations; "
    "rt_pdu: Hypothesis-drawn field values for data header (5 formats), PI header, short LC (null; activity update, plus "
    "all 10x10 activity-id pairs with seeded addresses), confirmed / confirmed-last rate 1/2, 3/4, 1 blocks and HRNP "
    "(7 opcodes; DATA around library-serialised, round-trip-stable HDAP payloads: captured ones and constructed "
    "RCP/TMP/LP/RRS; one class with the packet number solved so that the ones-complement sum needs a second end-around "
    "carry), plus directed PDUs of every kind whose check value on the wire is solved to be exactly all-zero and exactly "
    "all-ones (HRNP, every opcode: 0x0000, 0x0001, 0xFFFE and double carry; 0xFFFF is unreachable), and directed PDUs "
    "with structured payload content (HRNP payloads holding the enclosing frame's header/version pair, header copies, "
    "length and terminator octets at the start / middle / near the end / repeated, constant fills, for every version; "
    "rate blocks and PI header with constant fill, repeated record, identical halves); non-trivial = check "
    "value neither 0 nor all-ones, or a directed extreme-value PDU; distinct by hash of the field values.  "
    "(b) words_*: complete enumeration of the 2^20 / 2^16 received words; every word is a distinct case.  "
    "history: per PDU kind, seeded random and extreme-check-value PDUs x deterministic histories (valid / corrupted inside the "
    "guaranteed set / valid again, corrupted first, every check bit after and before the valid parse, runs of 10 / 17 / 33 "
    "failures, refused calls, repr, sibling parsers of the same length, direct calls of the check engines with every mask, "
    "rebuilds, one bit of every message octet, near-twin PDU, a different message solved to the same check value, another PDU of "
    "the same kind, one PDU of every other kind) plus Hypothesis-drawn histories of 2..10 steps; each parse judged by (a) / (c), "
    "a repeated input repeats its verdict, kept objects keep indicator and fields; distinct by hash, all non-trivial.  "
    "history_words: per code, seeded codewords x (codeword, each neighbour, codeword again; neighbours first; same parity field; "
    "one data bit away; runs of failures), and - sibling block codes of the fec package called on the word first / in between - "
    "every codeword, codewords of every sibling code fitted to the length, neighbours, seeded random words.  rt_small / words_*: "
    "a first pass in separate worker processes judges every field combination / every codeword and every 251st word right after "
    "the word went through every sibling block code.  "
    "(c) fault_*: per PDU kind, seeded random PDUs plus PDUs *constructed* (window of check-width message bits solved on "
    "the reference) to carry a check value of weight 1..2; per PDU the error patterns of the code's guaranteed detection "
    "set: all patterns of weight <= t (t=3 CRC-CCITT and CRC-8, t=2 CRC-9, t=1 HRNP; weight 3 is sampled in the quick "
    "tier for the 96-bit PDUs), all bursts up to a tier-dependent length with every interior pattern, solid bursts of "
    "every length <= w and seeded sampled interiors for the longer ones (w = 16/8/9 from deg G, 15 for HRNP), generated "
    "in code-word order and mapped to wire positions; for confirmed last blocks additionally every 32-bit message CRC "
    "of weight 1..2 with the pattern that zeroes it, every single-bit fault on the directed extreme-check-value PDUs "
    "of (a), and the mask / data-type confusion family: on one random and two extreme PDUs per masked kind (rate blocks "
    "also read as the other confirmed block type) every burst <= w whose syndrome is the xor of two distinct standard "
    "data-type masks of that width (check-field-only pattern, the unique burst per offset solved on the reference, and "
    "DPF switches compensated in the check field when still inside the guaranteed set).  HRNP patterns that shorten the length field are outside the "
    "guaranteed set and counted under excluded_by_construction.  A case is (PDU fields, flipped wire positions); distinct "
    "by construction; non-trivial = the corruption was detected (indicator False or decode error), "
    "as opposed to falling into bits the PDU does not interpret (parsed fields identical)."
)
ASSUMPTIONS = [
    "reference check values: CRC-CCITT/CRC-8/CRC-9 as polynomial remainders (vp/refs/gf2.py) with the standard's inversion "
    "and data-type masks, HRNP ones-complement sum; unit-checked at start-up against the captured vectors quoted in the "
    "repository's tests (data headers, PI header, CACH short LC, CRC-9 blocks, HRNP datagrams)",
    "guaranteed detection sets are derived from the generator polynomial (single errors; double errors because "
    "n <= ord(x); odd weights because (x+1) | G for CRC-CCITT and CRC-8; bursts <= deg G) and brute-force confirmed on "
    "the reference for every weight<=2 pattern and every enumerated burst class at start-up",
    "short-LC and CRC-9 check bits are stored least-significant-first in the library's PDU layouts, so bursts are "
    "generated in code-word order and mapped; a wire-contiguous burst over those fields is not claimed",
    "rate 1/2, 3/4, 1 blocks are parsed with from_bits_typed(bits, Confirmed|ConfirmedLastBlock) - the call "
    "Transmission makes once the header announced confirmed data; untyped from_bits has no CRC-9 notion",
    "'interpreted fields' = the public, non-callable attributes of the parsed object that are constructor parameters of "
    "its class (plus data_packet_format / radio_ip_id_target / talker_alias_data_format, set by differently named "
    "parameters), recursively, the indicator itself "
    "excluded; attributes whose value contains the complete input handed to the parser (diagnostic copies of the received "
    "bits / octets) are not field values and are ignored, as are attributes present on only one of the two parses",
    "any exception raised by the parser on a corrupted input counts as a decode error for this property (which "
    "exception types are acceptable is C03's question)",
]


# ====================================================================================================== library access


def _lib():
    """Late import of everything the module needs from the library under test."""
    global _L
    if _L is None:
        import types

        from okdmr.dmrlib.etsi.layer2.elements.csbk_opcodes import CsbkOpcodes
        from okdmr.dmrlib.etsi.layer2.elements.data_packet_formats import DataPacketFormats
        from okdmr.dmrlib.etsi.layer2.elements.data_types import DataTypes
        from okdmr.dmrlib.etsi.layer2.elements.defined_data_formats import DefinedDataFormats
        from okdmr.dmrlib.etsi.layer2.elements.full_message_flag import FullMessageFlag
        from okdmr.dmrlib.etsi.layer2.elements.resynchronize_flag import ResynchronizeFlag
        from okdmr.dmrlib.etsi.layer2.elements.sap_identifier import SAPIdentifier
        from okdmr.dmrlib.etsi.layer2.elements.sarq import SARQ
        from okdmr.dmrlib.etsi.layer2.elements.slcos import SLCOs
        from okdmr.dmrlib.etsi.layer2.elements.supplementary_flag import SupplementaryFlag
        from okdmr.dmrlib.etsi.layer2.elements.udt_format import UDTFormat
        from okdmr.dmrlib.etsi.layer2.pdu.data_header import DataHeader
        from okdmr.dmrlib.etsi.layer2.pdu.embedded_signalling import EmbeddedSignalling
        from okdmr.dmrlib.etsi.layer2.pdu.pi_header import PIHeader
        from okdmr.dmrlib.etsi.layer2.pdu.rate1_data import Rate1Data, Rate1DataTypes
        from okdmr.dmrlib.etsi.layer2.pdu.rate12_data import Rate12Data, Rate12DataTypes
        from okdmr.dmrlib.etsi.layer2.pdu.rate34_data import Rate34Data, Rate34DataTypes
        from okdmr.dmrlib.etsi.layer2.pdu.short_link_control import ShortLinkControl
        from okdmr.dmrlib.etsi.layer2.pdu.slot_type import SlotType
        from okdmr.dmrlib.etsi.layer3.elements.activity_id import ActivityID
        from okdmr.dmrlib.etsi.layer3.elements.udt_option_flag import UDTOptionFlag
        from okdmr.dmrlib.hytera.pdu.hdap import HDAP
        from okdmr.dmrlib.hytera.pdu.hrnp import HRNP, HRNPOpcodes

        _L = types.SimpleNamespace(**{k: v for k, v in locals().items() if k != "types"})
        _L.RATE = {
            "r12": (Rate12Data, Rate12DataTypes),
            "r34": (Rate34Data, Rate34DataTypes),
            "r1": (Rate1Data, Rate1DataTypes),
        }
    return _L


_L = None

# defined (non-folding) element values, written from the standard's tables (TS 102 361-1 9.3.x) - used by generators only
# (the values the library's enums keep as they are, i.e. the fixed points of their reserved-value folding: the defined
# code points plus the one code point each enum uses as its "Reserved"/"ManufacturerSpecific" representative)
SAP_DEFINED = [0b0000, 0b0010, 0b0011, 0b0100, 0b0101, 0b1001, 0b1010, 0b1111]
DDF_DEFINED = list(range(0b011001)) + [0b111111]
UDT_FORMAT_DEFINED = [0, 1, 2, 3, 4, 5, 6, 7, 0b1000, 0b1010, 0b1111]
ACTIVITY_DEFINED = [0b0000, 0b0001, 0b0010, 0b0011, 0b1000, 0b1001, 0b1010, 0b1011, 0b1100, 0b1101]
HRNP_OPCODES = ["CONNECT", "ACCEPT", "REJECT", "CLOSE", "CLOSE_ACK", "DATA", "DATA_ACK"]
RATE_DATA_OCTETS = {("r12", False): 10, ("r12", True): 6, ("r34", False): 16, ("r34", True): 12, ("r1", False): 22, ("r1", True): 18}

DH_KINDS = ["dh_confirmed", "dh_unconfirmed", "dh_response", "dh_short_defined", "dh_udt"]
RATE_KINDS = ["r12", "r34", "r1"]
CRC_KINDS = DH_KINDS + ["pi_header", "short_lc_null", "short_lc_activity"] + RATE_KINDS
ALL_KINDS = CRC_KINDS + ["hrnp"]



# ====================================================================================================== PDU adapters
# Every adapter works on a plain-JSON description ``pdu`` (dict with "kind") and bit strings as bitarray.


def build(pdu):
    """Construct the library object from field values (check field left to the library)."""
    L = _lib()
    k = pdu["kind"]
    if k.startswith("dh_"):
        common = dict(
            sap_identifier=L.SAPIdentifier(pdu["sap"]),
            llid_destination=pdu["dst"],
            llid_source=pdu["src"],
        )
        if k == "dh_confirmed":
            return L.DataHeader(
                dpf=L.DataPacketFormats.DataPacketConfirmed, is_group=pdu["g"], is_response_requested=pdu["a"],
                pad_octet_count=pdu["poc"], full_message_flag=L.FullMessageFlag(pdu["f"]), blocks_to_follow=pdu["btf"],
                resynchronize_flag=L.ResynchronizeFlag(pdu["s"]), send_sequence_number=pdu["ns"],
                fragment_sequence_number=pdu["fsn"], **common)
        if k == "dh_unconfirmed":
            return L.DataHeader(
                dpf=L.DataPacketFormats.DataPacketUnconfirmed, is_group=pdu["g"], is_response_requested=pdu["a"],
                pad_octet_count=pdu["poc"], full_message_flag=L.FullMessageFlag(pdu["f"]), blocks_to_follow=pdu["btf"],
                fragment_sequence_number=pdu["fsn"], **common)
        if k == "dh_response":
            return L.DataHeader(
                dpf=L.DataPacketFormats.ResponsePacket, is_response_requested=pdu["a"],
                full_message_flag=L.FullMessageFlag(pdu["f"]), blocks_to_follow=pdu["btf"], response_class=pdu["rc"],
                response_type=pdu["rt"], response_status=pdu["rs"], **common)
        if k == "dh_short_defined":
            return L.DataHeader(
                dpf=L.DataPacketFormats.ShortDataDefined, is_group=pdu["g"], is_response_requested=pdu["a"],
                appended_blocks=pdu["ab"], defined_data_format=L.DefinedDataFormats(pdu["ddf"]), sarq=L.SARQ(pdu["sarq"]),
                full_message_flag=L.FullMessageFlag(pdu["f"]), bit_padding=int2ba(pdu["pad"], length=8), **common)
        if k == "dh_udt":
            return L.DataHeader(
                dpf=L.DataPacketFormats.UnifiedDataTransport, is_group=pdu["g"], is_response_requested=pdu["a"],
                is_emergency=pdu["e"], udt_option_flag=L.UDTOptionFlag(pdu["opt"]), udt_format=L.UDTFormat(pdu["fmt"]),
                pad_nibbles_count=pdu["pn"], appended_blocks=pdu["ab"], supplementary_flag=L.SupplementaryFlag(pdu["sf"]),
                udt_opcode=L.CsbkOpcodes(pdu["op"]), **common)
    if k == "pi_header":
        return L.PIHeader(data=bytes.fromhex(pdu["data"]))
    if k == "short_lc_null":
        return L.ShortLinkControl(slco=L.SLCOs.NullMessage)
    if k == "short_lc_activity":
        return L.ShortLinkControl(
            slco=L.SLCOs.ActivityUpdate, ts1_activity_id=L.ActivityID(pdu["a1"]), ts2_activity_id=L.ActivityID(pdu["a2"]),
            ts1_address=int2ba(pdu["ad1"], length=8), ts2_address=int2ba(pdu["ad2"], length=8))
    if k in RATE_KINDS:
        cls, types = L.RATE[k]
        if pdu["last"]:
            return cls(data=bytes.fromhex(pdu["data"]), packet_type=types.ConfirmedLastBlock, dbsn=pdu["dbsn"], crc32=pdu["crc32"])
        return cls(data=bytes.fromhex(pdu["data"]), packet_type=types.Confirmed, dbsn=pdu["dbsn"])
    if k == "hrnp":
        return L.HRNP(
            data=bytes.fromhex(pdu["hdap"]) if pdu["opcode"] == "DATA" else None, opcode=L.HRNPOpcodes[pdu["opcode"]],
            source=pdu["src"], destination=pdu["dst"], block_number=pdu["block"], packet_number=pdu["pn"], version=pdu["version"])
    raise HarnessError(f"unknown PDU kind {k}")


def serialise(pdu, obj) -> bitarray:
    if pdu["kind"] == "hrnp":
        b = bitarray(endian="big")
        b.frombytes(obj.as_bytes())
        return b
    return bitarray(obj.as_bits().tolist())  # normalise mixed-endian concatenations to a plain big-endian bit sequence


def parse(pdu, bits: bitarray):
    L = _lib()
    k = pdu["kind"]
    if k.startswith("dh_"):
        return L.DataHeader.from_bits(bits)
    if k == "pi_header":
        return L.PIHeader.from_bits(bits)
    if k.startswith("short_lc"):
        return L.ShortLinkControl.from_bits(bits)
    if k in RATE_KINDS:
        cls, types = L.RATE[k]
        # "parse_last" (mask-confusion family): read the block as the *other* confirmed block type of the same rate
        return cls.from_bits_typed(bits, types.ConfirmedLastBlock if pdu.get("parse_last", pdu["last"]) else types.Confirmed)
    if k == "hrnp":
        return L.HRNP.from_bytes(bits.tobytes())
    raise HarnessError(f"unknown PDU kind {k}")


def indicator(pdu, obj):
    k = pdu["kind"]
    if k in RATE_KINDS:
        return obj.crc9_ok
    if k == "hrnp":
        return obj.checksum_correct
    return obj.crc_ok


def is_true(ind) -> bool:
    """the indicator says 'ok' (plain bool or numpy bool; anything else is judged by its truth value)"""
    return ind is True or (ind is not None and not isinstance(ind, str) and bool(ind) is True and ind == True)  # noqa: E712


INDICATOR_ATTRS = {"crc_ok", "crc9_ok", "checksum_correct", "fec_parity_ok", "emb_parity_ok"}


def check_field_positions(pdu, n):
    """wire positions of the check field"""
    k = pdu["kind"]
    if k.startswith("dh_") or k == "pi_header":
        return list(range(80, 96))
    if k.startswith("short_lc"):
        return list(range(28, 36))
    if k in RATE_KINDS:
        return list(range(7, 16))
    if k == "hrnp":
        return list(range(80, 96))
    raise HarnessError(k)


def reference_check_bits(pdu, wire: bitarray):
    """Expected contents of the check field (list of wire bits in wire order) computed by the independent reference
    from the *other* wire bits."""
    k = pdu["kind"]
    w = wire.tolist()
    if k.startswith("dh_"):
        return gf2.int_to_bits(R.crc_ccitt(w[:80], R.MASK16["data_header"]), 16)
    if k == "pi_header":
        return gf2.int_to_bits(R.crc_ccitt(w[:80], R.MASK16["pi_header"]), 16)
    if k.startswith("short_lc"):
        return gf2.int_to_bits(R.crc8(w[:28]), 8)[::-1]
    if k in RATE_KINDS:
        return gf2.int_to_bits(R.crc9(w[16:], gf2.bits_to_int(w[:7]), R.MASK9[k]), 9)[::-1]
    if k == "hrnp":
        return gf2.int_to_bits(R.hrnp_checksum(wire.tobytes()), 16)
    raise HarnessError(k)


def expected_wire_bits(pdu):
    k = pdu["kind"]
    if k.startswith("dh_") or k == "pi_header":
        return 96
    if k.startswith("short_lc"):
        return 36
    if k in RATE_KINDS:
        return R.RATE_BITS[k]
    return None


def code_params(pdu, n):
    """(generator polynomial or None for HRNP, code-position -> wire-position list)."""
    k = pdu["kind"]
    if k.startswith("dh_") or k == "pi_header":
        return R.G_CCITT, R.layout_ccitt96()
    if k.startswith("short_lc"):
        return R.G_CRC8, R.layout_short_lc()
    if k in RATE_KINDS:
        return R.G_CRC9, R.layout_crc9(n)
    if k == "hrnp":
        return None, list(range(n))
    raise HarnessError(k)


# fields whose attribute name differs from the constructor parameter that sets them (compared explicitly by name)
RENAMED_FIELDS = {"data_packet_format", "radio_ip_id_target", "talker_alias_data_format"}
_CTOR_PARAMS = {}


def _ctor_params(cls):
    """names of the constructor parameters of ``cls`` (the fields a caller can set); None if not introspectable"""
    if cls not in _CTOR_PARAMS:
        try:
            _CTOR_PARAMS[cls] = {n for n in inspect.signature(cls.__init__).parameters if n != "self"}
        except (TypeError, ValueError):
            _CTOR_PARAMS[cls] = None
    return _CTOR_PARAMS[cls]


def dump(o, _depth=0):
    """Generic field dump of a parsed PDU: public attributes, recursively; the validity indicators are left out."""
    if o is None or isinstance(o, (bool, int, str)):
        return o
    if isinstance(o, enum.Enum):
        return f"{type(o).__name__}.{o.name}"
    if isinstance(o, (bytes, bytearray)):
        return "hex:" + bytes(o).hex()
    if isinstance(o, bitarray):
        return "bits:" + o.to01()
    if isinstance(o, (list, tuple)):
        return [dump(x, _depth + 1) for x in o]
    if isinstance(o, dict):
        return sorted(([repr(dump(k, _depth + 1)), dump(v, _depth + 1)] for k, v in o.items()), key=lambda kv: kv[0])
    if isinstance(o, (float, datetime.date, datetime.time, datetime.datetime)):
        return repr(o)
    if hasattr(o, "__dict__") and _depth < 6:
        d = {"__class__": type(o).__name__}
        settable = _ctor_params(type(o))
        for k in sorted(vars(o)):
            if k.startswith("_") or k in INDICATOR_ATTRS:
                continue
            if settable is not None and k not in settable and k not in RENAMED_FIELDS:
                continue  # derived / diagnostic attribute: not a field a caller can set
            v = getattr(o, k)
            if callable(v) and not isinstance(v, enum.Enum):
                continue
            d[k] = dump(v, _depth + 1)
        return d
    return repr(o)


# ====================================================================================================== (a) round trips


def oracle_rt_small(case):
    """case = {pdu:'slot_type', cc, dt} | {pdu:'emb', cc, pi, lcss} (+ sib: true): constructor generates the parity; the serialised
    word is a reference codeword carrying the given fields; the parsed word reports parity ok and the same fields.  With
    `sib` the codeword first goes through every sibling block code of the package (a case judged before its plain twin)."""
    L = _lib()
    if case.get("sib"):
        # the word these fields serialise to (reference code) goes through every sibling block code of the package first
        if case["pdu"] == "slot_type":
            sibling_code_calls(gf2.bits_to_int(gf2.ref_encode("golay_20_8_7", gf2.int_to_bits(case["cc"], 4) + gf2.int_to_bits(case["dt"], 4))), 20)
            if case["dt"] > 12:
                sibling_code_calls(gf2.bits_to_int(gf2.ref_encode("golay_20_8_7", gf2.int_to_bits(case["cc"], 4) + gf2.int_to_bits(12, 4))), 20)
        else:
            sibling_code_calls(gf2.bits_to_int(gf2.ref_encode("qr_16_7_6", gf2.int_to_bits(case["cc"], 4) + [case["pi"]] + gf2.int_to_bits(case["lcss"], 2))), 16)
    if case["pdu"] == "slot_type":
        st, o = call(L.SlotType, case["cc"], case["dt"])
        bits = bitarray(call(o.as_bits)[1].tolist())
        if len(bits) != 20:
            raise Fail("serialised_length", len(bits), 20, klass="slot_type")
        w = bits.tolist()
        # the data bits the library emitted: the colour code, and the data type either verbatim or - reserved values 13..15 -
        # folded to Reserved(12); both serialisations of a reserved data type are legitimate
        dt_ok = [case["dt"]] + ([12] if case["dt"] > 12 else [])
        if gf2.bits_to_int(w[:4]) != case["cc"] or gf2.bits_to_int(w[4:8]) not in dt_ok:
            raise Fail("serialised_data_bits", bits.to01()[:8], {"cc": case["cc"], "dt": dt_ok}, klass="slot_type")
        exp = gf2.ref_encode("golay_20_8_7", w[:8])  # reference parity over the 8 data bits actually emitted
        if w != exp:
            raise Fail("check_value_equals_reference", bits.to01(), "".join(map(str, exp)), klass="slot_type")
        st, p = call(L.SlotType.from_bits, bits.copy())
        if not (p.fec_parity_ok is True or p.fec_parity_ok == True):
            raise Fail("parsed_indicator_true", p.fec_parity_ok, True, klass="slot_type")
        if (p.colour_code, p.data_type, p.fec_parity) != (o.colour_code, o.data_type, o.fec_parity):
            raise Fail("parsed_fields_equal", dump(p), dump(o), klass="slot_type")
        return
    st, o = call(L.EmbeddedSignalling, case["cc"], case["pi"], case["lcss"])
    bits = bitarray(call(o.as_bits)[1].tolist())
    if len(bits) != 16:
        raise Fail("serialised_length", len(bits), 16, klass="emb")
    exp = gf2.ref_encode("qr_16_7_6", gf2.int_to_bits(case["cc"], 4) + [case["pi"]] + gf2.int_to_bits(case["lcss"], 2))
    if bits.tolist() != exp:
        raise Fail("check_value_equals_reference", bits.to01(), "".join(map(str, exp)), klass="emb")
    st, p = call(L.EmbeddedSignalling.from_bits, bits.copy())
    if not (p.emb_parity_ok is True or p.emb_parity_ok == True):
        raise Fail("parsed_indicator_true", p.emb_parity_ok, True, klass="emb")
    fields = lambda e: (e.colour_code, e.preemption_and_power_control_indicator, e.link_control_start_stop, e.emb_parity)  # noqa: E731
    if fields(p) != fields(o):
        raise Fail("parsed_fields_equal", dump(p), dump(o), klass="emb")


def oracle_rt_pdu(case):
    """case = PDU description.  Returns the check value (int) for the driver's non-trivial rule."""
    k = case["kind"]
    st, o = call(build, case)
    st, wire = call(serialise, case, o)
    n = expected_wire_bits(case)
    if n is not None and len(wire) != n:
        raise Fail("serialised_length", len(wire), n, klass=k)
    pos = check_field_positions(case, len(wire))
    got = [wire[p] for p in pos]
    exp = reference_check_bits(case, wire)
    if got != exp:
        raise Fail("check_value_equals_reference", "".join(map(str, got)), "".join(map(str, exp)), klass=k)
    st, p = call(parse, case, wire.copy())
    if p is None:
        raise Fail("parsed_not_none", None, "object", klass=k)
    if not is_true(indicator(case, p)):
        raise Fail("parsed_indicator_true", indicator(case, p), True, klass=k)
    # the parsed object carries the same check value (it re-serialises to the same check field)
    st, wire2 = call(serialise, case, p)
    got2 = [wire2[q] for q in pos] if len(wire2) == len(wire) else None
    if got2 != exp:
        raise Fail("parsed_check_value_equals_reference", got2 and "".join(map(str, got2)), "".join(map(str, exp)), klass=k)
    return gf2.bits_to_int(got)


# ====================================================================================================== (b) all words

_REFSET = {}


def refset(code):
    if code not in _REFSET:
        _REFSET[code] = gf2.ref_codeword_set({"slot_type": "golay_20_8_7", "emb": "qr_16_7_6"}[code])
    return _REFSET[code]


def oracle_word(case):
    """case = {code: 'slot_type'|'emb', word} (+ sib: true): indicator == (word in reference code).  With `sib` the word goes
    through every sibling block code of the package first (judged before the plain case of the same word)."""
    L = _lib()
    w = case["word"]
    if case.get("sib"):
        sibling_code_calls(w, 20 if case["code"] == "slot_type" else 16)
    if case["code"] == "slot_type":
        st, p = call(L.SlotType.from_bits, int2ba(w, length=20, endian="big"))
        ok = p.fec_parity_ok
    else:
        st, p = call(L.EmbeddedSignalling.from_bits, int2ba(w, length=16, endian="big"))
        ok = p.emb_parity_ok
    exp = w in refset(case["code"])
    if bool(ok) != exp:
        raise Fail("noncodeword_accepted" if ok else "codeword_rejected", bool(ok), exp, klass=case["code"])


# ====================================================================================================== (c) faults

_BUILT = {}


def _built(pdu):
    """(wire bits, dump of the parsed uncorrupted wire).  Memoised per PDU description (pure function of it)."""
    key = json.dumps(pdu, sort_keys=True)
    hit = _BUILT.get(key)
    if hit is None:
        if len(_BUILT) > 64:
            _BUILT.clear()
        st, o = call(build, pdu)
        st, wire = call(serialise, pdu, o)
        st, p0 = call(parse, pdu, wire.copy())
        if not is_true(indicator(pdu, p0)):
            raise Fail("uncorrupted_indicator_true", indicator(pdu, p0), True, klass=pdu["kind"])
        hit = _BUILT[key] = (wire, dump(p0))
    return hit


def corrupted_wire(case) -> bitarray:
    wire, _ = _built(case["pdu"])
    rx = wire.copy()
    for p in case["flips"]:
        rx.invert(p)
    return rx


def parse_inputs(pdu, bits: bitarray):
    """Renderings of the complete input handed to the parser (and, for HRNP, of the payload handed on to the HDAP
    parser): an attribute whose value contains one of them merely echoes the received input (diagnostic copies such as
    ``source_bits`` / ``source_bytes``) and is not a field value of the PDU."""
    bit_strings, hex_strings = [bits.to01()], []
    raw = bits.tobytes()
    if len(raw) >= 4:
        hex_strings.append(raw.hex())
    if pdu["kind"] == "hrnp" and len(raw) > 12 + 4:
        hex_strings.append(raw[12:].hex())
        announced = int.from_bytes(raw[8:10], "big")
        if 12 + 4 < announced < len(raw):
            hex_strings.append(raw[12:announced].hex())
        for h in list(hex_strings[1:]):
            b = bitarray(endian="big")
            b.frombytes(bytes.fromhex(h))
            bit_strings.append(b.to01())
    return {"bits": [b for b in bit_strings if len(b) >= 16], "hex": hex_strings}


def _hex_contains(body: str, h: str) -> bool:
    i = body.find(h)
    while i >= 0:
        if i % 2 == 0:
            return True
        i = body.find(h, i + 1)
    return False


def is_echo(leaf, inputs) -> bool:
    if not isinstance(leaf, str):
        return False
    if leaf.startswith("bits:"):
        return any(b in leaf[5:] for b in inputs["bits"])
    if leaf.startswith("hex:"):
        return any(_hex_contains(leaf[4:], h) for h in inputs["hex"])
    low = leaf.lower()
    return any(b in leaf for b in inputs["bits"]) or any(h in low for h in inputs["hex"])


def field_differences(d0, d1, in0, in1, path="", notes=None):
    """Paths at which two dumps differ in a *field value*.  Not counted: attributes that echo the parser's input on
    either side (see parse_inputs), and attributes present on one side only (noted)."""
    out = []
    if isinstance(d0, dict) and isinstance(d1, dict):
        for k in sorted(set(d0) | set(d1)):
            if k not in d0 or k not in d1:
                if notes is not None:
                    notes.add(f"attribute {path}.{k} present on one side only: skipped")
                continue
            out += field_differences(d0[k], d1[k], in0, in1, f"{path}.{k}", notes)
        return out
    if isinstance(d0, list) and isinstance(d1, list) and len(d0) == len(d1):
        for i, (a, b) in enumerate(zip(d0, d1)):
            out += field_differences(a, b, in0, in1, f"{path}[{i}]", notes)
        return out
    if d0 == d1 or is_echo(d0, in0) or is_echo(d1, in1):
        return out
    return [path or "."]


FAULT_NOTES = set()  # filled by oracle_fault, flushed into the tally notes by the drivers (diagnostics only)


def oracle_fault(case):
    """case = {pdu, flips: [wire positions]}.  Returns 'decode_error' | 'indicator_false' | 'harmless'."""
    pdu = case["pdu"]
    wire, d0 = _built(pdu)
    rx = wire.copy()
    for p in case["flips"]:
        rx.invert(p)
    try:
        p1 = parse(pdu, rx)
    except Exception as e:  # any exception out of the *library's* parser is a decode error for this property
        if not lib_raised(e):
            raise
        return "decode_error"
    if p1 is None:
        return "decode_error"
    ind = indicator(pdu, p1)
    if ind is False or ind == False:  # noqa: E712  (numpy bools)
        return "indicator_false"
    d1 = dump(p1)
    if d1 == d0:
        return "harmless"
    diff = field_differences(d0, d1, parse_inputs(pdu, wire), parse_inputs(pdu, rx), notes=FAULT_NOTES)
    if not diff:
        return "harmless"

    def at(d, path):
        for part in re.findall(r"\.([^.\[]+)|\[(\d+)\]", path):
            try:
                d = d[part[0]] if part[0] else d[int(part[1])]
            except Exception:
                return None
        return d

    raise Fail(
        "corruption_detected_or_harmless",
        {"indicator": ind, "changed_fields": {k: [at(d0, k), at(d1, k)] for k in diff[:12]}, "received": rx.to01() if len(rx) <= 200 else rx.tobytes().hex()},
        "decode error, indicator False, or all interpreted fields equal to the uncorrupted PDU",
        klass=pdu["kind"],
    )


# ------------------------------------------------------------------------------------------------ pattern generators


def _burst_patterns(n, lo, hi):
    """all bursts in code-word order with length lo..hi (first and last bit set, every interior pattern)"""
    for L in range(max(2, lo), hi + 1):
        for inner in range(1 << (L - 2)):
            rel = [0] + [1 + i for i in range(L - 2) if (inner >> i) & 1] + [L - 1]
            for s in range(0, n - L + 1):
                yield [s + r for r in rel]


_PATTERNS = {}


def patterns_complete(n, t, w, full_burst_len, all_w3):
    """Deterministic list of (class label, code-word positions): every pattern of weight <= t (weight 3 only when
    ``all_w3``), every burst of length <= full_burst_len with every interior pattern, solid bursts of the remaining
    lengths <= w.  Burst patterns of weight <= t are not repeated."""
    key = (n, t, w, full_burst_len, all_w3)
    if key in _PATTERNS:
        return _PATTERNS[key]
    out = []
    for i in range(n):
        out.append(("weight_1", (i,)))
    if t >= 2:
        for c in itertools.combinations(range(n), 2):
            out.append(("weight_2", c))
    if t >= 3 and all_w3:
        for c in itertools.combinations(range(n), 3):
            out.append(("weight_3", c))
    fb = min(full_burst_len, w)
    for pat in _burst_patterns(n, 2, fb):
        if len(pat) > t:
            out.append((f"burst_len_le_{fb}", tuple(pat)))
    for L in range(fb + 1, w + 1):
        if L > t:
            for s in range(0, n - L + 1):
                out.append(("burst_solid", tuple(range(s, s + L))))
    if len(_PATTERNS) >= 4:
        _PATTERNS.clear()
    _PATTERNS[key] = out
    return out


def patterns_sampled(n, t, w, full_burst_len, n_bursts, n_w3, rng):
    """Seeded sample of the classes that are too large to enumerate: weight-3 patterns (when not complete) and bursts
    longer than full_burst_len with random interiors."""
    out = []
    if t >= 3 and n_w3:
        seen = set()
        while len(seen) < n_w3:
            c = tuple(sorted(rng.sample(range(n), 3)))
            if c not in seen:
                seen.add(c)
                out.append(("weight_3_sampled", c))
    fb = min(full_burst_len, w)
    if w > fb and n_bursts:
        seen = set()
        guard = 0
        while len(seen) < n_bursts and guard < 50 * n_bursts:
            guard += 1
            L = rng.randint(fb + 1, w)
            s = rng.randint(0, n - L)
            inner = rng.getrandbits(L - 2)
            pat = tuple([s] + [s + 1 + i for i in range(L - 2) if (inner >> i) & 1] + [s + L - 1])
            if t < len(pat) < L and pat not in seen:
                seen.add(pat)
                out.append(("burst_long_sampled", pat))
    return out


# ------------------------------------------------------------------------------------------------ PDU generators (rng)


def ref_wire(pdu):
    """Reference serialisation of the CRC-protected kinds from field values (independent of the library) - used by the
    low-weight-check constructor and cross-checked against the library's wire by rt_pdu (check_value_equals_reference
    compares the library's own bits, this function is only a search aid)."""
    k = pdu["kind"]
    b = gf2.int_to_bits
    if k == "dh_confirmed":
        poc = b(pdu["poc"], 5)
        m = [pdu["g"], pdu["a"], 0, poc[0]] + b(0b0011, 4) + b(pdu["sap"], 4) + poc[1:] + b(pdu["dst"], 24) + b(pdu["src"], 24) + [pdu["f"]] + b(pdu["btf"], 7) + [pdu["s"]] + b(pdu["ns"], 3) + b(pdu["fsn"], 4)
    elif k == "dh_unconfirmed":
        poc = b(pdu["poc"], 5)
        m = [pdu["g"], pdu["a"], 0, poc[0]] + b(0b0010, 4) + b(pdu["sap"], 4) + poc[1:] + b(pdu["dst"], 24) + b(pdu["src"], 24) + [pdu["f"]] + b(pdu["btf"], 7) + [0] * 4 + b(pdu["fsn"], 4)
    elif k == "short_lc_activity":
        m = b(1, 4) + b(pdu["a1"], 4) + b(pdu["a2"], 4) + b(pdu["ad1"], 8) + b(pdu["ad2"], 8)
        return m, R.crc8(m)
    elif k in RATE_KINDS:
        data = []
        for byte in bytes.fromhex(pdu["data"]):
            data += b(byte, 8)
        if pdu["last"]:
            data += b(pdu["crc32"], 32)
        return data, R.crc9(data, pdu["dbsn"], R.MASK9[k])
    else:
        raise HarnessError(k)
    return m, R.crc_ccitt(m, R.MASK16["data_header"])


def gen_pdu(rng, kind, hdap_pool=None, last=None):
    r = rng
    if kind.startswith("dh_"):
        p = {"kind": kind, "sap": r.choice(SAP_DEFINED), "dst": _id24(r), "src": _id24(r)}
        if kind == "dh_confirmed":
            p.update(g=r.getrandbits(1), a=r.getrandbits(1), poc=r.getrandbits(5), f=r.getrandbits(1), btf=r.getrandbits(7), s=r.getrandbits(1), ns=r.getrandbits(3), fsn=r.getrandbits(4))
        elif kind == "dh_unconfirmed":
            p.update(g=r.getrandbits(1), a=r.getrandbits(1), poc=r.getrandbits(5), f=r.getrandbits(1), btf=r.getrandbits(7), fsn=r.getrandbits(4))
        elif kind == "dh_response":
            p.update(a=r.getrandbits(1), f=r.getrandbits(1), btf=r.getrandbits(7), rc=r.getrandbits(2), rt=r.getrandbits(3), rs=r.getrandbits(3))
        elif kind == "dh_short_defined":
            p.update(g=r.getrandbits(1), a=r.getrandbits(1), ab=r.getrandbits(6), ddf=r.choice(DDF_DEFINED), sarq=r.getrandbits(1), f=r.getrandbits(1), pad=r.getrandbits(8))
        elif kind == "dh_udt":
            p.update(g=r.getrandbits(1), a=r.getrandbits(1), e=r.getrandbits(1), opt=r.getrandbits(1), fmt=r.choice(UDT_FORMAT_DEFINED), pn=r.getrandbits(5), ab=r.getrandbits(2), sf=r.getrandbits(1), op=r.choice(_csbk_opcodes()))
        return p
    if kind == "pi_header":
        return {"kind": kind, "data": r.getrandbits(80).to_bytes(10, "big").hex()}
    if kind == "short_lc_null":
        return {"kind": kind}
    if kind == "short_lc_activity":
        return {"kind": kind, "a1": r.choice(ACTIVITY_DEFINED), "a2": r.choice(ACTIVITY_DEFINED), "ad1": r.getrandbits(8), "ad2": r.getrandbits(8)}
    if kind in RATE_KINDS:
        last = bool(r.getrandbits(1)) if last is None else last
        nb = RATE_DATA_OCTETS[(kind, last)]
        p = {"kind": kind, "last": last, "dbsn": r.getrandbits(7), "data": r.getrandbits(8 * nb).to_bytes(nb, "big").hex()}
        if last:
            p["crc32"] = r.getrandbits(32) or 1
        return p
    if kind == "hrnp":
        op = r.choice(HRNP_OPCODES + ["DATA"] * 8)
        return {"kind": kind, "opcode": op, "src": r.getrandbits(8), "dst": r.getrandbits(8), "block": r.getrandbits(8), "pn": r.getrandbits(16), "version": r.choice([0, 1, 2, 3, 4, 4, 4]),
                "hdap": r.choice(hdap_pool) if op == "DATA" else ""}
    raise HarnessError(kind)


def _id24(r):
    c = r.random()
    if c < 0.15:
        return r.choice([0, 1, 0xFFFFFF, 0xFFFFFE, 0x800000])
    if c < 0.4:
        return r.randint(1, 10000)
    return r.getrandbits(24)


_CSBKO = None


def _csbk_opcodes():
    global _CSBKO
    if _CSBKO is None:
        _CSBKO = sorted(m.value for m in _lib().CsbkOpcodes)
    return _CSBKO


LOW_WEIGHT_WINDOW = {
    # kind: (check width, setter of the w-bit window value v into the PDU description) - w consecutive message bits
    "dh_confirmed": 16,
    "dh_unconfirmed": 16,
    "short_lc_activity": 8,
    "r12": 9,
    "r34": 9,
    "r1": 9,
}


def _set_window(p, v):
    k = p["kind"]
    if k.startswith("dh_"):
        p["src"] = (p["src"] & 0xFF0000) | v  # wire bits 48..63
    elif k == "pi_header":
        d = bytearray(bytes.fromhex(p["data"]))  # octets 8..9: wire bits 64..79
        d[8], d[9] = v >> 8, v & 0xFF
        p["data"] = bytes(d).hex()
    elif k == "short_lc_activity":
        p["ad2"] = v  # wire bits 20..27
    else:
        d = bytearray(bytes.fromhex(p["data"]))  # low bit of octet 0 and octet 1: nine consecutive message bits
        d[0] = (d[0] & 0xFE) | (v >> 8)
        d[1] = v & 0xFF
        p["data"] = bytes(d).hex()


def gen_low_weight_check_pdu(rng, kind, last=None):
    """A PDU whose check value has weight 1..2 (so that a corruption inside the guaranteed set can zero the check field
    and still touch a data bit).  Construction, not filtering: w consecutive message bits map bijectively (and
    affinely) onto the w-bit check value, so the window value is solved for on the *reference* serialisation."""
    if kind == "hrnp":
        raise HarnessError("use gen_low_weight_checksum_hrnp")
    p = gen_pdu(rng, kind, last=last)
    w = LOW_WEIGHT_WINDOW[kind]
    target = _low_weight_value(rng, w, 2 if w == 16 else 1)
    _set_window(p, 0)
    base = ref_wire(p)[1]
    basis = []
    for i in range(w):
        _set_window(p, 1 << i)
        basis.append(ref_wire(p)[1] ^ base)
    need = base ^ target
    val = cur = 0
    found = need == 0
    if not found:
        for i in range(1, 1 << w):
            bit = (i & -i).bit_length() - 1
            val ^= 1 << bit
            cur ^= basis[bit]
            if cur == need:
                found = True
                break
    if not found:
        raise HarnessError(f"no window value gives {kind} the check value {target:#x}")
    _set_window(p, val)
    if ref_wire(p)[1] != target:
        raise HarnessError("low-weight construction inconsistent")
    return p


def _xor_solve(basis, need):
    """GF(2): subset of ``basis`` (ints) whose xor is ``need``; returns the subset as a bit mask or None."""
    piv = {}
    for i, v in enumerate(basis):
        m = 1 << i
        while v:
            h = v.bit_length() - 1
            if h in piv:
                v ^= piv[h][0]
                m ^= piv[h][1]
            else:
                piv[h] = (v, m)
                break
    x, v = 0, need
    while v:
        h = v.bit_length() - 1
        if h not in piv:
            return None
        v ^= piv[h][0]
        x ^= piv[h][1]
    return x


def _reference_check_of_library_message(pdu):
    """check value (wire bit order, as int) the *reference* computes over the message bits the library serialises"""
    wire = serialise(pdu, build(pdu))
    return gf2.bits_to_int(reference_check_bits(pdu, wire))


def solve_check_value(pdu, target):
    """Set the check-width window of message bits of a CRC-protected PDU so that the check field on the wire reads
    ``target`` (bits in wire order).  The window maps affinely and bijectively onto the check value; the map is measured
    on the reference CRC of the library's message bits and solved by elimination.  Returns False if unreachable."""
    w = _check_width(pdu["kind"])
    _set_window(pdu, 0)
    base = _reference_check_of_library_message(pdu)
    basis = []
    for i in range(w):
        _set_window(pdu, 1 << i)
        basis.append(_reference_check_of_library_message(pdu) ^ base)
    x = _xor_solve(basis, base ^ target)
    if x is None:
        return False
    _set_window(pdu, x)
    return _reference_check_of_library_message(pdu) == target


def solve_hrnp_checksum(pdu, target):
    """Choose the packet number so that the reference checksum of the datagram is ``target``; False if no packet
    number does (0xFFFF never: the ones-complement sum of a non-zero header is never zero)."""
    pdu["pn"] = 0
    s0 = hrnp_sum(pdu)
    want = (~target) & 0xFFFF  # folded sum; a positive sum s folds to the representative of s mod 65535 in 1..65535
    first = (want - s0) % 65535
    for pn in (first, first + 65535):
        if pn > 0xFFFF:
            continue
        s = s0 + pn
        while s >> 16:
            s = (s & 0xFFFF) + (s >> 16)
        if (~s) & 0xFFFF == target:
            pdu["pn"] = pn
            return True
    return False


def extreme_pdus(ctx: Ctx, kinds, pool):
    """Directed PDUs whose check value ON THE WIRE is extreme: all-zero and all-ones for every CRC-protected kind
    (data header x5, PI header, short LC, confirmed and confirmed-last rate 1/2, 3/4, 1 blocks), and for HRNP (every
    opcode) 0x0000, 0x0001, 0xFFFE plus the double end-around-carry class.  Returns [(kind, label, target|None, pdu)];
    deterministic in VERIF_SEED."""
    out = []
    per = ctx.pick(3, 8)
    for kind in kinds:
        rng = ctx.rng("extreme_check_values", kind)
        if kind == "short_lc_null":
            out.append((kind, "all_zero", 0, {"kind": kind}))  # its CRC is 0 by nature; no other value exists
            continue
        if kind == "hrnp":
            for op in HRNP_OPCODES:
                for target, label in ((0x0000, "all_zero"), (0x0001, "0x0001"), (0xFFFE, "0xfffe")):
                    for _ in range(per if op == "DATA" else max(1, per - 1)):
                        p = gen_pdu(rng, "hrnp", pool)
                        p["opcode"], p["hdap"] = op, (rng.choice(pool) if op == "DATA" else "")
                        if solve_hrnp_checksum(p, target):
                            out.append((kind, label, target, p))
            for _ in range(2 * per):
                p = gen_pdu(rng, "hrnp", pool)
                p["opcode"], p["hdap"] = "DATA", rng.choice(pool)
                out.append((kind, "double_end_around_carry", None, hrnp_double_carry(p)))
            continue
        w = _check_width(kind)
        variants = [False, True] if kind in RATE_KINDS else [None]
        for last in variants:
            for target, label in ((0, "all_zero"), ((1 << w) - 1, "all_ones")):
                for _ in range(per):
                    p = gen_pdu(rng, kind, last=last) if kind in RATE_KINDS else gen_pdu(rng, kind)
                    if solve_check_value(p, target):
                        out.append((kind, label, target, p))
                    else:
                        ctx.tally.excluded[f"extreme_check_value_unreachable:{kind}:{label}"] += 1
    return out


def structured_pdus(ctx: Ctx, kinds):
    """Directed PDUs with *structured payload content* (ROUND5 class A.4).  HRNP: HDAP payloads (TMP short data, TMP text
    octets, RCP with a raw payload) whose free content holds the octets of the enclosing HRNP frame - the header/version
    pair 7E vv at the start, in the middle, repeated, with 0 / 1 / 7 / 8 / 9 / 20 octets following, the first 6 and the
    first 10 header octets, the frame's own length octets, the 0x03 terminator - and constant fills; for every version
    0..4.  Rate 1/2, 3/4, 1 confirmed (last) blocks and the PI header: constant fill, a 2-octet record repeated,
    identical halves.  Payloads that are not round-trip stable through HDAP.from_bytes are left out (counted).  Returns
    [(kind, label, None, pdu)]; deterministic in VERIF_SEED."""
    out = []
    L = _lib()
    for kind in kinds:
        rng = ctx.rng("structured_payloads", kind)
        if kind in RATE_KINDS or kind == "pi_header":
            for last in ([False, True] if kind in RATE_KINDS else [None]):
                nb = RATE_DATA_OCTETS[(kind, last)] if kind in RATE_KINDS else 10
                rec = bytes([rng.getrandbits(8), rng.getrandbits(8)])
                half = bytes(rng.getrandbits(8) for _ in range(nb // 2))
                shapes = {"const_00": b"\x00" * nb, "const_ff": b"\xff" * nb, "const_55": b"\x55" * nb, "const_aa": b"\xaa" * nb, "const_7e": b"\x7e" * nb,
                          "record_repeated": (rec * nb)[:nb], "identical_halves": (half + half + b"\x00")[:nb]}
                for label, data in shapes.items():
                    p = {"kind": kind, "data": data.hex()}
                    if kind in RATE_KINDS:
                        p.update(last=last, dbsn=rng.getrandbits(7))
                        if last:
                            p["crc32"] = int.from_bytes((data * 4)[:4], "big") or 1  # the same record continues into the CRC-32 field
                    out.append((kind, f"structured_payload:{label}", None, p))
            continue
        if kind != "hrnp":
            continue
        from okdmr.dmrlib.hytera.pdu.radio_control_protocol import RadioControlProtocol, RCPOpcode
        from okdmr.dmrlib.hytera.pdu.radio_ip import RadioIP
        from okdmr.dmrlib.hytera.pdu.text_message_protocol import TextMessageProtocol, TMPService

        def fill(k):
            return bytes((rng.getrandbits(8) or 1) for _ in range(k)).replace(b"\x7e", b"\x5a")  # no accidental marker

        for version in range(5):
            hdr = {"src": rng.getrandbits(8), "dst": rng.getrandbits(8), "block": rng.getrandbits(8), "pn": rng.getrandbits(16), "version": version}
            m = bytes([0x7E, version])
            head6 = bytes([0x7E, version, hdr["block"], 0x00, hdr["src"], hdr["dst"]])
            shapes = {
                "marker_at_start": m + fill(20),
                "marker_in_middle": fill(7) + m + fill(15),
                "marker_repeated": m * 9,
                "marker_twice": m + fill(10) + m + fill(12),
                "header6_copy": fill(3) + head6 + fill(14),
                "const_7e": b"\x7e" * 24, "const_version": bytes([version]) * 24, "const_00": b"\x00" * 24, "const_ff": b"\xff" * 24, "const_03": b"\x03" * 24,
                "terminator_then_marker": fill(4) + b"\x03" + m + fill(13),
                "empty": b"",
            }
            for tail in (0, 1, 7, 8, 9, 20):  # octets of content after the marker: both sides of "a whole header still fits"
                shapes[f"marker_then_{tail}_octets"] = fill(6) + m + fill(tail)
            carriers = {
                "tmp_short_data": lambda c: TextMessageProtocol(opcode=TMPService.PrivateShortData, source_ip=RadioIP(1001), destination_ip=RadioIP(1002), short_data=c, request_id=1),
                "tmp_text_octets": lambda c: TextMessageProtocol(opcode=TMPService.SendGroupMessage, source_ip=RadioIP(1001), destination_ip=RadioIP(1), text_data=c, request_id=2),
                "rcp_raw_payload": lambda c: RadioControlProtocol(opcode=RCPOpcode.UnknownService, raw_opcode=b"\x7e" + bytes([version]), raw_payload=c),
            }
            for cname in sorted(carriers):
                for label in sorted(shapes):
                    content = shapes[label]
                    variants = [content]
                    if label == "header6_copy":
                        # the first 10 header octets (with the frame's true length) and the length octets alone: the frame
                        # length depends only on the content length, so solve by building once
                        variants = []
                        try:
                            flen = 12 + len(carriers[cname](content + b"\x00" * 4).as_bytes())
                        except Exception:
                            flen = None
                        if flen is not None:
                            head10 = head6 + hdr["pn"].to_bytes(2, "big") + flen.to_bytes(2, "big")
                            variants = [content + b"\x00" * 4, fill(3) + head10 + fill(14), fill(5) + flen.to_bytes(2, "big") + fill(20)]
                            if len({len(v) for v in variants}) != 1:
                                raise HarnessError("structured payload variants must have one length (the frame length is solved for it)")
                    for vi, c in enumerate(variants):
                        lab = label if vi == 0 else ("header10_copy" if vi == 1 else "frame_length_octets")
                        try:
                            raw = carriers[cname](c).as_bytes()
                            if L.HDAP.from_bytes(raw).as_bytes() != raw:
                                raise ValueError("not a fixed point")
                        except Exception as e:
                            ctx.tally.excluded[f"structured_payload:{cname}:{type(e).__name__}"] += 1
                            continue
                        out.append((kind, f"structured_payload:{cname}:{lab}", None, dict(hdr, kind="hrnp", opcode="DATA", hdap=raw.hex())))
    return out


def gen_low_weight_checksum_hrnp(rng, pool):
    """HRNP DATA datagram whose checksum has weight 1..2: the packet number is solved for on the reference sum."""
    p = gen_pdu(rng, "hrnp", pool)
    p["opcode"], p["hdap"] = "DATA", rng.choice(pool)
    # a set bit at the end of the field, so that a short burst can clear it and reach into the first payload octet
    target = rng.choice([1, 2, 4, 1, 3, _low_weight_value(rng, 16, 2)])
    p["pn"] = 0
    s0 = hrnp_sum(p)
    for pn in range(1 << 16):
        s = s0 + pn
        while s >> 16:
            s = (s & 0xFFFF) + (s >> 16)
        if (~s) & 0xFFFF == target:
            p["pn"] = pn
            return p
    raise HarnessError("no packet number gives the wanted HRNP checksum")


def _low_weight_value(rng, w, max_weight):
    k = rng.randint(1, max_weight)
    v = 0
    for b in rng.sample(range(w), k):
        v |= 1 << b
    return v


# captured HDAP payloads (octets 12.. of the HRNP datagrams quoted in okdmr/tests/dmrlib/hytera/pdu/test_hrnp.py)
CAPTURED_HRNP = [
    "7e0400fe20100000000c60e1", "7e0300fe20100000000c60e2", "7e0400002010000100189b6002040005006400000001c403",
    "7e040000102000010019d6240204800600000f690600012903", "7e0400fd10200000000c70d2", "7e030000201000000018fefe02c910050002000101014f03",
    "7e04000020100000001873890241080500006f0000007503", "7E04001010200001000C71BE", "7e04000020100001001b43b502471808000700000000000000c403",
    "7E040000102000010014857A0247880100006203", "7E040000102000030019FDF9025284060000010A0003E95F03", "7E040000102000020019E41402528406000000E90300006A03",
    "7E04000010200004002767790980B1001400000001000000010A000835610068006F006A000203", "7e04000020100000001c03f502c7100900040b010601050012012303",
    "7e04000020100000001602fb02c8b003000b0400a803", "7E040000102000010019FDFB025284060000010A0003E95F03",
]


def _members(enum_cls):
    """enum members in an order that does not depend on the definition order in the library source"""
    return sorted(enum_cls, key=lambda m: m.name)


def hdap_pool(rng, n):
    """Library-serialised HDAP payloads that are fixed points of HDAP.from_bytes / as_bytes (so that HRNP's checksum over
    the re-serialised payload is a statement about the received octets).  Returns (pool, class histogram, excluded)."""
    L = _lib()
    from okdmr.dmrlib.hytera.pdu.location_protocol import LocationProtocol, LocationProtocolSpecificService
    from okdmr.dmrlib.hytera.pdu.radio_control_protocol import RadioControlProtocol, RadioIpIdTarget, RCPCallType, RCPOpcode, RCPResult
    from okdmr.dmrlib.hytera.pdu.radio_ip import RadioIP
    from okdmr.dmrlib.hytera.pdu.radio_registration_service import RadioRegistrationService, RRSRadioState, RRSResult, RRSTypes
    from okdmr.dmrlib.hytera.pdu.text_message_protocol import TextMessageProtocol, TMPResultCodes, TMPService

    r = rng

    def ip():
        return RadioIP(radio_id=r.choice([1, 1001, r.getrandbits(24)]), subnet=r.choice([10, 0, r.getrandbits(8)]))

    def rb(k):
        return r.getrandbits(8 * k).to_bytes(k, "big") if k else b""

    makers = {
        "rcp_zone_channel": lambda: RadioControlProtocol(opcode=RCPOpcode.ZoneAndChannelOperationRequest, raw_payload=rb(5)),
        "rcp_id_ip_query": lambda: RadioControlProtocol(opcode=RCPOpcode.RadioIDAndRadioIPQueryRequest, target=r.choice(_members(RadioIpIdTarget))),
        "rcp_id_ip_reply": lambda: RadioControlProtocol(opcode=RCPOpcode.RadioIDAndRadioIPQueryReply, target=r.choice(_members(RadioIpIdTarget)), raw_value=rb(4), result=r.choice(_members(RCPResult))),
        "rcp_bcast_msg_cfg": lambda: RadioControlProtocol(opcode=RCPOpcode.BroadcastMessageConfigurationRequest, broadcast_type=r.getrandbits(3)),
        "rcp_bcast_status_cfg": lambda: RadioControlProtocol(opcode=RCPOpcode.BroadcastStatusConfigurationRequest, broadcast_config_raw=b"\x02" + rb(4)),
        "rcp_call_request": lambda: RadioControlProtocol(opcode=RCPOpcode.CallRequest, call_type=r.choice(_members(RCPCallType)), target_id=r.randint(1, 0xFFFFFF)),
        "rcp_call_reply": lambda: RadioControlProtocol(opcode=RCPOpcode.CallReply, result=r.choice(_members(RCPResult))),
        "tmp_private_short": lambda: TextMessageProtocol(opcode=TMPService.PrivateShortData, source_ip=ip(), destination_ip=ip(), short_data=rb(r.randint(0, 24)), is_confirmed=bool(r.getrandbits(1)), is_reliable=bool(r.getrandbits(1)), request_id=r.getrandbits(32)),
        "tmp_group_short": lambda: TextMessageProtocol(opcode=TMPService.GroupShortData, source_ip=ip(), destination_ip=ip(), short_data=rb(r.randint(0, 24)), is_confirmed=bool(r.getrandbits(1)), is_reliable=bool(r.getrandbits(1)), request_id=r.getrandbits(32)),
        "tmp_private_msg": lambda: TextMessageProtocol(opcode=TMPService.SendPrivateMessage, source_ip=ip(), destination_ip=ip(), text_data="".join(r.choice("abcXYZ 019žé") for _ in range(r.randint(0, 12))), is_reliable=bool(r.getrandbits(1)), request_id=r.getrandbits(32)),
        "tmp_group_msg": lambda: TextMessageProtocol(opcode=TMPService.SendGroupMessage, source_ip=ip(), destination_ip=ip(), text_data="".join(r.choice("abcXYZ 019žé") for _ in range(r.randint(0, 12))), is_reliable=bool(r.getrandbits(1)), request_id=r.getrandbits(32)),
        "tmp_private_ack": lambda: TextMessageProtocol(opcode=r.choice([TMPService.SendPrivateMessageAck, TMPService.PrivateShortDataAck]), source_ip=ip(), destination_ip=ip(), request_id=r.getrandbits(32), result_code=r.choice(_members(TMPResultCodes))),
        "tmp_group_ack": lambda: TextMessageProtocol(opcode=r.choice([TMPService.SendGroupMessageAck, TMPService.GroupShortDataAck]), destination_ip=ip(), request_id=r.getrandbits(32), result_code=r.choice(_members(TMPResultCodes))),
        "lp_standard_request": lambda: LocationProtocol(opcode=LocationProtocolSpecificService.StandardRequest, request_id=r.getrandbits(32), radio_ip=ip()),
        "rrs_request": lambda: RadioRegistrationService(opcode=r.choice([RRSTypes.RadioRegistrationRequest, RRSTypes.RadioGoingOffline, RRSTypes.RegistrationStatusCheckRequest]), radio_ip=ip(), is_reliable=bool(r.getrandbits(1))),
        "rrs_answer": lambda: RadioRegistrationService(opcode=RRSTypes.RadioRegistrationAnswer, radio_ip=ip(), result=r.choice(_members(RRSResult)), renew_time_seconds=r.randint(1, 0xFFFE)),
        "rrs_status_answer": lambda: RadioRegistrationService(opcode=RRSTypes.RegistrationStatusCheckAnswer, radio_ip=ip(), radio_state=r.choice(_members(RRSRadioState))),
    }
    pool, hist, excluded = [], {}, {}
    for hx in CAPTURED_HRNP:
        raw = bytes.fromhex(hx)[12:]
        if raw:
            cand = ("captured", raw)
            _pool_add(L, cand, pool, hist, excluded)
    names = sorted(makers)
    i = 0
    while len(pool) < n and i < 6 * n:
        name = names[i % len(names)]
        i += 1
        try:
            raw = makers[name]().as_bytes()
        except Exception as e:  # constructor/serialiser of another property's PDU refuses: not this property's business
            excluded[f"{name}:serialise_{type(e).__name__}"] = excluded.get(f"{name}:serialise_{type(e).__name__}", 0) + 1
            continue
        _pool_add(L, (name, raw), pool, hist, excluded)
    return pool, hist, excluded


def _pool_add(L, cand, pool, hist, excluded):
    name, raw = cand
    try:
        again = L.HDAP.from_bytes(raw).as_bytes()
    except Exception as e:
        excluded[f"{name}:reparse_{type(e).__name__}"] = excluded.get(f"{name}:reparse_{type(e).__name__}", 0) + 1
        return
    if again != raw:
        excluded[f"{name}:not_a_fixed_point"] = excluded.get(f"{name}:not_a_fixed_point", 0) + 1
        return
    if raw.hex() not in pool:
        pool.append(raw.hex())
        hist[name] = hist.get(name, 0) + 1


# ====================================================================================================== drivers


def _run(ctx: Ctx, sub: str, oracle, case, t: Tally):
    """ctx.run_case that hands back the oracle's return value (None when the case failed)."""
    try:
        return oracle(case), True
    except Fail as f:
        return None, ctx.judge(sub, case, f, t) is not None
    except Exception as e:
        if lib_raised(e):
            f = Fail("no_unexpected_exception", observed=f"{type(e).__name__}: {e}", expected="no exception", klass=exc_klass(e))
            return None, ctx.judge(sub, case, f, t) is not None
        raise


_SELFCHECKED = False


def _selfcheck():
    """Unit-check the independent reference against captured on-air vectors quoted in the repository's tests, and the
    derived guaranteed-detection sets against brute force on the reference.  A disagreement is a harness error."""
    global _SELFCHECKED
    if _SELFCHECKED:
        return
    _SELFCHECKED = True

    def bits_of_hex(h):
        b = bitarray(endian="big")
        b.frombytes(bytes.fromhex(h))
        return b.tolist()

    for h in ["023a2337fc2337fe820081a3", "01402337fc2337fe000ff83a", "434e2337fe2337fc84781bd1", "4da123386323383b05005757", "800500010627fce7001bacaf", "8DA300000100000101002B97", "8DA30000010008350100B731"]:
        b = bits_of_hex(h)
        if R.crc_ccitt(b[:80], 0xCCCC) != gf2.bits_to_int(b[80:]):
            raise HarnessError(f"reference CRC-CCITT disagrees with captured data header {h}")
    b = bits_of_hex("211002177afc730000090dda")
    if R.crc_ccitt(b[:80], 0x6969) != gf2.bits_to_int(b[80:]):
        raise HarnessError("reference CRC-CCITT disagrees with captured PI header")
    for s in ["000100000000000000000000000001101000", "000100000011000000001101101011000101", "0" * 36]:
        b = [int(c) for c in s]
        if gf2.int_to_bits(R.crc8(b[:28]), 8)[::-1] != b[28:]:
            raise HarnessError(f"reference CRC-8 (LSB-first field) disagrees with captured short LC {s}")
    for data, sn, crc, mask, crc32 in [
        ("47004d00500054002e004a0047004100", 17, 459, 0x1FF, ""), ("2e00570047005400500044002e004a00", 16, 138, 0x1FF, ""),
        ("0100000101004d004d00470054002e00", 0, 409, 0x1FF, ""), ("0001410048004f004a000000", 0, 447, 0x1FF, "a197ccb4"),
        ("000000000000000000000000", 2, 312, 0x1FF, "f486aed8"),
    ]:
        if R.crc9(bits_of_hex(data + crc32), sn, mask) != crc:
            raise HarnessError(f"reference CRC-9 disagrees with captured block {data}")
    for h in CAPTURED_HRNP:
        raw = bytes.fromhex(h)
        if R.hrnp_checksum(raw) != int.from_bytes(raw[10:12], "big"):
            raise HarnessError(f"reference HRNP checksum disagrees with captured datagram {h}")
    # guaranteed sets: derived parameters, then brute force on the reference for all weight <= 2 and short bursts
    exp = {(R.G_CCITT, 96): 3, (R.G_CRC8, 36): 3, (R.G_CRC9, 96): 2, (R.G_CRC9, 144): 2, (R.G_CRC9, 192): 2}
    for (g, n), t in exp.items():
        got = R.guaranteed(g, n)
        if got["max_weight_all"] != t or got["burst"] != gf2.deg(g):
            raise HarnessError(f"guaranteed-set derivation changed for g={g:#x} n={n}: {got}")
        for i in range(n):
            if R.divisible([i], n, g):
                raise HarnessError("single error undetectable?!")
        for c in itertools.combinations(range(n), 2):
            if R.divisible(list(c), n, g):
                raise HarnessError(f"double error {c} undetectable for g={g:#x} n={n}: derivation wrong")
    for c in itertools.combinations(range(36), 3):
        if R.divisible(list(c), 36, R.G_CRC8):
            raise HarnessError("CRC-8 weight-3 derivation wrong")
    for g, n in [(R.G_CRC8, 36), (R.G_CRC9, 96)]:
        for pat in _burst_patterns(n, 2, gf2.deg(g)):
            if R.divisible(pat, n, g):
                raise HarnessError("burst derivation wrong")


def drv_rt_small(ctx: Ctx, sub: SubCheck):
    """two passes, each in forked workers (the parent process never touches the library's FEC code, so that no later sub-check
    inherits a warmed-up memo): first every field combination with its codeword sent through the sibling block codes before the
    constructor sees it, then the plain cases"""
    _selfcheck()

    def work(item, t: Tally):
        sib, cc = item
        extra = {"sib": True} if sib else {}
        for dt in range(16):
            case = dict({"pdu": "slot_type", "cc": cc, "dt": dt}, **extra)
            ctx.run_case(sub.name, oracle_rt_small, case, t)
            t.case(sub.name, nontrivial=bool(cc or dt or sib), cls="slot_type:sibling_codes_first" if sib else ("slot_type:reserved_13_15" if dt > 12 else "slot_type"))
        for pi in range(2):
            for lcss in range(4):
                case = dict({"pdu": "emb", "cc": cc, "pi": pi, "lcss": lcss}, **extra)
                ctx.run_case(sub.name, oracle_rt_small, case, t)
                t.case(sub.name, nontrivial=bool(cc or pi or lcss or sib), cls="emb:sibling_codes_first" if sib else "emb")

    ctx.shards(work, [(True, cc) for cc in range(16)])
    ctx.shards(work, [(False, cc) for cc in range(16)])
    t = ctx.tally
    t.sample(sub.name, {"pdu": "slot_type", "cc": 5, "dt": 3})
    t.sample(sub.name, {"pdu": "emb", "cc": 1, "pi": 0, "lcss": 2})
    t.exhaustive[sub.name] = True


def _pdu_strategy(kind, pool):
    from hypothesis import strategies as st

    bit = st.integers(0, 1)
    id24 = st.one_of(st.integers(0, 0xFFFFFF), st.sampled_from([0, 1, 0xFFFFFF, 0xFFFFFE]), st.integers(1, 10000))

    def fx(**kw):
        return st.fixed_dictionaries({"kind": st.just(kind), **kw})

    dh_common = dict(sap=st.sampled_from(SAP_DEFINED), dst=id24, src=id24)
    if kind == "dh_confirmed":
        return fx(g=bit, a=bit, poc=st.integers(0, 31), f=bit, btf=st.integers(0, 127), s=bit, ns=st.integers(0, 7), fsn=st.integers(0, 15), **dh_common)
    if kind == "dh_unconfirmed":
        return fx(g=bit, a=bit, poc=st.integers(0, 31), f=bit, btf=st.integers(0, 127), fsn=st.integers(0, 15), **dh_common)
    if kind == "dh_response":
        return fx(a=bit, f=bit, btf=st.integers(0, 127), rc=st.integers(0, 3), rt=st.integers(0, 7), rs=st.integers(0, 7), **dh_common)
    if kind == "dh_short_defined":
        return fx(g=bit, a=bit, ab=st.integers(0, 63), ddf=st.sampled_from(DDF_DEFINED), sarq=bit, f=bit, pad=st.integers(0, 255), **dh_common)
    if kind == "dh_udt":
        return fx(g=bit, a=bit, e=bit, opt=bit, fmt=st.sampled_from(UDT_FORMAT_DEFINED), pn=st.integers(0, 31), ab=st.integers(0, 3), sf=bit, op=st.sampled_from(_csbk_opcodes()), **dh_common)
    if kind == "pi_header":
        return fx(data=st.binary(min_size=10, max_size=10).map(bytes.hex))
    if kind == "short_lc_null":
        return fx()
    if kind == "short_lc_activity":
        return fx(a1=st.sampled_from(ACTIVITY_DEFINED), a2=st.sampled_from(ACTIVITY_DEFINED), ad1=st.integers(0, 255), ad2=st.integers(0, 255))
    if kind in RATE_KINDS:
        def block(last):
            nb = RATE_DATA_OCTETS[(kind, last)]
            kw = dict(last=st.just(last), dbsn=st.integers(0, 127), data=st.binary(min_size=nb, max_size=nb).map(bytes.hex))
            if last:
                kw["crc32"] = st.integers(1, 2**32 - 1)
            return fx(**kw)

        return st.one_of(block(False), block(True))
    if kind == "hrnp":
        hdr = dict(src=st.integers(0, 255), dst=st.integers(0, 255), block=st.integers(0, 255), pn=st.integers(0, 65535), version=st.integers(0, 4))
        return st.one_of(
            fx(opcode=st.sampled_from([o for o in HRNP_OPCODES if o != "DATA"]), hdap=st.just(""), **hdr),
            fx(opcode=st.just("DATA"), hdap=st.sampled_from(pool), **hdr),
            fx(opcode=st.just("DATA"), hdap=st.sampled_from(pool), **hdr),
            fx(opcode=st.just("DATA"), hdap=st.sampled_from(pool), **hdr).map(hrnp_double_carry),
        )
    raise HarnessError(kind)


def hrnp_sum(case):
    """Unfolded sum of the 16-bit words of the datagram described by ``case`` (checksum field excluded), computed from
    the field values (generator aid, independent of the library's serialiser except for the opcode numbers)."""
    L = _lib()
    payload = bytes.fromhex(case["hdap"]) if case["opcode"] == "DATA" else b""
    hdr = bytes([0x7E, case["version"], case["block"], L.HRNPOpcodes[case["opcode"]].value, case["src"], case["dst"]]) + case["pn"].to_bytes(2, "big") + (12 + len(payload)).to_bytes(2, "big")
    data = hdr + payload
    if len(data) % 2:
        data += b"\x00"
    return sum((data[i] << 8) | data[i + 1] for i in range(0, len(data), 2))


def hrnp_double_carry(case):
    """Boundary class: choose the packet number so that the word sum has 0xFFFF in its low half and a non-zero high half -
    the end-around carry then overflows again and a second fold is needed."""
    case = dict(case, pn=0)
    s0 = hrnp_sum(case)
    case["pn"] = (0xFFFF - (s0 & 0xFFFF)) & 0xFFFF
    return case


def hrnp_is_double_carry(case):
    s = hrnp_sum(case)
    return (s & 0xFFFF) + (s >> 16) > 0xFFFF


def _check_width(kind):
    return 16 if (kind.startswith("dh_") or kind in ("pi_header", "hrnp")) else 8 if kind.startswith("short_lc") else 9


def drv_rt_pdu(ctx: Ctx, sub: SubCheck):
    _selfcheck()
    pool, hist, excluded = hdap_pool(ctx.rng("hdap_pool"), ctx.pick(120, 400))
    if len(pool) < 20:
        raise HarnessError(f"HDAP pool collapsed: {len(pool)} payloads ({excluded})")
    ctx.tally.extra["hdap_pool_classes"] = hist
    for k, v in excluded.items():
        ctx.tally.excluded["hdap_pool:" + k] += v
    n = ctx.pick(150, 4000)

    def work(kind, t: Tally):
        w = _check_width(kind)
        results = {}

        def oracle(case):
            results[json.dumps(case, sort_keys=True)] = oracle_rt_pdu(case)

        def record(case, tt):
            chk = results.pop(json.dumps(case, sort_keys=True), None)
            cls = kind
            if kind in RATE_KINDS:
                cls += ":last" if case["last"] else ":continuation"
            if kind == "hrnp":
                cls += ":" + ("DATA" if case["opcode"] == "DATA" else "control")
                if hrnp_is_double_carry(case):
                    tt.cls(sub.name, "hrnp:double_end_around_carry")
            tt.case(sub.name, key=case, nontrivial=chk not in (None, 0, (1 << w) - 1), cls=cls)

        ctx.hypothesis(sub.name, _pdu_strategy(kind, pool), oracle, 1 if kind == "short_lc_null" else n, tally=t, shard=kind, record=record)

    ctx.shards(work, ALL_KINDS)

    # directed: extreme check values on the wire (all-zero / all-ones; HRNP 0x0000, 0x0001, 0xFFFE, double carry), both tiers
    for kind, label, target, case in extreme_pdus(ctx, ALL_KINDS, pool):
        chk, ok = _run(ctx, sub.name, oracle_rt_pdu, case, ctx.tally)
        ctx.tally.case(sub.name, key=case, nontrivial=True, cls=f"extreme_check_value:{kind}:{label}")
        if chk is not None and target is not None and chk != target:
            raise HarnessError(f"directed extreme check value missed: {kind} {label} wanted {target:#x} got {chk:#x} for {case}")

    # directed: structured payload content (frame header / version / terminator / length octets inside the payload, fills)
    for kind, label, target, case in structured_pdus(ctx, ALL_KINDS):
        chk, ok = _run(ctx, sub.name, oracle_rt_pdu, case, ctx.tally)
        ctx.tally.case(sub.name, key=case, nontrivial=True, cls=f"{kind}:{label}" if kind != "hrnp" else label.rsplit(":", 1)[0] + ":*")
        ctx.tally.cls(sub.name, "structured_payload_shape:" + label.rsplit(":", 1)[-1])

    # short LC: every pair of activity ids (10 x 10) with seeded random addresses, always
    rng = ctx.rng("short_lc_pairs")
    for a1 in ACTIVITY_DEFINED:
        for a2 in ACTIVITY_DEFINED:
            for _ in range(ctx.pick(1, 8)):
                case = {"kind": "short_lc_activity", "a1": a1, "a2": a2, "ad1": rng.getrandbits(8), "ad2": rng.getrandbits(8)}
                chk, ok = _run(ctx, sub.name, oracle_rt_pdu, case, ctx.tally)
                ctx.tally.case(sub.name, key=case, nontrivial=chk not in (None, 0, 0xFF), cls="short_lc_activity:all_id_pairs")


def drv_words(code, nbits):
    CH = 1 << 12

    def drv(ctx: Ctx, sub: SubCheck):
        items = [(lo, lo + CH) for lo in range(0, 1 << nbits, CH)]
        if ctx.tier == "thorough":
            ctx.rng("order", code).shuffle(items)  # same complete space, different call order

        def sib_work(it, t: Tally):
            # first contact of the process with a word is through the sibling block codes: every codeword, every 251st word
            lo, hi = it
            rs = refset(code)
            nsib = 0
            for w in range(lo, hi):
                if w in rs or w % 251 == 0:
                    ctx.run_case(sub.name, oracle_word, {"code": code, "word": w, "sib": True}, t)
                    nsib += 1
            t.case(sub.name, nontrivial=True, cls="sibling_codes_first", n=nsib)

        def work(it, t: Tally):
            lo, hi = it
            rs = refset(code)
            ncw = 0
            for w in range(lo, hi):
                ctx.run_case(sub.name, oracle_word, {"code": code, "word": w}, t)
                if w in rs:
                    ncw += 1
            t.case(sub.name, nontrivial=True, cls="codeword", n=ncw)
            t.case(sub.name, nontrivial=True, cls="non_codeword", n=(hi - lo) - ncw)
            t.sample(sub.name, {"code": code, "word": lo + (977 * (lo >> 12)) % CH})

        step = (1 << nbits) // 16
        ctx.shards(sib_work, [(lo, lo + step) for lo in range(0, 1 << nbits, step)])  # separate workers, before the plain pass
        ctx.shards(work, items, chunksize=2)
        ctx.tally.exhaustive[sub.name] = True

    return drv


FAULT_PLAN = {
    # kind group: (sub-check name, kinds)
    "fault_data_header": DH_KINDS,
    "fault_pi_header": ["pi_header"],
    "fault_short_lc": ["short_lc_null", "short_lc_activity"],
    "fault_crc9_block": RATE_KINDS,
    "fault_hrnp": ["hrnp"],
}


def _confusion_masks(kind):
    if kind.startswith("dh_") or kind == "pi_header":
        return R.STANDARD_MASKS_16
    if kind in RATE_KINDS:
        return R.STANDARD_MASKS_9
    if kind.startswith("short_lc"):
        return R.STANDARD_MASKS_8
    return None


def mask_confusion_cases(pdu, n, g, layout, t_all, w, excluded):
    """Error patterns whose syndrome is exactly a ^ b for two distinct standard masks of this check width (a received
    word carrying one passes a check that applies the wrong data-type mask): (i) the check-field-only pattern, (iii) every
    burst <= w with that syndrome (solved on the reference per offset), (ii) for data headers the DPF bits switched to
    every other value with the check field compensated to the same syndrome - kept only when still inside the guaranteed
    set (weight <= t or burst <= w), else counted in ``excluded``.  Returns [(class, pdu, wire flips)]."""
    cases = []
    syns = R.confusion_syndromes(_confusion_masks(pdu["kind"]))
    for syn in sorted(syns):
        for i, pos in enumerate(R.bursts_with_syndrome(g, n, syn)):
            if len(pos) < 2:
                continue  # single-bit patterns are enumerated on every PDU anyway (keeps cases distinct)
            cases.append(("mask_confusion:check_field_only" if i == 0 else "mask_confusion:burst", pdu, sorted(layout[c] for c in pos)))
        if pdu["kind"].startswith("dh_"):
            cur = {"dh_confirmed": 0b0011, "dh_unconfirmed": 0b0010, "dh_response": 0b0001, "dh_short_defined": 0b1101, "dh_udt": 0b0000}[pdu["kind"]]
            for other in range(16):
                if other == cur:
                    continue
                d = [4 + j for j in range(4) if ((cur ^ other) >> (3 - j)) & 1]  # code positions == wire positions
                comp = syn ^ R.syndrome(d, n, g)  # check-field flip that brings the total syndrome to ``syn``
                pos = sorted(d + [n - 1 - j for j in range(w) if (comp >> j) & 1])
                if len(pos) <= t_all or pos[-1] - pos[0] + 1 <= w:
                    cases.append(("mask_confusion:dpf_switch", pdu, sorted(layout[c] for c in pos)))
                else:
                    excluded["mask_confusion_dpf_switch:outside_guaranteed_set"] += 1
    return cases


def _fault_budget(ctx: Ctx, kind):
    """(random PDUs, low-weight-check PDUs, burst length up to which every interior pattern is enumerated, number of sampled
    longer bursts, number of sampled weight-3 patterns or None = all)"""
    q = ctx.quick
    if kind.startswith("dh_"):
        return (2, 1, 7, 1500, 3000) if q else (6, 2, 10, 10000, None)
    if kind == "pi_header":
        return (3, 0, 7, 1500, 3000) if q else (8, 0, 10, 10000, None)
    if kind == "short_lc_activity":
        return (4, 2, 8, 0, None) if q else (40, 12, 8, 0, None)
    if kind == "short_lc_null":
        return (1, 0, 8, 0, None)
    if kind in RATE_KINDS:
        return (2, 1, 6, 1500, None) if q else (8, 4, 9, 0, None)
    if kind == "hrnp":
        return (7, 1, 6, 1500, None) if q else (42, 6, 9, 8000, None)
    raise HarnessError(kind)


def make_fault_driver(group):
    kinds = FAULT_PLAN[group]

    def drv(ctx: Ctx, sub: SubCheck):
        _selfcheck()
        pool = None
        if "hrnp" in kinds:
            pool, hist, excluded = hdap_pool(ctx.rng("hdap_pool"), ctx.pick(120, 400))
            if len(pool) < 20:
                raise HarnessError(f"HDAP pool collapsed: {len(pool)} payloads ({excluded})")
        items = []
        plan_note = {}
        for kind in kinds:
            n_rand, n_low, full_burst, n_sb, n_w3 = _fault_budget(ctx, kind)
            rng = ctx.rng("fault_pdus", kind)
            pdus = []
            for i in range(n_rand):
                pdus.append(("random", gen_pdu(rng, kind, pool, last=bool(i % 2)) if kind in RATE_KINDS else gen_pdu(rng, kind, pool)))
            for i in range(n_low):
                if kind in LOW_WEIGHT_WINDOW:
                    pdus.append(("low_weight_check", gen_low_weight_check_pdu(rng, kind, last=bool(i % 2))))
                elif kind == "hrnp":
                    pdus.append(("low_weight_check", gen_low_weight_checksum_hrnp(rng, pool)))
            for j, (pcls, pdu) in enumerate(pdus):
                n = expected_wire_bits(pdu)
                if n is None:  # hrnp: length depends on the payload
                    n = len(serialise(pdu, build(pdu)))
                g, layout = code_params(pdu, n)
                if g is None:
                    t_all, w = 1, 15
                else:
                    gp = R.guaranteed(g, n)
                    t_all, w = gp["max_weight_all"], gp["burst"]
                label = f"{kind}:{j}"
                all_w3 = n_w3 is None
                spec = (kind, pcls, pdu, n, t_all, w, label, full_burst, n_sb, n_w3, all_w3)
                npat = len(patterns_complete(n, t_all, w, full_burst, all_w3))
                step = 4000
                for lo in range(0, npat, step):
                    items.append(spec + ("complete", lo, min(npat, lo + step)))
                if (n_sb and w > full_burst) or (n_w3 and t_all >= 3):
                    items.append(spec + ("sampled", 0, 0))
                plan_note[label] = {"pdu_class": pcls, "code_bits": n, "enumerated_patterns": npat, "sampled_long_bursts": n_sb if w > full_burst else 0,
                                    "sampled_weight_3": (n_w3 or 0) if t_all >= 3 else 0, "all_weights_up_to": t_all if all_w3 else min(t_all, 2), "burst_up_to": w,
                                    "bursts_with_every_interior_up_to": min(full_burst, w)}
            if kind in RATE_KINDS:
                # directed: last blocks whose 32-bit message CRC has weight 1..2, corrupted so that it reads 0 (a pattern
                # of weight <= 2 inside the guaranteed set; the value 0 is special-cased by CRC9.calculate_from_parts)
                for j in range(ctx.pick(1, 6)):
                    base = gen_pdu(rng, kind, last=True)
                    n = expected_wire_bits(base)
                    spec = (kind, "low_weight_crc32", base, n, 2, 9, f"{kind}:crc32z:{j}", 0, 0, 0, False)
                    items.append(spec + ("crc32_zeroing", 0, 0))
                    plan_note[f"{kind}:crc32z:{j}"] = {"pdu_class": "low_weight_crc32", "code_bits": n, "enumerated_patterns": 528,
                                                       "note": "528 PDUs (every crc32 of weight 1..2) x the one pattern that zeroes the crc32 field"}
        # the directed extreme-check-value PDUs of rt_pdu, under every single-bit fault
        ext = extreme_pdus(ctx, kinds, pool)
        for j, (kind, label, target, pdu) in enumerate(ext):
            n = expected_wire_bits(pdu)
            if n is None:
                n = len(serialise(pdu, build(pdu)))
            items.append((kind, f"extreme_check_value:{label}", pdu, n, 1, 0, f"{kind}:extreme:{j}", 0, 0, 0, False, "weight_1_only", 0, 0))
        for j, (kind, label, target, pdu) in enumerate(structured_pdus(ctx, kinds)):
            if j % 3:
                continue
            n = expected_wire_bits(pdu)
            if n is None:
                n = len(serialise(pdu, build(pdu)))
            items.append((kind, "structured_payload", pdu, n, 1, 0, f"{kind}:structured:{j}", 0, 0, 0, False, "weight_1_only", 0, 0))
        # mask / data-type confusion: per kind one random and two extreme-check PDUs (rate blocks: also read as the other
        # confirmed block type) x the patterns whose syndrome is the xor of two standard masks
        for kind in kinds:
            if _confusion_masks(kind) is None:
                continue
            rng = ctx.rng("mask_confusion_pdus", kind)
            chosen = [gen_pdu(rng, kind, pool)]
            for lab in ("all_zero", "all_ones"):
                chosen += [p for k2, l2, tg, p in ext if k2 == kind and l2 == lab][: ctx.pick(1, 3)]
            if kind in RATE_KINDS:
                chosen = chosen + [dict(p, parse_last=not p["last"]) for p in chosen]
            for j, pdu in enumerate(chosen):
                n = expected_wire_bits(pdu)
                gp = R.guaranteed(code_params(pdu, n)[0], n)
                items.append((kind, "mask_confusion", pdu, n, gp["max_weight_all"], gp["burst"], f"{kind}:maskconf:{j}", 0, 0, 0, False, "mask_confusion", 0, 0))
        ctx.tally.extra.setdefault("fault_plan", {}).update(plan_note)

        def work(it, t: Tally):
            kind, pcls, pdu, n, t_all, w, label, full_burst, n_sb, n_w3, all_w3, part, lo, hi = it
            g, layout = code_params(pdu, n)
            counts = {}
            if part == "crc32_zeroing":
                cases = []
                for k in (1, 2):
                    for bits in itertools.combinations(range(32), k):
                        v = 0
                        for b in bits:
                            v |= 1 << (31 - b)
                        cases.append(("crc32_zeroing", dict(pdu, crc32=v), [n - 32 + b for b in bits]))
            elif part == "weight_1_only":
                cases = [("weight_1", pdu, [layout[i]]) for i in range(n)]
            elif part == "mask_confusion":
                cases = mask_confusion_cases(pdu, n, g, layout, t_all, w, t.excluded)
            else:
                if part == "complete":
                    pats = patterns_complete(n, t_all, w, full_burst, all_w3)[lo:hi]
                else:
                    pats = patterns_sampled(n, t_all, w, full_burst, n_sb, n_w3, ctx.rng("patterns", label))
                cases = [(pcl, pdu, sorted(layout[c] for c in code_pos)) for pcl, code_pos in pats]
            length0 = None
            for pcl, the_pdu, flips in cases:
                if kind == "hrnp" and any(64 <= f < 80 for f in flips):
                    # the length field decides which octets belong to the datagram: a corruption that *shortens* it is
                    # outside the guaranteed set of the ones-complement sum (the dropped words leave the sum); one that
                    # lengthens it must be refused (packet incomplete) and stays in.
                    if length0 is None:
                        length0 = n // 8
                    newlen = length0
                    for f in flips:
                        if 64 <= f < 80:
                            newlen ^= 1 << (79 - f)
                    if newlen < length0:
                        t.excluded["hrnp_length_field_shortened:not_in_guaranteed_set"] += 1
                        continue
                case = {"pdu": the_pdu, "flips": flips}
                outcome, ok = _run(ctx, sub.name, oracle_fault, case, t)
                key = (pcl, outcome or ("known_finding" if ok else "violation"))
                counts[key] = counts.get(key, 0) + 1
            for (pcl, outcome), c in sorted(counts.items()):
                t.case(sub.name, nontrivial=outcome != "harmless", cls=f"{kind}:{pcl}", n=c)
                t.cls(sub.name, f"outcome:{kind}:{outcome}", c)
                t.cls(sub.name, f"pdu_class:{kind}:{pcls}", c)
            for note in sorted(FAULT_NOTES):
                if note not in t.notes:
                    t.notes.append(note)
            FAULT_NOTES.clear()
            if cases:
                mid = cases[len(cases) // 2]
                t.sample(sub.name, {"pdu": mid[1], "flips": mid[2]})

        ctx.shards(work, items)
        # complete over the stated pattern classes per PDU; the PDUs themselves are sampled
        ctx.tally.exhaustive[sub.name] = False

    return drv


# ====================================================================================================== histories
# Every sub-check above judges one parse at a time, and the uncorrupted wire of a PDU is parsed once per process (before the
# stream of its corruptions).  A verdict that depends on what was parsed *before* - a memo of verdicts keyed on the message
# bits without the check field (or on the check value without the message), a check register left dirty by a parse that was
# rightly refused or rightly judged invalid, a counter of consecutive failures, a parsed object whose indicator or fields are
# rewritten when a near-twin is parsed later - is invisible to them.  `history` runs short sequences over one or two PDUs:
# valid / corrupted (inside the guaranteed set) / valid again, the corrupted one first, every check bit in turn right after
# the valid parse, long runs of failures, refused calls (wrong length), repr() of the objects, the same bits through the
# sibling parser of the same length (data header <-> PI header <-> rate 1/2 block, continuation <-> last block), a rebuild,
# and near-twin PDUs (one field changed by one; a different message solved to the SAME check value).  Each parse is judged
# by the statement on its own ((a) uncorrupted => indicator true; (c) corrupted => error / false / same fields), a repeated
# step must repeat its outcome, and every object kept from an earlier step must keep its indicator and field values.


def _hist_indicator(pdu_like, obj):
    try:
        return indicator(pdu_like, obj)
    except AttributeError:
        return None


def _norm_ind(ind):
    return None if ind is None else bool(ind)


def oracle_history(case):
    """case = {pdus: [PDU description, ...], steps: [step, ...]};
    step = {op: 'parse', p, flips: [wire positions], as?: {kind, last?}} | {op: 'refuse', p, how: 'short'|'long'|'empty'|'type'}
         | {op: 'stim', from, flip: [wire positions]} (the bits of PDU `from` with positions flipped - the message of a PDU
         that is built only later - through sibling parsers, own parser and check engines; unjudged)
         | {op: 'repr', of: index of an earlier step} | {op: 'build', p} | {op: 'engines', p} (the check engines behind the indicator
         called directly on the PDU's message: every mask, matching / mismatching / refused check values - stimulus).
    Returns the list of outcomes (driver statistics)."""
    pdus = case["pdus"]

    class _Wires(dict):  # a PDU is built when a step needs it for the first time (a 'stim' step may come before the PDU exists)
        def __missing__(self, p):
            st, o = call(build, pdus[p])
            st, w = call(serialise, pdus[p], o)
            self[p] = w
            return w

    wires = _Wires()
    if not any(s.get("op") == "stim" for s in case["steps"]):
        for p in range(len(pdus)):
            wires[p]
    kept = []  # (step index, parser description, object, indicator at creation, dump at creation)
    objs = {}
    outcomes = []
    first_outcome = {}
    valid_dump = {}
    pending = []  # corrupted parses accepted with indicator true: fields to be compared with the uncorrupted parse of that PDU

    def inspect_kept(i):
        for j, how, o, ind0, d0 in kept:
            ind1 = _norm_ind(_hist_indicator(how, o))
            if ind1 != ind0:
                raise Fail("kept_object_indicator_unchanged", {"object_of_step": j, "indicator_now": ind1, "after_step": i}, ind0, klass=how["kind"])
            d1 = dump(o)
            if d1 != d0:
                diff = field_differences(d0, d1, {"bits": [], "hex": []}, {"bits": [], "hex": []})
                raise Fail("kept_object_fields_unchanged", {"object_of_step": j, "changed": diff[:8], "after_step": i}, "the field values it had when it was parsed", klass=how["kind"])

    for i, s in enumerate(case["steps"]):
        op = s["op"]
        if op == "parse":
            p = s["p"]
            pdu = pdus[p]
            how = s.get("as") or pdu
            rx = wires[p].copy()
            for f in s["flips"]:
                rx.invert(f)
            try:
                obj = parse(how, rx)
                err = None
            except Exception as e:
                if not lib_raised(e):
                    raise
                obj, err = None, e
            if obj is None:
                out = ("decode_error",)
                if not s["flips"] and not s.get("as"):
                    if err is not None:
                        raise Fail("no_unexpected_exception", f"{type(err).__name__}: {err}", "the uncorrupted PDU parses", klass=exc_klass(err))
                    raise Fail("parsed_not_none", None, "object", klass=pdu["kind"])
            else:
                ind = _hist_indicator(how, obj)
                d = dump(obj)
                out = ("parsed", _norm_ind(ind), json.dumps(d, sort_keys=True))
                objs[i] = obj
                kept.append((i, how, obj, _norm_ind(ind), d))
                if not s.get("as"):
                    if not s["flips"]:
                        if not is_true(ind):
                            raise Fail("parsed_indicator_true", {"indicator": ind, "step": i}, True, klass=pdu["kind"])
                        valid_dump.setdefault(p, d)
                    elif not (ind is False or ind == False):  # noqa: E712
                        pending.append((i, p, d, rx))
            key = json.dumps([p, s["flips"], s.get("as")], sort_keys=True)
            if key in first_outcome and first_outcome[key][1] != out:
                raise Fail("same_input_same_verdict", {"step": i, "outcome": out[:2], "first_step": first_outcome[key][0], "first_outcome": first_outcome[key][1][:2]},
                           "the outcome this input had earlier in the history", klass=how["kind"])
            first_outcome.setdefault(key, (i, out))
            outcomes.append(out[0] if out[0] == "decode_error" else ("indicator_true" if out[1] else "indicator_false"))
        elif op == "refuse":
            pdu = pdus[s["p"]]
            w = wires[s["p"]]
            unit = 8 if pdu["kind"] == "hrnp" else 1
            arg = {"short": w[:len(w) - unit], "long": w + bitarray("0" * unit), "empty": bitarray(), "type": None}[s["how"]]
            try:
                if arg is None:
                    (_lib().HRNP.from_bytes if pdu["kind"] == "hrnp" else type(build(pdu)).from_bits)(None)
                else:
                    parse(pdu, arg)
            except Exception:
                pass  # whatever a call outside the domain does is not this property's subject; what it leaves behind is
            outcomes.append("refused_call")
        elif op == "repr":
            o = objs.get(s["of"])
            if o is not None:
                try:
                    repr(o)
                    str(o)
                except Exception:
                    pass
            outcomes.append("repr")
        elif op == "engines":
            try:
                _op_engines({"pdu": pdus[s["p"]]}, wires[s["p"]])
            except Exception:
                pass
            outcomes.append("engines")
        elif op == "stim":
            # the bits of PDU `from` with some positions flipped (the message of a PDU that was not built yet: the check field is
            # stale) through the sibling parsers of that length, the PDU's own parser and the check engines - stimulus only
            rx = wires[s["from"]].copy()
            for f in s["flip"]:
                rx.invert(f)
            like = pdus[s["from"]]
            try:
                _op_engines({"pdu": like}, rx)  # (every other mask before the PDU's own)
            except Exception:
                pass
            for how in _siblings(like) + [like]:
                try:
                    repr(parse(how, rx.copy()))
                except Exception:
                    pass
            outcomes.append("stimulus_before_build")
        elif op == "build":
            p = s["p"]
            st, o = call(build, pdus[p])
            st, w = call(serialise, pdus[p], o)
            if w != wires[p]:
                raise Fail("same_fields_same_wire", {"step": i, "differing_positions": [q for q in range(min(len(w), len(wires[p]))) if w[q] != wires[p][q]][:24], "len": [len(w), len(wires[p])]},
                           "the serialisation these fields gave at the start of the history", klass=pdus[p]["kind"])
            outcomes.append("build")
        else:
            raise HarnessError(f"unknown history step {op}")
        inspect_kept(i)
    for i, p, d1, rx in pending:
        if p not in valid_dump:
            st, o = call(parse, pdus[p], wires[p].copy())
            if o is None or not is_true(indicator(pdus[p], o)):
                raise Fail("parsed_indicator_true", {"indicator": None if o is None else indicator(pdus[p], o), "step": "final"}, True, klass=pdus[p]["kind"])
            valid_dump[p] = dump(o)
        d0 = valid_dump[p]
        if d1 != d0:
            diff = field_differences(d0, d1, parse_inputs(pdus[p], wires[p]), parse_inputs(pdus[p], rx), notes=FAULT_NOTES)
            if diff:
                raise Fail("corruption_detected_or_harmless", {"step": i, "indicator": True, "changed_fields": diff[:12], "flips": case["steps"][i]["flips"]},
                           "decode error, indicator False, or all interpreted fields equal to the uncorrupted PDU", klass=pdus[p]["kind"])
    # the check field of every wire still equals the reference (the histories start from library-built PDUs)
    for p, w in ((pdus[i], wires[i]) for i in sorted(wires)):
        pos = check_field_positions(p, len(w))
        if [w[q] for q in pos] != reference_check_bits(p, w):
            raise Fail("check_value_equals_reference", "".join(str(w[q]) for q in pos), "".join(map(str, reference_check_bits(p, w))), klass=p["kind"])
    return outcomes


SIBLING_PARSERS = {
    # same number of bits, another parser (another data-type mask / another layout): stimulus between two judged parses
    "dh": [{"kind": "pi_header"}, {"kind": "r12", "last": False}, {"kind": "r12", "last": True}],
    "pi_header": [{"kind": "dh_confirmed"}, {"kind": "r12", "last": False}, {"kind": "r12", "last": True}],
    "r12": [{"kind": "dh_confirmed"}, {"kind": "pi_header"}],
}


def _siblings(pdu):
    k = pdu["kind"]
    out = []
    if k in RATE_KINDS:
        out.append({"kind": k, "last": not pdu["last"]})
        out += SIBLING_PARSERS.get(k, [])
    elif k.startswith("dh_"):
        out += SIBLING_PARSERS["dh"]
    elif k == "pi_header":
        out += SIBLING_PARSERS["pi_header"]
    return out


def _near_twin(pdu, rng):
    """the same PDU with one field changed by one unit (another message, in general another check value)"""
    q = dict(pdu)
    k = pdu["kind"]
    if k.startswith("dh_"):
        q[rng.choice(["src", "dst"])] ^= 1 << rng.randrange(24)
    elif k in RATE_KINDS or k == "pi_header":
        d = bytearray(bytes.fromhex(pdu["data"]))
        d[rng.randrange(len(d))] ^= 1 << rng.randrange(8)
        q["data"] = bytes(d).hex()
    elif k == "short_lc_activity":
        q[rng.choice(["ad1", "ad2"])] ^= 1 << rng.randrange(8)
    elif k == "hrnp":
        q["pn"] ^= 1 << rng.randrange(16)
    else:
        return None
    return q


def _near_twin_at(pdu, rng):
    """(near-twin, wire position of the one message bit in which its serialisation differs) - layouts of TS 102 361-1 9.2.x /
    the HRNP header; None where no such field exists"""
    k = pdu["kind"]
    q = dict(pdu)
    if k.startswith("dh_"):
        f = rng.choice(["src", "dst"])
        j = rng.randrange(24)
        q[f] ^= 1 << j
        return q, (40 if f == "src" else 16) + 23 - j
    if k in RATE_KINDS or k == "pi_header":
        d = bytearray(bytes.fromhex(pdu["data"]))
        i, b = rng.randrange(len(d)), rng.randrange(8)
        d[i] ^= 1 << b
        q["data"] = bytes(d).hex()
        return q, (16 if k in RATE_KINDS else 0) + 8 * i + 7 - b
    if k == "short_lc_activity":
        f = rng.choice(["ad1", "ad2"])
        b = rng.randrange(8)
        q[f] ^= 1 << b
        return q, (12 if f == "ad1" else 20) + 7 - b
    if k == "hrnp":
        j = rng.randrange(16)
        q["pn"] ^= 1 << j
        return q, 48 + 15 - j
    return None


def _same_check_twin(pdu, rng):
    """another message of the same kind whose check field on the wire reads the same value (window solved on the reference)"""
    k = pdu["kind"]
    if k == "short_lc_null":
        return None
    try:
        w = serialise(pdu, build(pdu))
        target = gf2.bits_to_int([w[q] for q in check_field_positions(pdu, len(w))])
        if k == "hrnp":
            q = dict(pdu, block=pdu["block"] ^ (1 + rng.randrange(255)))
            return q if solve_hrnp_checksum(q, target) and q != pdu else None
        # the change lies outside the window of message bits that is then solved for the wanted check value
        if k.startswith("dh_"):
            q = dict(pdu, dst=pdu["dst"] ^ (1 << rng.randrange(24)))  # window: src bits 48..63
        elif k == "short_lc_activity":
            q = dict(pdu, ad1=pdu["ad1"] ^ (1 << rng.randrange(8)))  # window: ad2
        else:
            d = bytearray(bytes.fromhex(pdu["data"]))
            i = rng.randrange(8) if k == "pi_header" else 2 + rng.randrange(len(d) - 2)  # window: octets 8..9 / octets 0..1
            d[i] ^= 1 << rng.randrange(8)
            q = dict(pdu, data=bytes(d).hex())
        return q if solve_check_value(q, target) and q != pdu else None
    except Exception:
        return None


def history_shapes(pdu, n, rng, pool=None, others=None):
    """Deterministic histories around one PDU (labelled).  Flips stay inside the code's guaranteed set: weight <= 2 for the CRC
    kinds, weight 1 outside the length field for HRNP."""
    k = pdu["kind"]
    chk = check_field_positions(pdu, n)
    msg = [q for q in range(n) if q not in set(chk) and not (k == "hrnp" and 64 <= q < 80)]
    c1, c1b = [rng.choice(chk)], [rng.choice(chk)]
    m1, m1b = [rng.choice(msg)], [rng.choice(msg)]
    two = k != "hrnp"
    c2 = sorted(rng.sample(chk, 2)) if two else [rng.choice(chk)]
    mc = sorted([rng.choice(msg), rng.choice(chk)]) if two else [rng.choice(msg)]

    def P(flips=(), p=0, as_=None):
        s = {"op": "parse", "p": p, "flips": list(flips)}
        if as_ is not None:
            s["as"] = as_
        return s

    V = P()
    out = []

    def add(label, steps, pdus=None):
        out.append((label, {"pdus": pdus or [pdu], "steps": steps}))

    add("valid_corrupt_valid", [V, P(c1), V, P(c1), P(m1), V, P(mc), V, P(c2), V])
    add("corrupt_first", [P(c1), V, P(c1), V])
    add("corrupt_message_first", [P(m1), V, P(m1), P(mc), V])
    steps = [V]
    for q in chk:
        steps += [P([q]), V]
    add("every_check_bit_after_valid", steps)
    steps = []
    for q in chk:
        steps += [P([q])]
    add("every_check_bit_before_valid", steps + [V] + steps[:3])
    for run in (10, 17, 33):
        steps = [V] + [P([rng.choice(msg if j % 2 else chk)]) for j in range(run)] + [V, P(c1b), V]
        add(f"run_of_{run}_failures_then_valid", steps)
    add("refused_then_valid", [V, {"op": "refuse", "p": 0, "how": "short"}, V, {"op": "refuse", "p": 0, "how": "long"}, P(c1), {"op": "refuse", "p": 0, "how": "empty"}, V,
                               {"op": "refuse", "p": 0, "how": "type"}, P(m1), V])
    add("refused_first", [{"op": "refuse", "p": 0, "how": "short"}, V, P(c1)])
    add("repr_between", [V, {"op": "repr", "of": 0}, P(c1), {"op": "repr", "of": 2}, V, P(m1b), {"op": "repr", "of": 5}, {"op": "repr", "of": 0}, V])
    E = {"op": "engines", "p": 0}
    add("engines_first", [E, V, P(c1), V, P(m1)])
    add("engines_between", [V, E, P(c1), E, V, P(m1), E, P(mc), V])
    add("build_between", [V, {"op": "build", "p": 0}, P(c1), {"op": "build", "p": 0}, V, P(m1), {"op": "build", "p": 0}, V])
    for sib in _siblings(pdu):
        lab = "sibling_parser:" + sib["kind"].split("_")[0] + (":last" if sib.get("last") else "")
        add(lab, [V, P((), 0, sib), V, P(c1), P(c1, 0, sib), V, P(m1, 0, sib), P(m1), V])
        add(lab + ":first", [P((), 0, sib), V, P(c1)])
    tw = _near_twin(pdu, rng)
    if tw is not None:
        add("near_twin", [V, P((), 1), V, P(c1), P(c1, 1), P((), 1), V, P(m1, 1), V, P((), 1)], [pdu, tw])
        add("near_twin_corrupt_first", [P(c1, 1), V, P((), 1), P(c1)], [pdu, tw])
    # the message bits of a PDU reach the sibling parsers and the check engines BEFORE the library builds that PDU: a fresh PDU
    # F that this process has never built, its message derived from its near-twin T (built first) by flipping the one wire bit
    # in which they differ - first contact of every memo with F's message is a sibling's
    fresh = None if k == "short_lc_null" else (gen_pdu(rng, k, pool, last=pdu["last"]) if k in RATE_KINDS else gen_pdu(rng, k, pool))
    twq = _near_twin_at(fresh, rng) if fresh is not None else None
    if twq is not None:
        tw, q = twq
        n2 = expected_wire_bits(fresh) or len(serialise(tw, build(tw)))
        chk2 = check_field_positions(fresh, n2)
        msg2 = [x for x in range(n2) if x not in set(chk2) and not (k == "hrnp" and 64 <= x < 80)]
        f1, g1 = [rng.choice(chk2)], [rng.choice(msg2)]
        S = {"op": "stim", "from": 1, "flip": [q]}
        add("siblings_and_engines_before_build", [S, V, P(f1), V, P(g1), S, V], [fresh, tw])
    tw = _same_check_twin(pdu, rng)
    if tw is not None:
        add("same_check_value_twin", [V, P((), 1), V, P(m1), P(m1, 1), P((), 1), V, P(c1, 1), P(c1), V, P((), 1)], [pdu, tw])
    # one bit of every message octet in turn, each followed by the uncorrupted PDU (HRNP: corruptions that make the parser of
    # the inner layer fail, change the opcode, the version, the terminator ...)
    steps = []
    for q0 in range(0, n, 8):
        cand = [q for q in range(q0, min(q0 + 8, n)) if q in set(msg)]
        if cand:
            steps += [P([rng.choice(cand)]), V]
    add("each_message_octet_then_valid", steps)
    for lab, other in (others or []):
        n2 = expected_wire_bits(other) or len(serialise(other, build(other)))
        chk2 = check_field_positions(other, n2)
        o1 = [rng.choice(chk2)]
        B = {"op": "build", "p": 1}
        add(lab, [V, P((), 1), V, P(o1, 1), V, P(c1), P((), 1), B, P(m1), V, B, P(c1), P(o1, 1), V, P((), 1)], [pdu, other])
        add(lab + ":other_first", [P(o1, 1), V, B, P(c1), P((), 1)], [pdu, other])
    return out


def drv_history(ctx: Ctx, sub: SubCheck):
    from hypothesis import strategies as st

    _selfcheck()
    pool, hist, excluded = hdap_pool(ctx.rng("hdap_pool"), ctx.pick(120, 400))
    per = ctx.pick(2, 8)
    items = []
    ext = extreme_pdus(ctx, ALL_KINDS, pool)
    for kind in ALL_KINDS:
        rng = ctx.rng("history_pdus", kind)
        pdus = []
        for i in range(per if kind != "short_lc_null" else 1):
            pdus.append(("random", gen_pdu(rng, kind, pool, last=bool(i % 2)) if kind in RATE_KINDS else gen_pdu(rng, kind, pool)))
        for lab in ("all_zero", "all_ones"):
            pdus += [("extreme_check_value:" + lab, p) for k2, l2, tg, p in ext if k2 == kind and l2 == lab][:1]
        for j, (pcls, pdu) in enumerate(pdus):
            items.append((kind, pcls, pdu, j))

    def work(it, t: Tally):
        kind, pcls, pdu, j = it
        n = expected_wire_bits(pdu)
        if n is None:
            n = len(serialise(pdu, build(pdu)))
        # partners: another PDU of the same kind (HRNP: another payload length; rate blocks: the other block type) and, for the
        # first PDU of the kind, one PDU of every other kind (an unrelated family between two parses: shared check engines)
        rng2 = ctx.rng("history_partners", kind, j)
        others = [("other_pdu_same_kind", gen_pdu(rng2, kind, pool, last=not pdu["last"]) if kind in RATE_KINDS else gen_pdu(rng2, kind, pool))] if kind != "short_lc_null" else []
        if j == 0:
            others += [(f"other_kind:{k2}", gen_pdu(rng2, k2, pool)) for k2 in ALL_KINDS if k2 != kind]
        for label, case in history_shapes(pdu, n, ctx.rng("history_shapes", kind, j), pool, others):
            outs, ok = _run(ctx, sub.name, oracle_history, case, t)
            t.case(sub.name, key=case, nontrivial=True, cls=f"{label}")
            t.cls(sub.name, f"kind:{kind}")
            t.cls(sub.name, f"pdu_class:{pcls}")
            for o in outs or []:
                t.cls(sub.name, f"step_outcome:{o}")
        t.sample(sub.name, case)

    ctx.shards(work, items)

    # sampled histories: 2..10 steps over one PDU and (half of the time) a near-twin of it
    def strategy(kind):
        def steps_for(pdu):
            n = expected_wire_bits(pdu) or len(serialise(pdu, build(pdu)))
            chk = check_field_positions(pdu, n)
            msg = [q for q in range(n) if q not in set(chk) and not (kind == "hrnp" and 64 <= q < 80)]
            one = st.one_of(st.sampled_from(chk), st.sampled_from(msg)).map(lambda q: [q])
            flips = one if kind == "hrnp" else st.one_of(one, one, st.lists(st.one_of(st.sampled_from(chk), st.sampled_from(msg)), min_size=2, max_size=2, unique=True).map(sorted))
            sibs = _siblings(pdu)
            tw = _near_twin(pdu, ctx.rng("history_twin", json.dumps(pdu, sort_keys=True)))
            pidx = st.sampled_from([0, 0, 1]) if tw is not None else st.just(0)
            parse_ = st.fixed_dictionaries({"op": st.just("parse"), "p": pidx, "flips": st.one_of(st.just([]), flips)})
            alts = [parse_, parse_, parse_, st.fixed_dictionaries({"op": st.just("refuse"), "p": st.just(0), "how": st.sampled_from(["short", "long", "empty", "type"])}),
                    st.fixed_dictionaries({"op": st.just("repr"), "of": st.integers(0, 9)}), st.fixed_dictionaries({"op": st.just("build"), "p": pidx}),
                    st.fixed_dictionaries({"op": st.just("engines"), "p": pidx})]
            if sibs:
                alts.append(st.fixed_dictionaries({"op": st.just("parse"), "p": pidx, "flips": st.one_of(st.just([]), flips), "as": st.sampled_from(sibs)}))
            return st.lists(st.one_of(alts), min_size=2, max_size=10).map(lambda s: {"pdus": [pdu] + ([tw] if tw is not None else []), "steps": s})

        return _pdu_strategy(kind, pool).flatmap(steps_for)

    def hyp(kind, t: Tally):
        def oracle(case):
            oracle_history(case)

        ctx.hypothesis(sub.name, strategy(kind), oracle, ctx.pick(40, 600), tally=t, shard=kind,
                       record=lambda c, tt: tt.case(sub.name, key=c, nontrivial=sum(1 for s in c["steps"] if s["op"] == "parse") >= 2, cls=f"sampled:{kind}"))

    ctx.shards(hyp, [k for k in ALL_KINDS if k != "short_lc_null"])


_BLOCK_CODES = None


def block_codes():
    """[(class, n, k)] of every block code class of okdmr.dmrlib.etsi.fec (found by introspection: a k x n GENERATOR_MATRIX and
    a check method) - the sibling codes of Golay(20,8,7) and QR(16,7,6), which share helper functions with them"""
    global _BLOCK_CODES
    if _BLOCK_CODES is None:
        import importlib
        import pkgutil

        import okdmr.dmrlib.etsi.fec as pkg

        found = []
        for m in sorted(pkgutil.iter_modules(pkg.__path__), key=lambda m: m.name):
            try:
                mod = importlib.import_module(f"{pkg.__name__}.{m.name}")
            except Exception:
                continue
            for name in sorted(vars(mod)):
                c = vars(mod)[name]
                g = getattr(c, "GENERATOR_MATRIX", None) if isinstance(c, type) and getattr(c, "__module__", None) == mod.__name__ else None
                if g is not None and getattr(g, "ndim", 0) == 2 and callable(getattr(c, "check", None)):
                    k, n = g.shape
                    found.append((c, int(max(k, n)), int(min(k, n))))
        _BLOCK_CODES = found
    return _BLOCK_CODES


def sibling_code_calls(w: int, n: int):
    """The n-bit word w through every block code of the package (stimulus; results and exceptions ignored): check and
    check_and_correct on the word fitted to the code's length (the word itself where the lengths agree; its leading / trailing
    bits; zero-extended on either side), generate on its leading information bits."""
    bits = format(w, f"0{n}b")
    for c, n2, k2 in block_codes():
        fits = [bits] if n2 == n else ([bits[:n2], bits[n - n2:]] if n2 < n else [bits + "0" * (n2 - n), "0" * (n2 - n) + bits])
        for b in dict.fromkeys(fits):
            for meth in ("check", "check_and_correct"):
                fn = getattr(c, meth, None)
                if fn is not None:
                    try:
                        fn(bitarray(b))
                    except Exception:
                        pass
        try:
            c.generate(bitarray(bits[:k2] if k2 <= n else bits + "0" * (k2 - n)))
        except Exception:
            pass


def oracle_history_words(case):
    """case = {code: 'slot_type'|'emb', words: [w, ...], sib?: 'before'|'after'}: every word is parsed in turn, its indicator
    equals membership in the reference code; every object parsed earlier keeps its indicator and its fields; a word that occurs
    again gets the verdict it got before.  sib = 'before': right before a word is parsed (for the first time in this case) it
    goes through every sibling block code of the package; a codeword is then also built from its fields (constructor path:
    generated parity is the reference codeword, indicator true).  sib = 'after': parse, sibling codes, parse again."""
    L = _lib()
    code = case["code"]
    n = 20 if code == "slot_type" else 16
    cls = L.SlotType if code == "slot_type" else L.EmbeddedSignalling
    attr = "fec_parity_ok" if code == "slot_type" else "emb_parity_ok"
    kept = []
    sib = case.get("sib")
    words = case["words"]
    if sib == "after":
        words = [x for w in words for x in (w, ("sib", w), w)]
    elif sib == "before":
        words = [x for w in words for x in (("sib", w), w, ("build", w))]
    for i, w in enumerate(words):
        if isinstance(w, tuple):
            if w[0] == "sib":
                sibling_code_calls(w[1], n)
            elif w[1] in refset(code):
                if code == "slot_type":
                    oracle_rt_small({"pdu": "slot_type", "cc": w[1] >> 16, "dt": (w[1] >> 12) & 15})
                else:
                    oracle_rt_small({"pdu": "emb", "cc": w[1] >> 12, "pi": (w[1] >> 11) & 1, "lcss": (w[1] >> 9) & 3})
            continue
        st, p = call(cls.from_bits, int2ba(w, length=n, endian="big"))
        ok = getattr(p, attr)
        exp = w in refset(code)
        if bool(ok) != exp:
            raise Fail("noncodeword_accepted" if ok else "codeword_rejected", {"indicator": bool(ok), "step": i, "word": w}, exp, klass=code)
        kept.append((i, p, bool(ok), dump(p)))
        for j, o, ok0, d0 in kept[-24:]:
            if bool(getattr(o, attr)) != ok0:
                raise Fail("kept_object_indicator_unchanged", {"object_of_step": j, "indicator_now": bool(getattr(o, attr)), "after_step": i}, ok0, klass=code)
            if dump(o) != d0:
                raise Fail("kept_object_fields_unchanged", {"object_of_step": j, "after_step": i}, "the field values it had when it was parsed", klass=code)
    for j, o, ok0, d0 in kept:
        if bool(getattr(o, attr)) != ok0 or dump(o) != d0:
            raise Fail("kept_object_indicator_unchanged", {"object_of_step": j, "after_step": "all"}, ok0, klass=code)


def drv_history_words(ctx: Ctx, sub: SubCheck):
    """per code: for seeded codewords c - c, every word at distance one (parity bits first, then data bits), c again after each
    of them; the non-codewords first and c last; c, a codeword with the same parity field, a codeword one data bit away; runs
    of 10 / 17 / 33 non-codewords and then c."""
    def work(code, t: Tally):
        n = 20 if code == "slot_type" else 16
        k = 8 if code == "slot_type" else 7
        rng = ctx.rng("history_words", code)
        cws = sorted(refset(code))
        by_parity = {}
        for c in cws:
            by_parity.setdefault(c & ((1 << (n - k)) - 1), []).append(c)
        picks = [cws[0], cws[-1]] + rng.sample(cws, ctx.pick(6, 30))
        for c in picks:
            near = [c ^ (1 << b) for b in range(n)]
            cases = [("codeword_then_each_neighbour", [c] + [x for w in near for x in (w, c)]),
                     ("neighbours_first", near + [c] + near[:3] + [c]),
                     ("same_parity_other_data", [c] + by_parity[c & ((1 << (n - k)) - 1)] + [c]),
                     ("data_bit_twins", [c] + [x for b in range(k) for x in ([d for d in cws if (d >> (n - k)) == ((c >> (n - k)) ^ (1 << b))] + [c])])]
            for run in (10, 17, 33):
                cases.append((f"run_of_{run}_failures_then_codeword", [c] + [c ^ (1 + rng.getrandbits(n - 1)) for _ in range(run)] + [c]))
            for label, words in cases:
                words = [w for w in words]
                case = {"code": code, "words": words}
                ctx.run_case(sub.name, oracle_history_words, case, t)
                t.case(sub.name, key=case, nontrivial=True, cls=f"{code}:{label}")
        t.sample(sub.name, case)
        # sibling block codes on the same word first (and in between): every codeword of the code; every codeword of every
        # sibling code fitted to this length (words another code says "valid" about); the neighbours of a few codewords; seeded
        # random words
        sib_words = []
        for c, n2, k2 in block_codes():
            for _ in range(ctx.pick(24, 200)):
                try:
                    g = "".join(str(int(x)) for x in c.generate(bitarray(format(rng.getrandbits(k2), f"0{k2}b"))).tolist())
                except Exception:
                    continue
                sib_words.append(int((g + "0" * n)[:n], 2))
                sib_words.append(int(("0" * n + g)[-n:], 2))
        groups = [("every_codeword", cws), ("sibling_code_codewords", list(dict.fromkeys(sib_words))),
                  ("codeword_neighbours", [c ^ (1 << b) for c in picks[:4] for b in range(n)]), ("random_words", [rng.getrandbits(n) for _ in range(ctx.pick(300, 3000))])]
        for glabel, ws in groups:
            for mode in ("before", "after"):
                if mode == "after" and glabel != "every_codeword":
                    continue
                for lo in range(0, len(ws), 32):
                    case = {"code": code, "words": ws[lo:lo + 32], "sib": mode}
                    ctx.run_case(sub.name, oracle_history_words, case, t)
                    t.case(sub.name, key=case, nontrivial=True, cls=f"{code}:sibling_codes_{mode}:{glabel}")

    ctx.shards(work, ["slot_type", "emb"])


# ====================================================================================================== preludes
# (vp/core.py "Preludes"): calls derived from the case that run between two judgements of it

PRELUDE_GROUPS = ("pdu", "crc", "hytera", "fec")


def _op_parse_variants(a):
    """a = {pdu, flips: [[positions]...]}: parse the PDU's wire uncorrupted and under each corruption; repr the results"""
    pdu = a["pdu"]
    w = serialise(pdu, build(pdu))
    keep = []
    for fl in [[]] + list(a.get("flips", [])):
        rx = w.copy()
        for f in fl:
            if f < len(rx):
                rx.invert(f)
        try:
            o = parse(pdu, rx)
            keep.append(o)
            repr(o)
        except Exception:
            pass
    return keep


def _op_siblings(a):
    """a = {pdu}: the same bits through the sibling parsers of that length, through the byte interface, and wrong lengths"""
    pdu = a["pdu"]
    w = serialise(pdu, build(pdu))
    for sib in _siblings(pdu):
        try:
            repr(parse(sib, w.copy()))
        except Exception:
            pass
    unit = 8 if pdu["kind"] == "hrnp" else 1
    for arg in (w[:len(w) - unit], w + bitarray("0" * unit), bitarray(), w[:len(w) // 2]):
        try:
            parse(pdu, arg)
        except Exception:
            pass
    if pdu["kind"].startswith("dh_"):
        try:
            _lib().DataHeader.from_bytes(w.tobytes()).as_bytes()
        except Exception:
            pass


def _op_engines(a, wire=None):
    """a = {pdu}: the check engines behind the indicators, called directly on the PDU's message with every mask / sibling code,
    with a matching and a mismatching check value, and with arguments they have to refuse"""
    from okdmr.dmrlib.etsi.crc.crc8 import CRC8
    from okdmr.dmrlib.etsi.crc.crc9 import CRC9
    from okdmr.dmrlib.etsi.crc.crc16 import CRC16
    from okdmr.dmrlib.etsi.layer2.elements.crc_masks import CrcMasks

    pdu = a["pdu"]
    w = serialise(pdu, build(pdu)) if wire is None else wire
    k = pdu["kind"]
    calls = []
    if k.startswith("dh_") or k == "pi_header" or k == "hrnp":
        data = w[:80].tobytes()
        rx = ba2int(w[80:96])
        own = {"pi_header": "PiHeader"}.get(k, "DataHeader")
        for m in sorted(CrcMasks, key=lambda m: (m.name == own, m.name)):  # the PDU's own data-type mask last
            calls += [lambda m=m: CRC16.calculate(data, m), lambda m=m: CRC16.check(data, rx, m), lambda m=m: CRC16.check(data, rx ^ 1, m)]
        calls += [lambda: CRC16.check(data, 0x10000, CrcMasks.DataHeader), lambda: CRC16.check(data, -1, CrcMasks.DataHeader), lambda: CRC16.calculate(None, CrcMasks.DataHeader),
                  lambda: CRC16.calculate(data, None)]
    if k.startswith("short_lc"):
        calls += [lambda: CRC8.calculate(w[:28]), lambda: CRC8.check(w[:28], ba2int(w[28:36][::-1])), lambda: CRC8.check(w[:28], ba2int(w[28:36][::-1]) ^ 1), lambda: CRC8.check(w[:28], 256),
                  lambda: CRC8.calculate(w[:27]), lambda: CRC8.calculate(None)]
    if k in RATE_KINDS:
        data = w[16:].tobytes()
        sn, rx = ba2int(w[:7]), ba2int(w[7:16][::-1])
        own9 = {"r12": "Rate12DataContinuation", "r34": "Rate34DataContinuation", "r1": "Rate1DataContinuation"}[k]
        for m in sorted(CrcMasks, key=lambda m: (m.name == own9, m.name)):  # the block's own mask last
            calls += [lambda m=m: CRC9.check(data, sn, rx, m), lambda m=m: CRC9.check(data, sn, rx ^ 1, m), lambda m=m: CRC9.calculate(w[16:] + w[:7], m)]
        calls += [lambda: CRC9.check(data, sn, 512, CrcMasks.Rate12DataContinuation), lambda: CRC9.check(data, 128, rx, CrcMasks.Rate12DataContinuation),
                  lambda: CRC9.calculate_from_parts(data, sn, CrcMasks.Rate12DataContinuation, crc32=b"\x01"), lambda: CRC9.calculate_from_parts(None, sn, CrcMasks.Rate12DataContinuation)]
    if k == "hrnp":
        L = _lib()
        raw = w.tobytes()

        def verify(checked, chk):
            return L.HRNP.from_bytes(raw).verify_checksum(checksum=chk, checked_data=checked)

        calls += [lambda: verify(raw[0:10] + raw[12:], raw[10:12]), lambda: verify(raw[0:10] + raw[12:], b"\x00\x00"), lambda: verify(raw[0:10] + raw[12:-1], raw[10:12]),
                  lambda: verify(b"", raw[10:12]), lambda: verify(None, 0), lambda: verify(raw, "x"), lambda: L.HRNP.from_bytes(raw[:11]), lambda: L.HRNP.from_bytes(raw[:-1])]
    # every engine of the crc package (they share one calculator class) and the 5-bit checksum on the same message, whatever the kind
    from okdmr.dmrlib.etsi.crc.crc32 import CRC32
    from okdmr.dmrlib.etsi.fec.five_bit_checksum import FiveBitChecksum

    whole, head = w.tobytes(), w[:80].tobytes()
    calls += [lambda: CRC32.calculate(whole), lambda: CRC32.check(whole, 0), lambda: CRC32.calculate(head), lambda: CRC16.calculate(head, CrcMasks.CSBK), lambda: CRC8.calculate(w[:28]),
              lambda: CRC9.calculate(w[16:] + w[:7], CrcMasks.Rate34DataContinuation), lambda: FiveBitChecksum.calculate(head[:9]), lambda: FiveBitChecksum.verify(head[:9], 0),
              lambda: CRC32.check(whole, 1 << 32), lambda: CRC32.calculate(None)]
    if k == "hrnp" and pdu.get("opcode") == "DATA":
        L = _lib()
        raw = w.tobytes()
        bad = bytearray(raw[12:])
        if bad:
            bad[len(bad) // 2] ^= 0x10
        calls += [lambda: repr(L.HDAP.from_bytes(raw[12:])), lambda: L.HDAP.from_bytes(bytes(bad)), lambda: L.HDAP.from_bytes(raw[12:-1]), lambda: L.HDAP.from_bytes(raw[12:13])]
    for fn in calls:
        try:
            fn()
        except Exception:
            pass


def _op_fec_words(a):
    """a = {code, words: [w...]}: each word through both small FEC parsers (repr of the results), their codes, and every sibling
    block code of the package; plus arguments the codes have to refuse"""
    from okdmr.dmrlib.etsi.fec.golay_20_8_7 import Golay2087
    from okdmr.dmrlib.etsi.fec.quadratic_residue_16_7_6 import QuadraticResidue1676

    L = _lib()
    n = 20 if a["code"] == "slot_type" else 16
    for x in a["words"]:
        sibling_code_calls(x, n)
        for fn in (lambda: repr(L.SlotType.from_bits(int2ba(x & 0xFFFFF, length=20))), lambda: repr(L.EmbeddedSignalling.from_bits(int2ba(x & 0xFFFF, length=16))),
                   lambda: L.SlotType.from_bits(int2ba(x & 0xFFFF, length=16)), lambda: L.EmbeddedSignalling.from_bits(int2ba(x & 0xFFFFF, length=20))):
            try:
                fn()
            except Exception:
                pass
    for fn in (lambda: Golay2087.check(None), lambda: QuadraticResidue1676.generate(bitarray()), lambda: Golay2087.generate(bitarray("1" * 9)), lambda: QuadraticResidue1676.check(bitarray("1" * 15))):
        try:
            fn()
        except Exception:
            pass


def _passed_words(code, w):
    """the word itself and words an in-order enumeration has already judged (a sibling call on a word still to come would poison a
    later case in a way the replay order 'oracle, calls, oracle' cannot reproduce; the drivers make that first contact
    themselves: cases with sib = true)"""
    return [w, max(0, w - 1)]


PRELUDE_OPS = {"parse_variants": _op_parse_variants, "siblings": _op_siblings, "engines": _op_engines, "fec_words": _op_fec_words}


def prelude_for(sub, case, rng):
    if sub in ("words_slot_type", "words_emb"):
        return [{"x": "fec_words", "a": {"code": case["code"], "words": _passed_words(case["code"], case["word"])}}]
    if sub == "history_words":
        return [{"x": "fec_words", "a": {"code": case["code"], "words": [w for w in case["words"][:16]]}}] if case.get("words") else []
    if sub == "rt_small":
        if case.get("pdu") == "slot_type":
            word = gf2.bits_to_int(gf2.ref_encode("golay_20_8_7", gf2.int_to_bits(case["cc"], 4) + gf2.int_to_bits(case["dt"], 4)))
            return [{"x": "fec_words", "a": {"code": "slot_type", "words": _passed_words("slot_type", word)}}]
        word = gf2.bits_to_int(gf2.ref_encode("qr_16_7_6", gf2.int_to_bits(case["cc"], 4) + [case["pi"]] + gf2.int_to_bits(case["lcss"], 2)))
        return [{"x": "fec_words", "a": {"code": "emb", "words": _passed_words("emb", word)}}]
    if sub == "rt_pdu":
        pdu, own = case, []
    elif sub.startswith("fault_"):
        pdu, own = case["pdu"], [case["flips"]]
    elif sub == "history":
        if not case.get("pdus"):
            return []
        pdu, own = case["pdus"][0], [s["flips"] for s in case["steps"] if s.get("op") == "parse" and s.get("flips")][:2]
    else:
        return []
    if not isinstance(pdu, dict) or pdu.get("kind") not in ALL_KINDS:
        return []
    n = expected_wire_bits(pdu) or 96  # (HRNP: the 12 header octets)
    chk = check_field_positions(pdu, n)
    flips = own + [[rng.choice(chk)], [rng.randrange(n)], sorted({rng.choice(chk), rng.randrange(n)})]
    return [{"x": "parse_variants", "a": {"pdu": pdu, "flips": flips}}, {"x": "siblings", "a": {"pdu": pdu}}, {"x": "engines", "a": {"pdu": pdu}}]


SUBCHECKS = [
    SubCheck("rt_small", oracle_rt_small, drv_rt_small, "(a) all SlotType / EMB field combinations: generated parity is the reference codeword, parsed indicator True"),
    SubCheck("rt_pdu", oracle_rt_pdu, drv_rt_pdu, "(a) generated data header / PI header / short LC / CRC-9 blocks / HRNP: serialise -> parse => indicator True, check value == reference"),
    SubCheck("words_slot_type", oracle_word, drv_words("slot_type", 20), "(b) all 2^20 slot-type words: fec_parity_ok == membership in Golay(20,8,7)"),
    SubCheck("words_emb", oracle_word, drv_words("emb", 16), "(b) all 2^16 EMB words: emb_parity_ok == membership in QR(16,7,6)"),
    SubCheck("fault_data_header", oracle_fault, make_fault_driver("fault_data_header"), "(c) data headers x guaranteed CRC-CCITT error patterns"),
    SubCheck("fault_pi_header", oracle_fault, make_fault_driver("fault_pi_header"), "(c) PI headers x guaranteed CRC-CCITT error patterns"),
    SubCheck("fault_short_lc", oracle_fault, make_fault_driver("fault_short_lc"), "(c) short LC x guaranteed CRC-8 error patterns (code-word order mapped to the LSB-first field)"),
    SubCheck("fault_crc9_block", oracle_fault, make_fault_driver("fault_crc9_block"), "(c) confirmed rate 1/2, 3/4, 1 blocks x guaranteed CRC-9 error patterns (code-word order mapped to DBSN|CRC|data)"),
    SubCheck("fault_hrnp", oracle_fault, make_fault_driver("fault_hrnp"), "(c) HRNP datagrams x all single-bit errors and bursts <= 15 bits"),
    SubCheck("history", oracle_history, drv_history, "(a)+(c) over histories: valid / corrupted / valid again, corrupted first, every check bit in turn, runs of failures, refused calls, repr, "
             "sibling parsers of the same length, rebuilds, near-twin and same-check-value PDUs: every parse judged by the statement, repeated inputs repeat their verdict, kept objects keep "
             "indicator and fields"),
    SubCheck("history_words", oracle_history_words, drv_history_words, "(b) over histories: codeword, each neighbour, codeword again; neighbours first; same parity / one data bit away; runs of "
             "failures: indicator == membership at every step, kept objects keep indicator and fields"),
]

PREDICATES = {}
