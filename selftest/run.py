#!/usr/bin/env python3
"""Sensitivity self-test (development tooling, not a registered check).

For every mutant patch selftest/mutants/Cxx-<slug>.diff: copy /repo's HEAD to a scratch directory, apply the patch, run the
repository's own test suite on the copy (records whether the mutant survives the existing tests), run the property's
quick check against the copy (VP_REPO=copy) and expect exit status 1 with a VIOLATION line; if quick misses, try thorough.
Writes selftest/results.json.  Scratch copies live under /tmp/vp-selftest and are removed after each mutant.

usage: selftest/run.py [Cxx ...] [--no-tests] [--thorough-on-miss]
"""
import glob, json, os, re, shutil, subprocess, sys, time

HERE = os.path.dirname(os.path.abspath(__file__))
VERIF = os.path.dirname(HERE)


def sh(cmd, cwd=None, env=None, timeout=3600):
    p = subprocess.run(cmd, shell=True, cwd=cwd, env=env, capture_output=True, text=True, timeout=timeout)
    return p.returncode, p.stdout + p.stderr


def main():
    args = [a for a in sys.argv[1:] if not a.startswith("--")]
    flags = [a for a in sys.argv[1:] if a.startswith("--")]
    props = [a.upper() for a in args]
    results = {}
    res_path = os.path.join(HERE, "results.json")
    if os.path.exists(res_path):
        results = json.load(open(res_path))
    for path in sorted(glob.glob(os.path.join(HERE, "mutants", "C*-*.diff"))):
        name = os.path.basename(path)[:-5]
        prop = name.split("-")[0]
        if props and prop not in props:
            continue
        scratch = f"/tmp/vp-selftest/{name}"
        shutil.rmtree(scratch, ignore_errors=True)
        os.makedirs(scratch)
        try:
            rc, out = sh(f"git -C /repo archive HEAD | tar -x -C {scratch}")
            rc, out = sh(f"patch -p1 -s --no-backup-if-mismatch < {path}", cwd=scratch)
            if rc != 0:
                results[name] = {"property": prop, "status": "patch_does_not_apply", "detail": out[-300:]}
                print(name, "PATCH DOES NOT APPLY")
                continue
            entry = {"property": prop}
            if "--no-tests" not in flags:
                env = dict(os.environ, PYTHONPATH=scratch)
                rc, out = sh("/venv/bin/python -m pytest -q -p no:cacheprovider --timeout=900 okdmr/tests 2>&1 | tail -1", cwd=scratch, env=env)
                entry["repo_tests"] = out.strip()[-120:]
            env = dict(os.environ, VP_REPO=scratch)
            for tier in ["quick"] + (["thorough"] if "--thorough-on-miss" in flags else []):
                t0 = time.time()
                rc, out = sh(f"./check {prop} --tier {tier}", cwd=VERIF, env=env)
                entry[tier] = {"rc": rc, "wall_s": round(time.time() - t0, 1), "violations": len(re.findall(r"^VIOLATION", out, re.M)),
                               "first": (re.findall(r"subcheck=\S+ clause=\S+", out) or [""])[0]}
                if rc == 1:
                    break
            entry["status"] = "caught_quick" if entry["quick"]["rc"] == 1 else ("caught_thorough" if entry.get("thorough", {}).get("rc") == 1 else "MISSED")
            results[name] = entry
            print(name, entry["status"], entry.get("repo_tests", ""), entry["quick"])
        finally:
            shutil.rmtree(scratch, ignore_errors=True)
    json.dump(results, open(res_path, "w"), indent=1, sort_keys=True)


if __name__ == "__main__":
    main()
