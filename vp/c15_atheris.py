"""Atheris harness for C15 (thorough tier): coverage-guided search on MBXML.from_bytes with the oracle of props/c15.py
('mutated' sub-check).  Run by props/c15.py::drv_atheris in a subprocess:

    python vp/c15_atheris.py -runs=N -max_total_time=T -timeout=0 -seed=S corpus_dir

Oracle failures do not stop the campaign: the input is appended to $VP_ATHERIS_FINDINGS ("<hex> <clause> <klass>") and
the parent process re-judges it in-process (that is where VIOLATION lines and replay files come from).
"""
import logging
import os
import sys

import atheris

with atheris.instrument_imports(include=["okdmr"]):
    from okdmr.dmrlib.motorola import lrrp  # noqa: F401
    from okdmr.dmrlib.motorola import mbxml  # noqa: F401

from props import c15  # noqa: E402
from vp.core import Fail  # noqa: E402

FINDINGS = os.environ.get("VP_ATHERIS_FINDINGS")
_seen = {}


def TestOneInput(data: bytes):
    try:
        c15.oracle_bytes({"data": data.hex()})
    except Fail as f:
        key = (f.clause, f.klass)
        _seen[key] = _seen.get(key, 0) + 1
        if FINDINGS and _seen[key] <= 20:
            with open(FINDINGS, "a") as fh:
                fh.write(f"{data.hex() or '-'} {f.clause} {f.klass}\n")


def main():
    logging.disable(logging.CRITICAL)
    sys.stdout = open(os.devnull, "w")
    atheris.Setup(sys.argv, TestOneInput)
    atheris.Fuzz()


if __name__ == "__main__":
    main()
