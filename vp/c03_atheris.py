"""Atheris harness for C03 (thorough tier): coverage-guided search on the PDU decoders with the oracle of props/c03.py
('decode' sub-check).  Run by props/c03.py::drv_atheris in a subprocess:

    python vp/c03_atheris.py -runs=N -max_total_time=T -timeout=600 -seed=S corpus_dir

Input layout: byte 0 selects the decoder (index modulo the number of decoders), the remaining bytes are the bit string
(zero-padded / truncated to the decoder's fixed length; the UDP/IPv4 decoders take what is there, at least 40 bits).
Oracle failures do not stop the campaign: the input is appended to $VP_ATHERIS_FINDINGS ("<hex> <clause> <klass>") and
the parent process re-judges it in-process (that is where VIOLATION lines and replay files come from).
"""
import logging
import os
import sys

import atheris

with atheris.instrument_imports(include=["okdmr"]):
    from okdmr.dmrlib.etsi.layer2.pdu import csbk, data_header, embedded_signalling, full_link_control, pi_header  # noqa: F401
    from okdmr.dmrlib.etsi.layer2.pdu import rate1_data, rate12_data, rate34_data, short_link_control, slot_type  # noqa: F401
    from okdmr.dmrlib.etsi.layer3.pdu import udp_ipv4_compressed_header  # noqa: F401

from props import c03  # noqa: E402
from vp.core import Fail  # noqa: E402

FINDINGS = os.environ.get("VP_ATHERIS_FINDINGS")
_seen = {}


def TestOneInput(data: bytes):
    case = c03.case_from_fuzz_bytes(data)
    if case is None:
        return
    try:
        c03.oracle_decode(case)
    except Fail as f:
        key = (f.clause, f.klass)
        _seen[key] = _seen.get(key, 0) + 1
        if FINDINGS and _seen[key] <= 20:
            with open(FINDINGS, "a") as fh:
                fh.write(f"{data.hex()} {f.clause} {f.klass}\n")


def main():
    logging.disable(logging.CRITICAL)
    sys.stdout = open(os.devnull, "w")
    atheris.Setup(sys.argv, TestOneInput)
    atheris.Fuzz()


if __name__ == "__main__":
    main()
