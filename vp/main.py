"""CLI:  python -m vp.main <Cxx> [--tier quick|thorough] [--replay FILE] [--sub NAME] [--list]"""
from __future__ import annotations

import argparse
import glob
import importlib
import json
import os
import sys
import time
import traceback

from . import core
from .core import Ctx, Fail, HarnessError, out


def load_module(prop: str):
    return importlib.import_module(f"props.{prop.lower()}")


def do_replay(ctx: Ctx, path: str) -> int:
    with open(path) as fh:
        rep = json.load(fh)
    subs = {s.name: s for s in ctx.module.SUBCHECKS}
    sub = subs.get(rep["subcheck"])
    if sub is None:
        out(f"HARNESS-ERROR: replay names unknown sub-check {rep['subcheck']}")
        return 2
    case = rep["case"]
    ok = ctx.run_case(sub.name, sub.oracle, case)
    if ok and not ctx.tally.known:
        out(f"REPLAY-OK property={ctx.prop} subcheck={sub.name}: the case holds on this tree")
        return 0
    for fid, n in ctx.tally.known.items():
        e = [x for x in ctx.findings.open if x["id"] == fid][0]
        out(f"KNOWN-FINDING: property={ctx.prop} {fid} {e['what']}")
    rc = 0
    for f in ctx.tally.failures:
        out(f"VIOLATION property={ctx.prop} replay={os.path.abspath(path)}")
        out(f"  subcheck={f['sub']} clause={f['clause']} klass={f['klass']}")
        out(f"  observed={core._short(f['observed'], 600)}")
        out(f"  expected={core._short(f['expected'], 600)}")
        rc = 1
    return rc


def main(argv=None) -> int:
    ap = argparse.ArgumentParser()
    ap.add_argument("prop")
    ap.add_argument("--tier", default=os.environ.get("VERIF_TIER", "quick"), choices=["quick", "thorough"])
    ap.add_argument("--replay")
    ap.add_argument("--sub", action="append", help="run only these sub-checks (development aid; evidence is still written)")
    ap.add_argument("--list", action="store_true")
    args = ap.parse_args(argv)
    prop = args.prop.upper()
    try:
        seed = int(os.environ.get("VERIF_SEED", "1") or "1")
    except ValueError:
        seed = core.derive_seed(os.environ.get("VERIF_SEED")) % (2**31)

    t0 = time.time()
    # private Hypothesis storage (constants cache) per run: concurrent runs never share mutable state
    if not os.environ.get("HYPOTHESIS_STORAGE_DIRECTORY"):
        import atexit, shutil, tempfile

        d = tempfile.mkdtemp(prefix="vp-hyp-")
        os.environ["HYPOTHESIS_STORAGE_DIRECTORY"] = d
        pid = os.getpid()
        atexit.register(lambda: os.getpid() == pid and shutil.rmtree(d, ignore_errors=True))
    try:
        core.silence_library()
        core.assert_library_location()
        core.preimport_library()
        module = load_module(prop)
        ctx = Ctx(prop, args.tier, seed, module)
        if args.list:
            for s in module.SUBCHECKS:
                out(f"{s.name}: {s.doc}")
            return 0
        if args.replay:
            return do_replay(ctx, args.replay)

        subs = [s for s in module.SUBCHECKS if args.tier in s.tiers and (not args.sub or s.name in args.sub)]
        by_name = {s.name: s for s in module.SUBCHECKS}

        # 1. regression replays (seconds-long replay tier): committed, shrunk failures of earlier trees
        n_reg = 0
        for path in sorted(glob.glob(os.path.join(core.VERIF_DIR, "regressions", f"{prop}-*.json"))):
            with open(path) as fh:
                rep = json.load(fh)
            s = by_name.get(rep["subcheck"])
            if s is None:
                raise HarnessError(f"regression {path} names unknown sub-check {rep['subcheck']}")
            if args.sub and s.name not in args.sub:
                continue
            ctx.run_case(s.name, s.oracle, rep["case"])
            ctx.tally.case(s.name, cls="regression_replay")
            n_reg += 1
        # 2. witnesses of open known findings -> deterministic KNOWN-FINDING lines
        for e in ctx.findings.for_property(prop):
            w = e.get("witness")
            if not w:
                continue
            s = by_name.get(w["sub"])
            if s is None:
                raise HarnessError(f"known finding {e['id']} witness names unknown sub-check {w['sub']}")
            held = ctx.run_case(s.name, s.oracle, w["case"])
            ctx.tally.case(s.name, cls="known_finding_witness")
            if held and not ctx.tally.known.get(e["id"]):
                ctx.tally.notes.append(f"witness of known finding {e['id']} no longer fails on this tree")
        # 3. generated search
        for s in subs:
            ts = time.time()
            s.driver(ctx, s)
            ctx.sub_wall[s.name] = round(time.time() - ts, 2)
        return finish(ctx, t0, [s.name for s in subs], n_reg)
    except HarnessError as e:
        out(f"HARNESS-ERROR: {e}")
        return 2
    except Exception:
        out("HARNESS-ERROR: " + traceback.format_exc())
        return 2


def finish(ctx: Ctx, t0: float, subs_run, n_reg: int) -> int:
    t = ctx.tally
    module = ctx.module
    rc = 0
    for fid, n in sorted(t.known.items()):
        e = [x for x in ctx.findings.open if x["id"] == fid][0]
        out(f"KNOWN-FINDING: property={ctx.prop} {fid}: {e['what']} (n={n} this run)")
    replays = []
    for f in t.failures:
        p = core.write_replay(ctx.prop, ctx.tier, ctx.seed, f)
        replays.append(p)
        out(f"VIOLATION property={ctx.prop} replay={p}")
        out(f"  subcheck={f['sub']} clause={f['clause']} klass={f['klass']} occurrences={t.fail_counts.get(f['bucket'], 1)}")
        out(f"  case={core._short(f['case'], 400)}")
        out(f"  observed={core._short(f['observed'], 400)}")
        out(f"  expected={core._short(f['expected'], 400)}")
        rc = 1
    if t.errors:
        for e in t.errors:
            out(f"HARNESS-ERROR: {e}")
        if rc == 0:
            rc = 2

    samples = []
    for sub, lst in t.samples.items():
        for s in lst[: core.Tally.MAX_SAMPLES]:
            samples.append({"subcheck": sub, "case": s})
    wall = round(time.time() - t0, 2)
    exhaustive_all = bool(t.exhaustive) and all(t.exhaustive.values()) and set(t.exhaustive.keys()) >= set(subs_run)
    ev = {
        "property_id": ctx.prop,
        "tier": ctx.tier,
        "seed": ctx.seed,
        "level": getattr(module, "LEVEL", "exploration"),
        "coverage": {
            "evaluations": t.evaluations,
            "distinct_nontrivial": t.distinct_nontrivial,
            "rule": getattr(module, "RULE", ""),
            "samples": samples,
            "exhaustive": exhaustive_all,
            "exhaustive_subchecks": {k: v for k, v in sorted(t.exhaustive.items())},
            "subchecks_run": subs_run,
            "evaluations_per_subcheck": dict(sorted(t.sub_evals.items())),
            "wall_s_per_subcheck": ctx.sub_wall,
            "classes": dict(sorted(t.classes.items())),
            "regressions_replayed": n_reg,
            "known_findings": dict(sorted(t.known.items())),
            "excluded_by_construction": dict(sorted(t.excluded.items())),
            "violation_buckets": dict(sorted(t.fail_counts.items())),
            "notes": t.notes,
            "harness_errors": t.errors,
            **t.extra,
        },
        "assumptions": list(getattr(module, "ASSUMPTIONS", [])),
        "wall_s": wall,
        "violations": len(t.fail_counts),
    }
    # evidence is only ever written to /verif/evidence by runs against /repo itself; runs against a scratch copy
    # (VP_REPO=..., mutants / seeded changes) write theirs next to that copy
    evdir = os.environ.get("VP_EVIDENCE_DIR") or (
        os.path.join(core.VERIF_DIR, "evidence") if core.REPO == os.path.realpath("/repo") else os.path.join(core.REPO, ".vp_evidence")
    )
    os.makedirs(evdir, exist_ok=True)
    with open(os.path.join(evdir, f"{ctx.prop}.json"), "w") as fh:
        json.dump(ev, fh, indent=1, sort_keys=False)
        fh.write("\n")
    out(
        f"{ctx.prop} tier={ctx.tier} seed={ctx.seed}: evaluations={t.evaluations} distinct_nontrivial={t.distinct_nontrivial} "
        f"violations={len(t.fail_counts)} known={sum(t.known.values())} wall={wall}s -> {'OK' if rc == 0 else 'FAIL' if rc == 1 else 'HARNESS-ERROR'}"
    )
    return rc


if __name__ == "__main__":
    sys.exit(main())
