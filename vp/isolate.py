"""Judging a history in a process of its own (helper of props/c14.py, c15.py, c16.py; round 7).

A history sub-check asks "does an earlier call of a sibling entry point change what a later call returns?".  The state such
a defect lives in (a memo, a class-level table, an interned object) usually survives the case: once a process has judged
one history that dirties the memo, every later case of that process that touches the same key fails as well - including
the candidates of Hypothesis' shrinker, which then "shrinks" the history to its last call alone.  Such a case fails in the
worker and holds in a fresh interpreter, so its replay file is worthless.  The same happens when anything else dirtied the
process before: the regression replays the main process runs first (all workers are forked from it), a prelude of the
framework.

`isolated(oracle)` returns an oracle that sends the case to a *judge server* and relays the verdict.  The server is a fresh
interpreter (`python -m vp.isolate <module> <oracle>`, one per process that uses the oracle, started on first use) that has
imported the property module and the library and has never called into the library; for every case it forks a child, the
child runs the oracle and reports.  Every case therefore starts from the state "modules imported, nothing called",
whatever the calling process did before: a failing case is self-contained, shrinking is sound, and `./check --replay` (which
goes through the same server) reproduces it.  Cost: one server start per worker process (about 0.3 s) and one fork of a
small process per evaluation (about 1 ms) - meant for history / batch sub-checks with thousands of cases, not for the
value sweeps.

`oracle` must be a module-level function (the server finds it by module and name).  `warm` (optional, module-level callable)
is run once in the server after the import: it imports the library modules the oracle needs / takes snapshots of pristine
tables, so that the children inherit them; it must not call into the library otherwise.
VP_NO_ISOLATION=1 judges in the calling process (debugging).
"""
from __future__ import annotations

import importlib
import json
import os
import subprocess
import sys
import traceback

from .core import VERIF_DIR, Fail, exc_klass, jsonable, lib_raised


class IsolationError(RuntimeError):
    """the judge server could not deliver a verdict (harness problem)"""


def _verdict(oracle, case):
    try:
        oracle(case)
        return None
    except Fail as f:
        return {"k": "fail", "clause": f.clause, "observed": jsonable(f.observed), "expected": jsonable(f.expected), "klass": f.klass}
    except Exception as e:
        if lib_raised(e):
            # same conversion as vp.core applies to an exception that escapes an oracle from library code
            return {"k": "fail", "clause": "no_unexpected_exception", "observed": f"{type(e).__name__}: {e}", "expected": "no exception", "klass": exc_klass(e)}
        return {"k": "error", "text": traceback.format_exc()}
    except BaseException:
        return {"k": "error", "text": traceback.format_exc()}


# ------------------------------------------------------------------------------------------------ framing


def _read_exact(fd: int, n: int) -> bytes:
    chunks = []
    while n > 0:
        b = os.read(fd, min(n, 1 << 16))
        if not b:
            return b""
        chunks.append(b)
        n -= len(b)
    return b"".join(chunks)


def _write_all(fd: int, data: bytes):
    view = memoryview(data)
    while view:
        n = os.write(fd, view)
        view = view[n:]


def _send(fd: int, obj):
    payload = json.dumps(obj).encode()
    _write_all(fd, b"%010d" % len(payload) + payload)


def _recv(fd: int):
    hdr = _read_exact(fd, 10)
    if not hdr:
        return None, False
    body = _read_exact(fd, int(hdr))
    if len(body) != int(hdr):
        return None, False
    return json.loads(body), True


# ------------------------------------------------------------------------------------------------ client


class _Server:
    def __init__(self, module: str, name: str):
        c2s_r, c2s_w = os.pipe()
        s2c_r, s2c_w = os.pipe()
        env = dict(os.environ)
        env["PYTHONPATH"] = os.pathsep.join(p for p in sys.path if p)
        self.proc = subprocess.Popen(
            [sys.executable, "-m", "vp.isolate", module, name, str(c2s_r), str(s2c_w)],
            pass_fds=(c2s_r, s2c_w), stdin=subprocess.DEVNULL, stdout=subprocess.DEVNULL, cwd=VERIF_DIR, env=env,
        )
        os.close(c2s_r)
        os.close(s2c_w)
        self.w, self.r = c2s_w, s2c_r

    def ask(self, req):
        try:
            _send(self.w, req)
        except OSError as e:
            raise IsolationError(f"judge server is gone ({e}); exit status {self.proc.poll()}")
        res, ok = _recv(self.r)
        if not ok:
            raise IsolationError(f"judge server closed the connection; exit status {self.proc.poll()}")
        return res


_SERVERS = {}


def _server(module: str, name: str) -> _Server:
    key = (os.getpid(), module, name)  # never share a server (its pipes) with a forked copy of this process
    s = _SERVERS.get(key)
    if s is None:
        s = _SERVERS[key] = _Server(module, name)
    return s


def isolated(oracle, warm=None):
    module, name = oracle.__module__, oracle.__name__

    def run(case):
        if os.environ.get("VP_NO_ISOLATION"):
            return oracle(case)
        from . import core

        v = _server(module, name).ask({"case": jsonable(case), "mode": core._LOGGING_MODE[0]})
        if v is None:
            return None
        if v["k"] == "fail":
            raise Fail(v["clause"], v["observed"], v["expected"], v["klass"])
        if v["k"] == "crash":
            raise Fail("interpreter_survives_the_calls", v["text"], "a verdict")
        raise IsolationError("isolated oracle failed in the harness:\n" + v["text"])

    run.__name__ = name.lstrip("_") + "_isolated"
    run.__doc__ = oracle.__doc__
    run._isolated_oracle = name
    run._isolated_warm = warm
    return run


# ------------------------------------------------------------------------------------------------ server


def _serve(module: str, name: str, rfd: int, wfd: int):
    from . import core

    core.silence_library()
    mod = importlib.import_module(module)
    oracle = getattr(mod, name)
    for obj in list(vars(mod).values()):
        if getattr(obj, "_isolated_oracle", None) == name and getattr(obj, "_isolated_warm", None) is not None:
            obj._isolated_warm()
    while True:
        req, ok = _recv(rfd)
        if not ok:
            return 0  # the client is gone
        pr, pw = os.pipe()
        pid = os.fork()
        if pid == 0:
            status = 1
            try:
                os.close(pr)
                if req.get("mode") and req["mode"] != core._LOGGING_MODE[0]:
                    core.set_logging_mode(req["mode"])
                _write_all(pw, json.dumps(_verdict(oracle, req["case"])).encode())
                status = 0
            finally:
                os._exit(status)
        os.close(pw)
        chunks = []
        while True:
            b = os.read(pr, 1 << 16)
            if not b:
                break
            chunks.append(b)
        os.close(pr)
        _, st = os.waitpid(pid, 0)
        raw = b"".join(chunks)
        if raw and st == 0:
            _write_all(wfd, b"%010d" % len(raw) + raw)
        elif os.WIFSIGNALED(st):
            _send(wfd, {"k": "crash", "text": f"the judging process was killed by signal {os.WTERMSIG(st)}"})
        else:
            _send(wfd, {"k": "error", "text": f"the judging process delivered no verdict (wait status {st})"})


if __name__ == "__main__":
    sys.exit(_serve(sys.argv[1], sys.argv[2], int(sys.argv[3]), int(sys.argv[4])))
