"""
Machinery for C19 (purity of codec calls): differential execution of call histories in forked children.

* A *catalogue entry* is a deterministic function ``fn(a, T)`` of its plain-JSON arguments ``a``; it builds every
  argument object itself (inside the child) through the tracker ``T`` (which keeps a deep copy of every mutable buffer
  handed to the library) and returns the library's result.
* ``run_calls_here(calls)`` executes a list of calls in *this* process and returns one observation per call
  (``{"ok": obs(result)} | {"raised": [type, message]}`` plus ``"mut"``: the argument buffers that differ from their
  copies).  It is only ever invoked in a forked child (``fork_run``) so that the forking process (the *zygote*: library
  imported, nothing executed) stays clean.
* ``ZygotePair`` starts two fresh interpreters whose ``datetime.date`` / ``datetime.datetime`` / ``time.time`` are pinned
  400 days apart *before* the library is imported and whose ``random`` / ``secrets`` / ``uuid`` streams differ; each
  serves ``fork_run`` requests over a line protocol.

Nothing here imports Hypothesis or the library at module import time.
"""
from __future__ import annotations

import array as _array
import copy
import datetime as _dtmod
import enum
import json
import os
import re
import select
import signal
import subprocess
import sys
import time as _time
import traceback
from typing import Any, Callable, Dict, List, Optional

from .core import REPO, VERIF_DIR, HarnessError, lib_raised

_ADDR = re.compile(r" at 0x[0-9a-fA-F]+")
_REAL_DATE, _REAL_TIME = _dtmod.date, _dtmod.time  # captured before any pinning (zygotes patch the module attributes later)
MAX_DEPTH = 7


# ----------------------------------------------------------------------------------------------
# catalogue


class Entry:
    def __init__(self, eid: str, fn: Callable, group: str, args: Dict[str, Any], parse: bool, inplace: Optional[Callable], doc: str, ncanon: int, canon=(), no_scribble: bool = False):
        self.id = eid
        self.fn = fn
        self.group = group
        self.args = args  # name -> Spec
        self.parse = parse
        self.inplace = inplace  # a -> bool: the documented in-place repair applies to this call (buffer changes allowed)
        self.doc = doc
        self.ncanon = ncanon
        self.canon = list(canon)  # directed canonical argument sets (always part of the canonical calls)
        self.no_scribble = no_scribble  # state probe / helper entry: its result is a dump of shared tables, never scribbled


CATALOGUE: Dict[str, Entry] = {}


def entry(eid: str, group: str, args: Optional[Dict[str, Any]] = None, parse: bool = False, inplace: Optional[Callable] = None, doc: str = "", ncanon: int = 3, canon=(), no_scribble: bool = False):
    def deco(fn):
        if eid in CATALOGUE:
            raise HarnessError(f"duplicate catalogue entry {eid}")
        CATALOGUE[eid] = Entry(eid, fn, group, args or {}, parse, inplace, doc or (fn.__doc__ or "").strip(), ncanon, canon, no_scribble)
        return fn

    return deco


# ----------------------------------------------------------------------------------------------
# argument tracker


def _endian(b) -> str:
    e = b.endian
    return e() if callable(e) else e


def _overwrite(old, new) -> bool:
    """Overwrite buffer ``old`` in place with the content of ``new`` (a caller re-using its buffer); False when not possible."""
    if type(old) is not type(new):
        return False
    tn = type(old).__name__
    try:
        if tn == "bitarray":
            if _endian(old) != _endian(new):
                return False
            old[:] = new
        elif isinstance(old, bytearray) or isinstance(old, list):
            old[:] = new
        elif tn == "ndarray":
            if old.shape != new.shape or old.dtype != new.dtype:
                return False
            old[...] = new
        elif isinstance(old, dict):
            old.clear()
            old.update(new)
        else:
            return False
    except (TypeError, ValueError, BufferError):
        return False
    return True


class Tracker:
    """Builds argument buffers from JSON and remembers a deep copy of each.  With ``reuse`` (the buffers of an earlier
    invocation of the same entry) the i-th buffer is not created anew: the earlier object is overwritten in place."""

    def __init__(self, reuse: Optional[List[Any]] = None, pool: Optional[Dict[str, Any]] = None):
        self.items: List[tuple] = []  # (name, object, copy)
        self.objects: List[tuple] = []  # (name, object, attribute-tree snapshot taken before the call)
        self.reuse = reuse
        self.reused = 0
        self.pool = pool  # same_object steps: objects built by earlier calls of the step, by (tag, build key)
        self.pooled = 0
        self.representation = None  # None | "little" | "frozen": the container of bit-string arguments (same bit sequence); "bytearray": of octet strings

    def obj(self, tag: str, key: Any, build: Callable[[], Any], name: str = "", snapshot: bool = True):
        """An OBJECT argument (parsed / constructed through the library): built by ``build()`` - or, inside a same_object step,
        the very object an earlier call of the step built for the same (tag, key).  Its full attribute tree (recursive,
        buffers by content) is snapshotted now and compared after the call (snapshot=False: the object is the *receiver* of
        the methods under test, whose private lazy memo fields are its own business; only the results are compared)."""
        k = tag + "|" + json.dumps(key, sort_keys=True)
        if self.pool is not None and k in self.pool:
            o = self.pool[k]
            self.pooled += 1
        else:
            o = build()
            if self.pool is not None:
                self.pool[k] = o
        if snapshot:
            self.objects.append((name or tag, o, obs(o)))
        return o

    def changed_objects(self) -> List[dict]:
        out = []
        for name, o, before in self.objects:
            after = obs(o)
            if before != after:
                out.append({"object": name, "type": type(o).__name__, "before": before, "after": after})
        return out

    def track(self, obj, name: str = ""):
        i = len(self.items)
        if self.reuse is not None and i < len(self.reuse) and _overwrite(self.reuse[i], obj):
            obj = self.reuse[i]
            self.reused += 1
        self.items.append((name or f"arg{i}", obj, copy.deepcopy(obj)))
        return obj

    def buffers(self) -> List[Any]:
        return [o for _, o, _ in self.items]

    def bits(self, s: str, endian: str = "big", name: str = ""):
        from bitarray import bitarray, frozenbitarray

        if not isinstance(s, str):  # a refused variant of the call: a value of the wrong type (None, a float) is handed over as it is
            return s
        if self.representation == "frozen":
            return self.track(frozenbitarray(s, endian=endian), name)
        return self.track(bitarray(s, endian="little" if self.representation == "little" else endian), name)

    def bytearray(self, h: str, name: str = ""):
        if not isinstance(h, str):
            return h
        return self.track(bytearray(bytes.fromhex(h)), name)

    def np(self, lst, name: str = ""):
        import numpy

        return self.track(numpy.array(lst), name)

    def bytes(self, h: str) -> bytes:
        if not isinstance(h, str):  # a wrong-typed value of a refused variant, handed over as it is
            return h
        if self.representation == "bytearray":  # the same octets in another container (tracked: the call must leave it unchanged)
            return self.track(bytearray(bytes.fromhex(h)))
        return bytes.fromhex(h)

    def changed(self) -> List[dict]:
        out = []
        for name, obj, cp in self.items:
            before, after = obs(cp), obs(obj)
            if before != after:
                out.append({"buffer": name, "before": before, "after": after})
        return out


# ----------------------------------------------------------------------------------------------
# observation


def _san(s: str) -> str:
    return _ADDR.sub(" at 0x?", s)


def _is_lib_obj(o) -> bool:
    m = getattr(type(o), "__module__", "") or ""
    return m.startswith("okdmr.")


def _is_kaitai(o) -> bool:
    m = getattr(type(o), "__module__", "") or ""
    return m.startswith("okdmr.kaitai") or m.startswith("kaitaistruct")


def obs(o: Any, depth: int = 0, path: tuple = (), top: bool = False) -> Any:
    """JSON observation of a value: primitives verbatim, buffers by content, library objects structurally."""
    if o is None or isinstance(o, (bool, int, str)):
        if isinstance(o, enum.Enum):  # IntEnum / StrEnum
            return f"{type(o).__name__}.{o.name}"
        if isinstance(o, str) and " at 0x" in o:  # a repr an entry script returned as a value: addresses are not part of the observation
            return _san(o)
        return o
    if isinstance(o, float):
        return {"float": repr(o)}
    if isinstance(o, bytes):
        return {"bytes": o.hex()}
    if isinstance(o, bytearray):
        return {"bytearray": bytes(o).hex()}
    if isinstance(o, enum.Enum):
        return f"{type(o).__name__}.{o.name}"
    tn = type(o).__name__
    mod = getattr(type(o), "__module__", "")
    if mod == "bitarray" or tn in ("bitarray", "frozenbitarray"):
        return {"bits": o.to01(), "endian": _endian(o)}
    if mod == "numpy" or mod.startswith("numpy."):
        import numpy

        if isinstance(o, numpy.ndarray):
            return {"ndarray": o.tolist(), "dtype": str(o.dtype), "shape": list(o.shape)}
        if isinstance(o, numpy.generic):
            return {"npscalar": obs(o.item()), "dtype": str(o.dtype)}
    if isinstance(o, _array.array):
        return {"array": o.typecode, "values": o.tolist()}
    if isinstance(o, BaseException):
        return {"exception": type(o).__name__, "message": _san(str(o))}
    if isinstance(o, (_REAL_DATE, _REAL_TIME)):  # datetime is a date
        return {"datetime": o.isoformat()}
    if id(o) in path:
        return {"cycle": tn}
    if depth > MAX_DEPTH:
        return {"too_deep": tn}
    p = path + (id(o),)
    if isinstance(o, tuple):
        return {"tuple": [obs(v, depth + 1, p) for v in o]}
    if isinstance(o, list):
        return [obs(v, depth + 1, p) for v in o]
    if isinstance(o, dict):
        return {"dict": [[obs(k, depth + 1, p), obs(v, depth + 1, p)] for k, v in o.items()]}
    if isinstance(o, (set, frozenset)):
        return {"set": sorted((obs(v, depth + 1, p) for v in o), key=lambda x: json.dumps(x, sort_keys=True))}
    if _is_lib_obj(o) or _is_kaitai(o):
        # order of evaluation: the library's own serialisation first, then the attribute tree, `repr` last - a `__repr__` that
        # re-binds or lazily resolves something (e.g. the context of a shared sub-object) must not repair the object before it is
        # serialised and its attributes are recorded
        out: Dict[str, Any] = {"type": f"{mod}.{type(o).__qualname__}"}
        ser = _serialise(o) if top else None
        fields = _fields(o, depth, p)
        if top:
            out["repr"] = _guard(lambda: _san(repr(o)))
        out["fields"] = fields
        if top:
            out["ser"] = ser
        return out
    if callable(o):
        return {"callable": getattr(o, "__qualname__", tn)}
    return {"object": f"{mod}.{tn}"}


def _guard(f: Callable[[], Any]) -> Any:
    try:
        return f()
    except Exception as e:  # serialisers / __repr__ of partly filled PDUs raise: that is part of the observation
        return {"raised": [type(e).__name__, _san(str(e))[:300]]}


def _fields(o, depth: int, path: tuple) -> Any:
    d = getattr(o, "__dict__", None)
    if not isinstance(d, dict):
        return None
    kaitai = _is_kaitai(o)
    out = []
    for k, v in list(d.items()):
        if kaitai and k.startswith("_"):
            continue  # stream, parent/root links and lazily computed instances
        out.append([k, obs(v, depth + 1, path)])
    return out


def _serialise(o) -> Any:
    """Wire form of a result object through the library's own serialiser (recorded, never judged by itself)."""
    tn = type(o).__name__
    out: Dict[str, Any] = {}
    if tn in ("MBXMLDocument", "LRRP", "ARRP") and _is_lib_obj(o):
        from okdmr.dmrlib.motorola.mbxml import MBXML

        out["mbxml"] = _guard(lambda: obs(MBXML.as_bytes(o)))
        out["xml"] = _guard(lambda: o.as_xml())
        return out
    if tn == "MBXMLToken" and _is_lib_obj(o):
        from okdmr.dmrlib.motorola.mbxml import MBXML

        out["part"] = _guard(lambda: obs(MBXML.write_part(o)))
        return out
    if _is_kaitai(o):
        return None
    if hasattr(o, "as_bits") and callable(o.as_bits):
        out["bits"] = _guard(lambda: obs(o.as_bits()))
    if hasattr(o, "as_bytes") and callable(o.as_bytes):
        out["bytes"] = _guard(lambda: obs(o.as_bytes()))
    if hasattr(o, "as_ipsc_bytes"):
        out["ipsc"] = _guard(lambda: obs(o.as_ipsc_bytes()))
    return out or None


# ----------------------------------------------------------------------------------------------
# executing calls (child side)


def _is_buffer(o) -> bool:
    tn = type(o).__name__
    return isinstance(o, (bytearray, _array.array)) or tn in ("bitarray", "ndarray")


def _scribble_buffer(o, k: int):
    """In-place damage of one buffer a caller owns (what a channel simulator / buffer-recycling caller does)."""
    try:
        tn = type(o).__name__
        if tn == "bitarray":
            o.invert()
            if k % 3 == 1 and len(o) > 1:
                del o[-1:]
            elif k % 3 == 2 or not len(o):
                o.extend("101")
        elif isinstance(o, bytearray):
            for i in range(len(o)):
                o[i] ^= 0xFF
            if k % 3 == 2 or not len(o):
                o.append(0x5A)
        elif tn == "ndarray":
            if o.dtype.kind in "iub":
                o[...] = (o + 1) % 2
            else:
                o.fill(0)
        elif isinstance(o, _array.array):
            for i in range(len(o)):
                o[i] = 0 if o[i] else 1
    except (TypeError, ValueError, BufferError):
        pass  # immutable (frozenbitarray, read-only array): nothing a caller could damage


def _scribble_container(o):
    try:
        if isinstance(o, list):
            o.append("scribble")
        elif isinstance(o, dict):
            o["scribble"] = "scribble"
        elif isinstance(o, set):
            o.add("scribble")
    except (TypeError, ValueError):
        pass


_SCALARS = (type(None), bool, int, float, str, bytes, enum.Enum)


def _flat(o) -> bool:
    """list / tuple made of scalars and buffers only"""
    return isinstance(o, (list, tuple)) and all(isinstance(x, _SCALARS) or _is_buffer(x) for x in o)


def scribble(result: Any, arguments: List[Any], result_in_scope: bool = True) -> int:
    """In-place damage of what is unambiguously the caller's own (returns the number of objects touched):

    (1) every argument object the caller built and passed (tracked buffers: bitarray / bytearray / numpy array; tracked
        dict / list arguments get a key / an element added);
    (2) the RESULT ITSELF when the entry point returns a mutable buffer as its value: a bitarray / bytearray / numpy array /
        array; or a list / tuple whose elements are scalars or such buffers (then every buffer element, and the list itself
        by an appended element); inside a returned tuple / list also the elements that are themselves such flat lists /
        tuples (one level: `(status, word)`, `(data_bits, all_bits, cs_bits)`, `([register values], digest)`).

    Never touched: attributes of returned objects, dict / set results, containers inside returned objects, elements of a
    returned container that are objects, anything nested deeper, and results of entries marked no_scribble."""
    seen: set = set()
    count = [0]

    def buf(o):
        if id(o) not in seen:
            seen.add(id(o))
            _scribble_buffer(o, count[0])
            count[0] += 1

    def flat(o):
        for x in o:
            if _is_buffer(x):
                buf(x)
        if isinstance(o, list) and id(o) not in seen:
            seen.add(id(o))
            _scribble_container(o)
            count[0] += 1

    for a in arguments:
        if _is_buffer(a):
            buf(a)
        elif isinstance(a, (list, dict)) and id(a) not in seen:
            seen.add(id(a))
            _scribble_container(a)
            count[0] += 1
    if result_in_scope:
        if _is_buffer(result):
            buf(result)
        elif isinstance(result, (list, tuple)):
            for x in list(result):
                if _is_buffer(x):
                    buf(x)
                elif _flat(x):
                    flat(x)
            if _flat(result):
                flat(result)
    return count[0]


def _run_one(e: Entry, a: dict, reuse: Optional[List[Any]] = None, pool: Optional[Dict[str, Any]] = None, representation: Optional[str] = None):
    T = Tracker(reuse, pool)
    T.representation = representation
    rec: Dict[str, Any] = {}
    res = None
    try:
        res = e.fn(a, T)
    except Exception as ex:
        if not lib_raised(ex):
            raise HarnessError(f"entry {e.id} failed outside the library with args {a!r}:\n{traceback.format_exc()}")
        rec["raised"] = [type(ex).__name__, _san(str(ex))[:400]]
    mut = T.changed()
    if "raised" not in rec:
        rec["ok"] = obs(res, top=True)
    if mut and not (e.inplace and e.inplace(a)):
        rec["mut"] = mut
    objmut = T.changed_objects()
    if objmut:
        rec["objmut"] = objmut
    return rec, res, T


def run_calls_here(calls: List[dict]) -> List[dict]:
    """Steps: a plain call {e, a}; {op: "scribble_repeat", e, a}: call, damage in place everything the caller got hold of
    (result and arguments), call again with arguments rebuilt from JSON -> {"multi": [first, second]}; {op: "reuse", e, a, b}:
    call with a, overwrite the same argument buffers in place with b's values and call again, then call with a fresh copy of a
    -> {"multi": [a, b_in_reused_buffers, a_again]}; {op: "same_object", e, a, seq: [call, ...]}: the calls of seq run with one
    shared pool of object arguments (an object argument with the same tag and build key is built once and passed again);
    {op: "serialise_later", e, a, seq}: the calls of seq run and keep their results, then every result is observed (serialised
    through the library, repr, attribute tree) once more, last first -> {"multi": [records..., later records (reversed)...]}.
    {op: "keep_alive", e, a, seq}: as serialise_later for a large batch (the judge compares the later observation of every
    result with its first observation in the same child; only a sample is compared with a fresh state).
    A plain call may carry r: "little" | "frozen": its bit-string arguments are built as little-endian / frozen bitarrays;
    r: "bytearray": its octet-string arguments are handed over as bytearray instead of bytes."""
    out = []
    for c in calls:
        e = CATALOGUE.get(c["e"])
        if e is None:
            raise HarnessError(f"unknown catalogue entry {c['e']}")
        op = c.get("op")
        if not op:
            out.append(_run_one(e, c["a"], representation=c.get("r"))[0])
        elif op == "serialise_later":
            firsts, results = [], []
            for q in c["seq"]:
                eq = CATALOGUE.get(q["e"])
                if eq is None:
                    raise HarnessError(f"unknown catalogue entry {q['e']}")
                r, res, _ = _run_one(eq, q["a"], representation=q.get("r"))
                firsts.append(r)
                results.append(res)
            later = []
            for r, res in reversed(list(zip(firsts, results))):  # observe (serialise, repr, fields) every result again, last first
                later.append({k: v for k, v in r.items() if k != "ok"} if "raised" in r else {**{k: v for k, v in r.items() if k != "ok"}, "ok": obs(res, top=True)})
            out.append({"multi": firsts + later, "touched": len(results)})
        elif op == "keep_alive":
            # a batch of calls whose results all stay alive; afterwards every result is observed once more (last first)
            firsts, results = [], []
            for q in c["seq"]:
                eq = CATALOGUE.get(q["e"])
                if eq is None:
                    raise HarnessError(f"unknown catalogue entry {q['e']}")
                r, res, _ = _run_one(eq, q["a"], representation=q.get("r"))
                firsts.append(r)
                results.append(res)
            later = []
            for r, res in reversed(list(zip(firsts, results))):
                later.append({k: v for k, v in r.items() if k != "ok"} if "raised" in r else {**{k: v for k, v in r.items() if k != "ok"}, "ok": obs(res, top=True)})
            out.append({"multi": firsts + later, "touched": len(results)})
        elif op == "scribble_repeat":
            r1, res, T = _run_one(e, c["a"])
            n = scribble(res, T.buffers(), result_in_scope=not e.no_scribble)
            r2, _, _ = _run_one(e, c["a"])
            out.append({"multi": [r1, r2], "touched": n})
        elif op == "reuse":
            r1, res1, T1 = _run_one(e, c["a"])
            r2, res2, T2 = _run_one(e, c["b"], reuse=T1.buffers())
            r3, _, _ = _run_one(e, c["a"])
            out.append({"multi": [r1, r2, r3], "touched": T2.reused})
        elif op == "same_object":
            pool: Dict[str, Any] = {}
            recs, pooled = [], 0
            for q in c["seq"]:
                eq = CATALOGUE.get(q["e"])
                if eq is None:
                    raise HarnessError(f"unknown catalogue entry {q['e']}")
                r, _, Tq = _run_one(eq, q["a"], pool=pool)
                pooled += Tq.pooled
                recs.append(r)
            out.append({"multi": recs, "touched": pooled})
        else:
            raise HarnessError(f"unknown step op {op!r}")
    return out


def _poison_heap():
    """Fill the small-object heap of this (child) process with 0xFF garbage and release it again: a result that depends on
    uninitialised memory (e.g. bitarray pad bits moved into the data) then differs from the run with a naturally used heap."""
    junk = [bytearray(b"\xff" * n) for n in range(1, 600, 3) for _ in range(6)]  # bytes objects and raw byte buffers
    del junk


def fork_run(calls: List[dict], timeout: float = 60.0, poison: bool = False) -> List[dict]:
    """Run ``calls`` in a forked child of this (clean) process and return its observations."""
    r, w = os.pipe()
    sys.stdout.flush()
    pid = os.fork()
    if pid == 0:  # child ------------------------------------------------------------------
        code = 0
        try:
            os.close(r)
            signal.signal(signal.SIGINT, signal.SIG_DFL)
            if not os.environ.get("VP_CHILD_STDERR"):  # the library prints tracebacks of handled errors (try_parse_packet)
                dn = os.open(os.devnull, os.O_WRONLY)
                os.dup2(dn, 2)
            try:
                if poison:
                    _poison_heap()
                payload = {"obs": run_calls_here(calls)}
            except HarnessError as he:
                payload = {"harness_error": str(he)}
            except BaseException:
                payload = {"harness_error": traceback.format_exc()}
            data = json.dumps(payload).encode()
            off = 0
            while off < len(data):
                off += os.write(w, data[off : off + 65536])
            os.close(w)
        except BaseException:
            code = 3
        finally:
            os._exit(code)
    # parent -------------------------------------------------------------------------------
    os.close(w)
    chunks = []
    deadline = _time.monotonic() + timeout
    try:
        while True:
            left = deadline - _time.monotonic()
            if left <= 0:
                try:
                    os.kill(pid, signal.SIGKILL)
                except ProcessLookupError:
                    pass
                os.waitpid(pid, 0)
                pid = 0
                raise HarnessError(f"child timed out after {timeout}s on calls {json.dumps(calls)[:600]}")
            rl, _, _ = select.select([r], [], [], min(left, 5.0))
            if not rl:
                continue
            b = os.read(r, 1 << 16)
            if not b:
                break
            chunks.append(b)
    finally:
        os.close(r)
        if pid:
            _, status = os.waitpid(pid, 0)
        else:
            status = 0
    if status != 0:
        raise HarnessError(f"child crashed (wait status {status}) on calls {json.dumps(calls)[:600]}")
    try:
        payload = json.loads(b"".join(chunks).decode())
    except ValueError:
        raise HarnessError(f"child returned no parsable result on calls {json.dumps(calls)[:600]}")
    if "harness_error" in payload:
        raise HarnessError("in child: " + payload["harness_error"])
    return payload["obs"]


# ----------------------------------------------------------------------------------------------
# clock / randomness zygotes (fresh interpreters)

# pinned clocks (12:00 UTC): the project's present 2026-09-26, and two far apart: 1971-01-02 and 2099-12-30
PIN_EPOCHS = (1_790_424_000, 31_665_600, 4_102_315_200)
PIN_DATES = ("2026-09-26", "1971-01-02", "2099-12-30")


ZYGOTES = ((0, {}), (1, {}), (2, {}), (0, {"PYTHONMALLOC": "debug"}))  # (clock / random-stream index, extra environment)


def _patch_clock_and_random(k: int):
    """Called in a fresh interpreter *before* the library is imported."""
    import datetime
    import random
    import secrets
    import time
    import uuid

    epoch = PIN_EPOCHS[k]
    real_dt, real_date = datetime.datetime, datetime.date

    class PinnedDate(real_date):
        @classmethod
        def today(cls):
            t = real_dt.fromtimestamp(epoch, datetime.timezone.utc)
            return cls(t.year, t.month, t.day)

    class PinnedDateTime(real_dt):
        @classmethod
        def now(cls, tz=None):
            t = real_dt.fromtimestamp(epoch, tz or datetime.timezone.utc)
            return cls(t.year, t.month, t.day, t.hour, t.minute, t.second, t.microsecond, tz)

        @classmethod
        def utcnow(cls):
            return cls.now()

        @classmethod
        def today(cls):
            return cls.now()

    PinnedDate.__name__ = PinnedDate.__qualname__ = "date"
    PinnedDateTime.__name__ = PinnedDateTime.__qualname__ = "datetime"
    datetime.date = PinnedDate
    datetime.datetime = PinnedDateTime
    time.time = lambda: float(epoch)
    time.time_ns = lambda: epoch * 10**9
    random.seed(1000 + k)
    rnd = random.Random(2000 + k)
    secrets.token_bytes = lambda n=32: bytes(rnd.getrandbits(8) for _ in range(n))
    secrets.token_hex = lambda n=32: secrets.token_bytes(n).hex()
    secrets.randbits = lambda n: rnd.getrandbits(n)
    os.urandom = lambda n: bytes(rnd.getrandbits(8) for _ in range(n))
    uuid.uuid4 = lambda: uuid.UUID(int=rnd.getrandbits(128), version=4)


def zygote_main(k: int, catalogue_module: str):
    """Entry point of a clock/randomness zygote: patch, import library + catalogue, then serve fork_run requests."""
    _patch_clock_and_random(k)
    import importlib
    import logging

    proto = os.fdopen(os.dup(1), "w")  # the protocol channel; library prints go to /dev/null
    devnull = os.open(os.devnull, os.O_WRONLY)
    os.dup2(devnull, 1)
    sys.stdout = open(os.devnull, "w")
    logging.disable(logging.CRITICAL)
    m = importlib.import_module(catalogue_module)
    m.import_library()
    proto.write(json.dumps({"ready": k}) + "\n")
    proto.flush()
    for line in sys.stdin:
        line = line.strip()
        if not line:
            continue
        req = json.loads(line)
        try:
            resp = {"obs": fork_run(req["calls"], timeout=req.get("timeout", 60.0))}
        except HarnessError as he:
            resp = {"harness_error": str(he)}
        proto.write(json.dumps(resp) + "\n")
        proto.flush()


class ZygotePair:
    """Fresh interpreters (see ZYGOTES): three with pinned clocks far apart (present, 1971, 2099) and different random
    streams, one more with the first clock and a debug allocator."""

    def __init__(self, catalogue_module: str):
        self.procs = []
        for k, extra in ZYGOTES:
            env = dict(os.environ)
            env.update(extra)
            p = subprocess.Popen(
                [sys.executable, "-c", f"import vp.purity as p; p.zygote_main({k}, {catalogue_module!r})"],
                stdin=subprocess.PIPE, stdout=subprocess.PIPE, stderr=subprocess.PIPE, cwd=VERIF_DIR, env=env, text=True, bufsize=1,
            )
            self.procs.append(p)
        for p, (k, _) in zip(self.procs, ZYGOTES):
            line = self._readline(p, 120.0)
            if not line or json.loads(line).get("ready") != k:
                err = ""
                try:
                    p.kill()
                    err = p.stderr.read()[-2000:]
                except Exception:
                    pass
                raise HarnessError(f"clock zygote {k} did not start: {line!r} {err}")

    @staticmethod
    def _readline(p, timeout: float) -> str:
        rl, _, _ = select.select([p.stdout], [], [], timeout)
        if not rl:
            raise HarnessError("clock zygote did not answer in time")
        return p.stdout.readline()

    def run(self, calls: List[dict], timeout: float = 60.0) -> List[List[dict]]:
        req = json.dumps({"calls": calls, "timeout": timeout}) + "\n"
        for p in self.procs:
            p.stdin.write(req)
            p.stdin.flush()
        res = []
        for k, p in enumerate(self.procs):
            line = self._readline(p, timeout + 30.0)
            if not line:
                raise HarnessError(f"clock zygote {k} died: {p.stderr.read()[-2000:]}")
            resp = json.loads(line)
            if "harness_error" in resp:
                raise HarnessError(f"clock zygote {k}: " + resp["harness_error"])
            res.append(resp["obs"])
        return res

    def forget(self):
        """Drop the handles of a pair that belongs to the parent process (after fork): close our copies of the pipes only."""
        for p in self.procs:
            for fh in (p.stdin, p.stdout, p.stderr):
                try:
                    fh.close()
                except Exception:
                    pass
            p.returncode = 0  # not our child to reap: keeps Popen.__del__ quiet
        self.procs = []

    def close(self):
        for p in self.procs:
            try:
                p.stdin.close()
            except Exception:
                pass
        for p in self.procs:
            try:
                p.wait(timeout=5)
            except Exception:
                p.kill()
        self.procs = []


# ----------------------------------------------------------------------------------------------
# argument specifications: one description drives the Hypothesis strategy and the canonical variants


class Spec:
    def strat(self):
        raise NotImplementedError

    def modes(self) -> List["Spec"]:
        """The spec split by its mode switches (opcodes, variants, lengths): each returned spec generates one shape only."""
        return [self]

    def rejects(self, rng) -> List[Any]:
        """Candidate values just outside what the spec generates (integers below / above the range, 2**width; buffers one
        unit too short / too long / empty).  Whether the library rejects them is observed, not assumed."""
        return []

    def unit(self) -> str:
        """one unit of a string-valued spec: a bit or an octet"""
        return "00"

    def unusual(self, rng) -> List[Any]:
        """values with one enum-coded switch set to a code the spec does not list (accepted-but-unlisted or rejected: observed)"""
        return []

    def canon(self, rng, k: int):
        """k-th canonical value (k = 0, 1: the regular shape, two different values; k >= 2: an alternative shape)."""
        raise NotImplementedError


def _fmt_bits(v: int, n: int) -> str:
    return format(v, f"0{n}b") if n else ""


class Bits(Spec):
    """'0101…' string; length n, sometimes one of ``alts``."""

    def __init__(self, n: int, alts=()):
        self.n, self.alts = n, tuple(alts)

    def strat(self):
        from hypothesis import strategies as st

        lens = [self.n] * (6 if self.alts else 1) + list(self.alts)
        return st.sampled_from(lens).flatmap(lambda L: st.integers(0, (1 << L) - 1).map(lambda v: _fmt_bits(v, L)))

    def canon(self, rng, k):
        L = self.n if (k < 2 or not self.alts) else self.alts[(k - 2) % len(self.alts)]
        return _fmt_bits(rng.getrandbits(L) if L else 0, L)

    def modes(self):
        return [Bits(self.n)] + [Bits(a) for a in self.alts]

    def rejects(self, rng):
        return [_fmt_bits(rng.getrandbits(L) if L else 0, L) for L in sorted({self.n - 1, self.n + 1, 0} - {self.n, -1})]

    def unit(self):
        return "0"


class Hex(Spec):
    """hex string of n bytes, sometimes one of the ``alts`` lengths."""

    def __init__(self, n: int, alts=()):
        self.n, self.alts = n, tuple(alts)

    def strat(self):
        from hypothesis import strategies as st

        lens = [self.n] * (6 if self.alts else 1) + list(self.alts)
        return st.sampled_from(lens).flatmap(lambda L: st.binary(min_size=L, max_size=L).map(bytes.hex))

    def canon(self, rng, k):
        L = self.n if (k < 2 or not self.alts) else self.alts[(k - 2) % len(self.alts)]
        return bytes(rng.getrandbits(8) for _ in range(L)).hex()

    def modes(self):
        return [Hex(self.n)] + [Hex(a) for a in self.alts]

    def rejects(self, rng):
        return [bytes(rng.getrandbits(8) for _ in range(L)).hex() for L in sorted({self.n - 1, self.n + 1, 0} - {self.n, -1})]


class HexVar(Spec):
    def __init__(self, lo: int, hi: int):
        self.lo, self.hi = lo, hi

    def strat(self):
        from hypothesis import strategies as st

        return st.binary(min_size=self.lo, max_size=self.hi).map(bytes.hex)

    def canon(self, rng, k):
        # k = 0, 1: same (even) length, k = 2: another (odd) length
        mid = (self.lo + self.hi) // 2
        L = (mid - mid % 2) if k < 2 else min(self.hi, (mid - mid % 2) + 1)
        L = max(self.lo, L)
        return bytes(rng.getrandbits(8) for _ in range(L)).hex()

    def rejects(self, rng):
        return [bytes(rng.getrandbits(8) for _ in range(L)).hex() for L in sorted({self.lo - 1, self.hi + 1, 0} - set(range(self.lo, self.hi + 1)) - {-1})]


COMMON_BIT_LENGTHS = (0, 1, 7, 8, 9, 16, 24, 32, 36, 40, 48, 64, 72, 77, 80, 88, 96, 128, 144, 192, 196)


class BitsVar(Spec):
    """bit string of any length in [lo, hi], half of the time one of the lengths the codecs use."""

    def __init__(self, lo: int, hi: int):
        self.lo, self.hi = lo, hi

    def strat(self):
        from hypothesis import strategies as st

        common = [L for L in COMMON_BIT_LENGTHS if self.lo <= L <= self.hi] or [self.lo]
        return st.one_of(st.integers(self.lo, self.hi), st.sampled_from(common)).flatmap(lambda L: st.integers(0, (1 << L) - 1).map(lambda v: _fmt_bits(v, L)))

    def canon(self, rng, k):
        mid = (self.lo + self.hi) // 2
        mid -= mid % 8
        L = max(self.lo, mid) if k < 2 else min(self.hi, max(self.lo, mid) + 3)
        return _fmt_bits(rng.getrandbits(L) if L else 0, L)

    def rejects(self, rng):
        return [_fmt_bits(rng.getrandbits(L) if L else 0, L) for L in sorted({self.lo - 1, self.hi + 1, 0} - set(range(self.lo, self.hi + 1)) - {-1})]

    def unit(self):
        return "0"

    def modes(self):
        # the free length first, then one mode per length the codecs use (a defect tied to one particular length is a mode)
        return [self] + [Bits(L) for L in (8, 16, 32, 64, 72, 80, 96, 128, 144, 196) if self.lo <= L <= self.hi]


def _mutate_hex(h: str, kind: str, pos: int, val: int) -> str:
    b = bytearray(bytes.fromhex(h))
    if kind == "flip" and b:
        b[pos % len(b)] ^= (val or 1) & 0xFF
    elif kind == "trunc" and b:
        b = b[: pos % len(b)]
    elif kind == "ext":
        b += bytes([val & 0xFF]) * (1 + pos % 3)
    return bytes(b).hex()


def _mutate_bits(s: str, kind: str, pos: int, val: int) -> str:
    if kind == "flip" and s:
        p = pos % len(s)
        return s[:p] + ("1" if s[p] == "0" else "0") + s[p + 1 :]
    if kind == "trunc" and s:
        return s[: pos % len(s)]
    if kind == "ext":
        return s + ("1" if val & 1 else "0") * (1 + pos % 3)
    return s


class Vec(Spec):
    """One of the captured vectors (hex, or bit strings with bits=True), optionally mutated (flip / truncate / extend)."""

    def __init__(self, vectors, bits: bool = False, mutate: bool = True):
        self.vectors = [v.lower() if not bits else v for v in vectors]
        self.is_bits, self.mutate = bits, mutate

    def _mut(self):
        return _mutate_bits if self.is_bits else _mutate_hex

    def strat(self):
        from hypothesis import strategies as st

        base = st.sampled_from(self.vectors)
        if not self.mutate:
            return base
        m = st.one_of(
            st.none(), st.none(),
            st.tuples(st.sampled_from(["flip", "flip", "flip", "trunc", "ext"]), st.integers(0, 4095), st.integers(0, 255)),
            st.lists(st.tuples(st.just("flip"), st.integers(0, 4095), st.integers(0, 255)), min_size=2, max_size=4),
        )

        def apply(t):
            v, mu = t
            if mu is None:
                return v
            for kind, pos, val in ([mu] if isinstance(mu, tuple) else mu):
                v = self._mut()(v, kind, pos, val)
            return v

        return st.tuples(base, m).map(apply)

    def canon(self, rng, k):
        v = self.vectors[k % len(self.vectors)]
        if k >= 2 and self.mutate and k >= len(self.vectors):
            v = self._mut()(v, "flip", rng.randrange(4096), rng.randrange(1, 256))
        return v

    def modes(self):
        # one mode per captured vector; its second variant is the same vector with one flipped bit / byte in the second half
        out = []
        for v in self.vectors:
            n = len(v)
            alt = self._mut()(v, "flip", n // 2 + (n // 2) // 3 if self.is_bits else (n // 2) // 2 + (n // 2) // 3, 0x01) if n else v
            out.append(Seq([v, alt]))
        return out

    def rejects(self, rng):
        v, u = self.vectors[0], len(self.unit())
        return [v[:-u], v + self.unit(), ""]

    def unit(self):
        return "0" if self.is_bits else "00"


class Int(Spec):
    def __init__(self, lo: int, hi: int):
        self.lo, self.hi = lo, hi

    def strat(self):
        from hypothesis import strategies as st

        return st.integers(self.lo, self.hi)

    def canon(self, rng, k):
        return rng.randint(self.lo, self.hi)

    def rejects(self, rng):
        cand = [self.lo - 1, -1, self.hi + 1, 1 << max(self.hi.bit_length(), 1)]
        if self.hi >= 0xFFFF:  # a wide field (ids, checksums): also the classic word sizes; small ranges are counts / exponents
            cand += [1 << 32, 1 << 64]
        out = []
        for v in cand:
            if not (self.lo <= v <= self.hi) and v not in out:
                out.append(v)
        return out


class Choice(Spec):
    def __init__(self, values):
        self.values = list(values)

    def strat(self):
        from hypothesis import strategies as st

        return st.sampled_from(self.values)

    def canon(self, rng, k):
        # variants 0 and 1 share every mode switch and differ in their data only; variant 2 takes the next mode
        return self.values[0] if k < 2 else self.values[1 % len(self.values)] if k == 2 else rng.choice(self.values)

    def unusual(self, rng):
        return self.unlisted()


    def modes(self):
        return [Const(v) for v in self.values]

    def unlisted(self, limit: int = 6) -> List[Any]:
        """codes of the same width that the choice does not list (enum-coded fields as '01' strings of <= 8 bits or as two hex
        digits): lowest, highest and some in between"""
        vs = [v for v in self.values if isinstance(v, str)]
        if not vs or len(vs) != len(self.values) or len({len(v) for v in vs}) != 1:
            return []
        w = len(vs[0])
        if set("".join(vs)) <= {"0", "1"} and 2 <= w <= 8:
            rest = [format(i, f"0{w}b") for i in range(1 << w) if format(i, f"0{w}b") not in vs]
        elif w == 2 and all(c in "0123456789abcdefABCDEF" for c in "".join(vs)):
            low = {v.lower() for v in vs}
            rest = ["%02x" % i for i in range(256) if "%02x" % i not in low]
        else:
            return []
        if len(rest) <= limit:
            return rest
        step = (len(rest) - 1) / (limit - 1)
        return [rest[round(i * step)] for i in range(limit)]


class Flag(Choice):
    def __init__(self):
        super().__init__([False, True])

    def unlisted(self, limit: int = 6):
        return []


class Const(Spec):
    def __init__(self, v):
        self.v = v

    def strat(self):
        from hypothesis import strategies as st

        return st.just(self.v)

    def canon(self, rng, k):
        return self.v


class Seq(Spec):
    """fixed sequence of canonical values (k-th variant = k-th value, cyclically); generated like a Choice"""

    def __init__(self, values):
        self.values = list(values)

    def strat(self):
        from hypothesis import strategies as st

        return st.sampled_from(self.values)

    def canon(self, rng, k):
        return self.values[k % len(self.values)]


class Map(Spec):
    """a spec post-processed by a pure function (frame builders: length and checksum fields)"""

    def __init__(self, spec: Spec, fn: Callable[[Any], Any]):
        self.spec, self.fn = spec, fn

    def strat(self):
        return self.spec.strat().map(self.fn)

    def canon(self, rng, k):
        return self.fn(self.spec.canon(rng, k))

    def modes(self):
        return [Map(m, self.fn) for m in self.spec.modes()]

    def rejects(self, rng):
        out = []
        for b in self.spec.rejects(rng):
            try:
                out.append(self.fn(b))
            except Exception:
                pass  # the pure frame builder cannot express the value
        return out

    def unit(self):
        return self.spec.unit()

    def unusual(self, rng):
        out = []
        for b in self.spec.unusual(rng):
            try:
                out.append(self.fn(b))
            except Exception:
                pass
        return out


def _each_choice(named: Dict[Any, Spec]) -> List[Dict[Any, Spec]]:
    """each-choice combination of the modes of several specs: the all-first combination, then every other mode of every
    spec with the first mode of the others (linear, not the product)."""
    ms = {n: s.modes() for n, s in named.items()}
    base = {n: m[0] for n, m in ms.items()}
    out = [base]
    for n, m in ms.items():
        for alt in m[1:]:
            d = dict(base)
            d[n] = alt
            out.append(d)
    return out


class OneOf(Spec):
    def __init__(self, *specs):
        self.specs = specs

    def modes(self):
        return [m for s in self.specs for m in s.modes()]

    def strat(self):
        from hypothesis import strategies as st

        return st.one_of(*[s.strat() for s in self.specs])

    def canon(self, rng, k):
        # k = 0, 1 from the first alternative, later variants walk through the others
        s = self.specs[0] if k < 2 else self.specs[(k - 1) % len(self.specs)]
        return s.canon(rng, k)

    def rejects(self, rng):
        out = []
        for sp in self.specs:
            for v in sp.rejects(rng):
                if v not in out:
                    out.append(v)
        return out

    def unit(self):
        return self.specs[0].unit()

    def unusual(self, rng):
        out = []
        for sp in self.specs:
            for v in sp.unusual(rng):
                if v not in out:
                    out.append(v)
        return out


class ListOf(Spec):
    def __init__(self, spec: Spec, lo: int, hi: int):
        self.spec, self.lo, self.hi = spec, lo, hi

    def strat(self):
        from hypothesis import strategies as st

        return st.lists(self.spec.strat(), min_size=self.lo, max_size=self.hi)

    def canon(self, rng, k):
        n = max(self.lo, min(self.hi, (self.lo + self.hi) // 2 + (1 if k >= 2 else 0)))
        return [self.spec.canon(rng, k) for _ in range(n)]

    def rejects(self, rng):
        return [[b] for b in self.spec.rejects(rng)] + ([[]] if self.lo > 0 else [])


class Cat(Spec):
    """Concatenation of string-valued specs (structured bit / hex strings)."""

    def __init__(self, *specs):
        self.specs = specs

    def modes(self):
        return [Cat(*[d[i] for i in range(len(self.specs))]) for d in _each_choice(dict(enumerate(self.specs)))]

    def strat(self):
        from hypothesis import strategies as st

        return st.tuples(*[s.strat() for s in self.specs]).map("".join)

    def canon(self, rng, k):
        return "".join(s.canon(rng, k) for s in self.specs)

    def rejects(self, rng):
        base, u = self.canon(rng, 0), self.unit()
        return [base[: -len(u)], base + u, ""]

    def unit(self):
        for sp in self.specs:
            if not isinstance(sp, (Const, Choice)):
                return sp.unit()
        return "00"

    def unusual(self, rng):
        base = [sp.canon(rng, 0) for sp in self.specs]
        out = []
        for i, sp in enumerate(self.specs):
            for u in sp.unusual(rng):
                v = "".join(base[:i] + [u] + base[i + 1:])
                if v not in out:
                    out.append(v)
        return out


class Rec(Spec):
    def __init__(self, **fields):
        self.fields = fields

    def modes(self):
        return [Rec(**d) for d in _each_choice(self.fields)]

    def strat(self):
        from hypothesis import strategies as st

        return st.fixed_dictionaries({k: v.strat() for k, v in self.fields.items()})

    def canon(self, rng, k):
        return {n: s.canon(rng, k) for n, s in self.fields.items()}

    def rejects(self, rng):
        base = self.canon(rng, 0)
        return [{**base, n: b} for n, sp in self.fields.items() for b in sp.rejects(rng)]

    def unusual(self, rng):
        base = self.canon(rng, 0)
        return [{**base, n: u} for n, sp in self.fields.items() for u in sp.unusual(rng)]


def mode_families(e: Entry, cap: int = 400) -> List[List[dict]]:
    """For every mode of the entry (each-choice over the opcode / variant / length switches of its argument specs) two calls
    of the same shape with different data.  Deterministic, independent of VERIF_SEED."""
    import random

    fams, seen = [], set()
    for fi, spec_dict in enumerate(_each_choice(e.args)):
        fam = []
        for k in (0, 1):
            rng = random.Random(f"C19/family/{e.id}/{fi}/{k}")
            a = {n: s.canon(rng, k) for n, s in spec_dict.items()}
            key = json.dumps(a, sort_keys=True)
            if key not in seen:
                seen.add(key)
                fam.append({"e": e.id, "a": a})
        if fam:
            fams.append(fam)
        if len(fams) >= cap:
            break
    return fams


def _flag_bases(e: Entry, base: dict) -> List[dict]:
    """the base arguments under every setting of the entry's boolean mode flags (debug=..., repair=..., one flag at a time)"""
    out = [base]
    for n, sp in e.args.items():
        vals = getattr(sp, "values", None)
        if isinstance(sp, Choice) and vals and all(isinstance(v, bool) for v in vals):
            for v in sorted(set(vals)):
                if v != base[n]:
                    out.append({**base, n: v})
    return out


def reject_candidates(e: Entry) -> List[dict]:
    """Calls of the entry with exactly one argument replaced by a value just outside its spec, under every setting of the
    entry's boolean mode flags (deterministic)."""
    import random

    rng = random.Random(f"C19/rejects/{e.id}")
    base0 = {n: s.canon(random.Random(f"C19/{e.id}/0"), 0) for n, s in e.args.items()}
    out, seen = [], set()
    for base in _flag_bases(e, base0):
        flags = ",".join(f"{n}={base[n]}" for n in sorted(base) if base[n] != base0[n])
        for n, sp in e.args.items():
            for b in sp.rejects(random.Random(f"C19/rejects/{e.id}/{n}")):
                a = {**base, n: b}
                key = json.dumps(a, sort_keys=True)
                if key not in seen:
                    seen.add(key)
                    out.append({"e": e.id, "a": a, "arg": n + ("|" + flags if flags else "")})
    return out


def wrong_type_candidates(e: Entry) -> List[dict]:
    """Calls of the entry with exactly one argument replaced by a value of the wrong TYPE (a caller's mistake the library refuses -
    possibly after it has begun to work): None or a float where a bit / octet string or an integer is expected, a numeric string
    where an integer is expected.  (No integer where a buffer is expected: `bitarray(7)` is seven uninitialised bits.)
    Deterministic; whether and how the library refuses them is observed, not assumed."""
    import random

    base = {n: s.canon(random.Random(f"C19/{e.id}/0"), 0) for n, s in e.args.items()}
    out = []
    for n, sp in e.args.items():
        v = base[n]
        if isinstance(v, bool) or isinstance(sp, (Choice, Const, Seq)):
            continue
        alts = [None, 1.5] if isinstance(v, str) else [None, "7", 1.5] if isinstance(v, int) else []
        out += [{"e": e.id, "a": {**base, n: w}, "arg": n} for w in alts]
    return out


def unusual_candidates(e: Entry) -> List[dict]:
    """Calls of the entry with one enum-coded switch (opcode, MFID, format, ... given as a Choice of codes) set to a code of
    the same width that the spec does not list (deterministic)."""
    import random

    base = {n: s.canon(random.Random(f"C19/{e.id}/0"), 0) for n, s in e.args.items()}
    out, seen = [], set()
    for n, sp in e.args.items():
        for u in sp.unusual(random.Random(f"C19/unusual/{e.id}/{n}")):
            a = {**base, n: u}
            key = json.dumps(a, sort_keys=True)
            if key not in seen:
                seen.add(key)
                out.append({"e": e.id, "a": a, "arg": n})
    return out


def args_strategy(e: Entry):
    from hypothesis import strategies as st

    return st.fixed_dictionaries({k: v.strat() for k, v in e.args.items()})


def canonical_calls(e: Entry, cap: int = 99) -> List[dict]:
    """Deterministic representative calls of an entry (independent of VERIF_SEED): the directed argument sets of the entry,
    then generated variants (at most ``cap``): variants 0 and 1 have the same shape and different values, variant 2 another
    shape (other length / mutated vector) where the entry has one."""
    import random

    out, seen = [], set()
    for a in e.canon:
        key = json.dumps(a, sort_keys=True)
        if key not in seen:
            seen.add(key)
            out.append({"e": e.id, "a": a})
    for k in range(min(e.ncanon, cap)):
        rng = random.Random(f"C19/{e.id}/{k}")
        a = {n: s.canon(rng, k) for n, s in e.args.items()}
        key = json.dumps(a, sort_keys=True)
        if key in seen:
            continue
        seen.add(key)
        out.append({"e": e.id, "a": a})
    return out
