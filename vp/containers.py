"""Representation variants of one bit sequence (lesson A.1 of tools/ROUND5_LESSONS.md).

A word is a sequence of bits; the library is handed words in several containers (big- and little-endian `bitarray`, which
compare equal when they hold the same bits, `frozenbitarray`, numpy arrays of several dtypes).  A check that only ever
passes big-endian bitarrays cannot see a code path that goes through `tobytes()` / `frombuffer` / `unpackbits`.

Policy (soundness): a container takes part for an entry point only while the library ACCEPTS it there - a call that raises
TypeError / AttributeError / ValueError / NotImplementedError for the container is counted as `container_not_accepted` and
skipped (which containers an entry point accepts is not part of any listed property); once accepted, the result must be
the one the bit sequence demands."""
import numpy
from bitarray import bitarray, frozenbitarray

REJECTIONS = (TypeError, AttributeError, ValueError, NotImplementedError)

BIT_CONTAINERS = {
    "bitarray_big": lambda bits: bitarray(list(bits), endian="big"),
    "bitarray_little": lambda bits: bitarray(list(bits), endian="little"),
    "frozenbitarray": lambda bits: frozenbitarray(list(bits)),
    "frozenbitarray_little": lambda bits: frozenbitarray(bitarray(list(bits), endian="little")),
    "numpy_int": lambda bits: numpy.array(list(bits), dtype=int),
    "numpy_uint8": lambda bits: numpy.array(list(bits), dtype=numpy.uint8),
    "numpy_bool": lambda bits: numpy.array(list(bits), dtype=bool),
}
ALTERNATIVE = [k for k in BIT_CONTAINERS if k != "bitarray_big"]


def make(name, bits):
    return BIT_CONTAINERS[name](bits)


def to_bits(obj):
    """list of ints from whatever the library returned"""
    if isinstance(obj, (bitarray, frozenbitarray)):
        return obj.tolist()
    return [int(bool(x)) for x in numpy.asarray(obj).tolist()]


def try_call(fn, *args):
    """('ok', result) | ('rejected', exception) - rejections are the library declining the container, anything else propagates"""
    try:
        return "ok", fn(*args)
    except REJECTIONS as e:
        return "rejected", e
