"""Field-level generators for the PDUs that C01 wraps into bursts (CSBK, data header, full LC, PI header, rate 1/2, 3/4, 1
data blocks), a builder that turns a plain-JSON field dict into the library object, and a generic field dump.

One declarative table (SPEC) per (kind, variant): ordered list of (field name, type spec).  Two generators are derived
from it: a Hypothesis strategy (random part of C01) and a `random.Random`-driven generator (grid part of C01, where the
(variant, colour code, sync) cross product is enumerated by construction and only the field values are random).

Only field settings inside C01's statement are produced ("supported payload ... in-range field values"): enum fields
from defined members, integers inside the bit width the serialiser writes, byte strings of the length the PDU carries,
check fields left at 0/None (= library computes) or, for full LC whose class never computes its 24-bit check field, either
the library's own RS(12,9) parity under the data-type mask or 24 free bits.  GPS coordinates are multiples of the wire
resolution (360/2^25 and 180/2^24 degrees), the only float values the 25/24-bit fields can carry.

The EXCL(...) spec type routes a field setting around a defect that belongs to another property: the generator draws
the field freely, replaces the value by the safe one and marks the case ("_excluded": [...]) so that the driver can count it
in `excluded`.  It was used for the three PDU-level encode/decode asymmetries of DESIGN.md §5 rows 3-5 (NACK_Rsp
additional_information_field=Ignore, C_ALOHA last_block=False, response header is_response_requested=True; property C03)
until they were repaired in /repo (a566ed4, 2d4d28d, 70fa250); no field is excluded any more.
"""
from __future__ import annotations

import enum
import importlib
from typing import Any, Dict, List, Tuple

from bitarray import bitarray

# ---------------------------------------------------------------------------------------------- enum access

_ENUM_MODULES = {
    "FeatureSetIDs": "okdmr.dmrlib.etsi.layer2.elements.feature_set_ids",
    "CsbkOpcodes": "okdmr.dmrlib.etsi.layer2.elements.csbk_opcodes",
    "FLCOs": "okdmr.dmrlib.etsi.layer2.elements.flcos",
    "DataPacketFormats": "okdmr.dmrlib.etsi.layer2.elements.data_packet_formats",
    "DefinedDataFormats": "okdmr.dmrlib.etsi.layer2.elements.defined_data_formats",
    "FullMessageFlag": "okdmr.dmrlib.etsi.layer2.elements.full_message_flag",
    "ResynchronizeFlag": "okdmr.dmrlib.etsi.layer2.elements.resynchronize_flag",
    "SAPIdentifier": "okdmr.dmrlib.etsi.layer2.elements.sap_identifier",
    "SARQ": "okdmr.dmrlib.etsi.layer2.elements.sarq",
    "SupplementaryFlag": "okdmr.dmrlib.etsi.layer2.elements.supplementary_flag",
    "UDTFormat": "okdmr.dmrlib.etsi.layer2.elements.udt_format",
    "UDTOptionFlag": "okdmr.dmrlib.etsi.layer3.elements.udt_option_flag",
    "AnswerResponse": "okdmr.dmrlib.etsi.layer3.elements.answer_response",
    "AdditionalInformationField": "okdmr.dmrlib.etsi.layer3.elements.additional_information_field",
    "SourceType": "okdmr.dmrlib.etsi.layer3.elements.source_type",
    "ReasonCode": "okdmr.dmrlib.etsi.layer3.elements.reason_code",
    "DynamicIdentifier": "okdmr.dmrlib.etsi.layer3.elements.dynamic_identifier",
    "ChannelTimingOpcode": "okdmr.dmrlib.etsi.layer3.elements.channel_timing_opcode",
    "RandomAccessServiceFunction": "okdmr.dmrlib.etsi.layer3.elements.random_access_service_function",
    "AnnouncementType": "okdmr.dmrlib.etsi.layer3.elements.announcement_type",
    "PositionError": "okdmr.dmrlib.etsi.layer3.elements.position_error",
    "TalkerAliasDataFormat": "okdmr.dmrlib.etsi.layer3.elements.talker_alias_data_format",
}


def enum_cls(name: str):
    return getattr(importlib.import_module(_ENUM_MODULES[name]), name)


def enum_names(name: str) -> List[str]:
    """defined member names, SORTED BY NAME: independent of the order in which a (refactored) library lists them"""
    return sorted(m.name for m in enum_cls(name))


def member(name: str, member_name: str):
    return enum_cls(name)[member_name]


# ---------------------------------------------------------------------------------------------- field specs

U = lambda n: ("u", n)
S = lambda n: ("s", n)
BOOL = ("bool",)
E = lambda name: ("enum", name)
BYTES = lambda n: ("bytes", n)
BITS = lambda n: ("bits", n)
SVC = ("svc",)


def EXCL(free_spec, safe_value, marker):
    return ("excl", free_spec, safe_value, marker)


_CSBK_COMMON = [("last_block", BOOL), ("protect_flag", BOOL), ("fid", E("FeatureSetIDs"))]
_RATE_LEN = {
    "rate12": {"Unconfirmed": 12, "Confirmed": 10, "UnconfirmedLastBlock": 8, "ConfirmedLastBlock": 6},
    "rate34": {"Unconfirmed": 18, "Confirmed": 16, "UnconfirmedLastBlock": 14, "ConfirmedLastBlock": 12},
    "rate1": {"Unconfirmed": 24, "Confirmed": 22, "UnconfirmedLastBlock": 20, "ConfirmedLastBlock": 18},
}

SPEC: Dict[Tuple[str, str], List[Tuple[str, tuple]]] = {
    # ------------------------------------------------------------------ CSBK (ETSI TS 102 361-2 7.1.2, -4 7.1.1)
    ("csbk", "BSOutboundActivation"): _CSBK_COMMON + [("bs_address", U(24)), ("source_address", U(24))],
    ("csbk", "UnitToUnitVoiceServiceRequest"): _CSBK_COMMON + [("service_options", SVC), ("target_address", U(24)), ("source_address", U(24))],
    ("csbk", "UnitToUnitVoiceServiceAnswerResponse"): _CSBK_COMMON
    + [("service_options", SVC), ("answer_response", E("AnswerResponse")), ("target_address", U(24)), ("source_address", U(24))],
    ("csbk", "NegativeAcknowledgementResponse"): _CSBK_COMMON
    + [
        ("additional_information_field", E("AdditionalInformationField")),
        ("source_type", E("SourceType")),
        ("service_type", E("CsbkOpcodes")),
        ("reason_code", E("ReasonCode")),
        ("source_address", U(24)),
        ("target_address", U(24)),
    ],
    ("csbk", "PreambleCSBK"): _CSBK_COMMON
    + [
        ("csbk_content_follows_preambles", BOOL),
        ("target_address_is_individual", BOOL),
        ("blocks_to_follow", U(8)),
        ("target_address", U(24)),
        ("source_address", U(24)),
    ],
    ("csbk", "ChannelTimingCSBK"): _CSBK_COMMON
    + [
        ("sync_age", U(11)),
        ("generation", U(5)),
        ("leader_identifier", U(20)),
        ("new_leader", U(1)),
        ("leader_dynamic_identifier", E("DynamicIdentifier")),
        ("channel_timing_opcode", E("ChannelTimingOpcode")),
        ("source_identifier", U(20)),
        ("source_dynamic_identifier", E("DynamicIdentifier")),
    ],
    ("csbk", "HyteraIPSCSync"): _CSBK_COMMON + [("raw_data", BYTES(8))],
    ("csbk", "AlohaPDUsForRandomAccessProtocol"): [
        ("last_block", BOOL),
        ("protect_flag", BOOL),
        ("fid", E("FeatureSetIDs")),
        ("tsccas_support", BOOL),
        ("site_timeslot_synchronized", BOOL),
        ("document_version_control", U(3)),
        ("tscc_is_offset_timing", BOOL),
        ("ts_active_connection", BOOL),
        ("aloha_mask", U(5)),
        ("service_function", E("RandomAccessServiceFunction")),
        ("nrand_wait", U(4)),
        ("tscc_reg_required", BOOL),
        ("tscc_backoff", U(4)),
        ("system_identity_code", U(16)),
        ("target_address", U(24)),
    ],
    ("csbk", "AnnouncementPDUsWithoutResponse"): _CSBK_COMMON
    + [
        ("announcement_type", E("AnnouncementType")),
        ("broadcast_params", BITS(38)),
        ("tscc_reg_required", BOOL),
        ("tscc_backoff", U(4)),
        ("system_identity_code", U(16)),
    ],
    # ------------------------------------------------------------------ data headers (TS 102 361-1 8.2.1 / 9.2)
    ("header", "DataPacketConfirmed"): [
        ("is_group", BOOL),
        ("is_response_requested", BOOL),
        ("pad_octet_count", U(5)),
        ("sap_identifier", E("SAPIdentifier")),
        ("llid_destination", U(24)),
        ("llid_source", U(24)),
        ("full_message_flag", E("FullMessageFlag")),
        ("blocks_to_follow", U(7)),
        ("resynchronize_flag", E("ResynchronizeFlag")),
        ("send_sequence_number", U(3)),
        ("fragment_sequence_number", U(4)),
    ],
    ("header", "DataPacketUnconfirmed"): [
        ("is_group", BOOL),
        ("is_response_requested", BOOL),
        ("pad_octet_count", U(5)),
        ("sap_identifier", E("SAPIdentifier")),
        ("llid_destination", U(24)),
        ("llid_source", U(24)),
        ("full_message_flag", E("FullMessageFlag")),
        ("blocks_to_follow", U(7)),
        ("fragment_sequence_number", U(4)),
    ],
    ("header", "ResponsePacket"): [
        ("is_response_requested", BOOL),
        ("sap_identifier", E("SAPIdentifier")),
        ("llid_destination", U(24)),
        ("llid_source", U(24)),
        ("full_message_flag", E("FullMessageFlag")),
        ("blocks_to_follow", U(7)),
        ("response_class", U(2)),
        ("response_type", U(3)),
        ("response_status", U(3)),
    ],
    ("header", "ShortDataDefined"): [
        ("is_group", BOOL),
        ("is_response_requested", BOOL),
        ("appended_blocks", U(6)),
        ("sap_identifier", E("SAPIdentifier")),
        ("llid_destination", U(24)),
        ("llid_source", U(24)),
        ("defined_data_format", E("DefinedDataFormats")),
        ("sarq", E("SARQ")),
        ("full_message_flag", E("FullMessageFlag")),
        ("bit_padding", BITS(8)),
    ],
    ("header", "UnifiedDataTransport"): [
        ("is_group", BOOL),
        ("is_response_requested", BOOL),
        ("is_emergency", BOOL),
        ("udt_option_flag", E("UDTOptionFlag")),
        ("sap_identifier", E("SAPIdentifier")),
        ("udt_format", E("UDTFormat")),
        ("llid_destination", U(24)),
        ("llid_source", U(24)),
        ("pad_nibbles_count", U(5)),
        ("appended_blocks", U(2)),
        ("supplementary_flag", E("SupplementaryFlag")),
        ("udt_opcode", E("CsbkOpcodes")),
    ],
    # ------------------------------------------------------------------ PI header: 10 opaque octets + CRC-CCITT
    ("pi", "PIHeader"): [("data", BYTES(10))],
}

_FLC_COMMON = [("protect_flag", BOOL), ("fid", E("FeatureSetIDs")), ("crc_mode", ("choice", ["rs", "free"])), ("crc_free", BITS(24))]
_FLC_VARIANTS = {
    "GroupVoiceChannelUser": [("service_options", SVC), ("group_address", U(24)), ("source_address", U(24))],
    "UnitToUnitVoiceChannelUser": [("service_options", SVC), ("target_address", U(24)), ("source_address", U(24))],
    "GPSInfo": [("position_error", E("PositionError")), ("longitude_n", S(25)), ("latitude_n", S(24))],
    "TalkerAliasHeader": [
        ("talker_alias_data_format", E("TalkerAliasDataFormat")),
        ("talker_alias_data_length", U(5)),
        ("talker_alias_data_msb", BOOL),
        ("talker_alias_data", BYTES(6)),
    ],
    "TalkerAliasBlock1": [("talker_alias_data", BYTES(7))],
    "TalkerAliasBlock2": [("talker_alias_data", BYTES(7))],
    "TalkerAliasBlock3": [("talker_alias_data", BYTES(7))],
}
for _dt in ("VoiceLCHeader", "TerminatorWithLC"):
    for _v, _f in _FLC_VARIANTS.items():
        SPEC[("flc:" + _dt, _v)] = _FLC_COMMON + _f
for _k, _lens in _RATE_LEN.items():
    for _v, _n in _lens.items():
        _f = [("data", BYTES(_n))]
        if _v.startswith("Confirmed"):
            _f.append(("dbsn", U(7)))
        if _v.endswith("LastBlock"):
            _f.append(("crc32", U(32)))
        SPEC[(_k, _v)] = _f

VARIANTS: List[Tuple[str, str]] = list(SPEC.keys())

DATA_TYPE_OF_KIND = {
    "csbk": "CSBK",
    "header": "DataHeader",
    "pi": "PIHeader",
    "flc:VoiceLCHeader": "VoiceLCHeader",
    "flc:TerminatorWithLC": "TerminatorWithLC",
    "rate12": "Rate12Data",
    "rate34": "Rate34Data",
    "rate1": "Rate1Data",
}

# ---------------------------------------------------------------------------------------------- generators


def _svc_fields():
    return [
        ("is_emergency", BOOL),
        ("is_privacy", BOOL),
        ("reserved", BITS(2)),
        ("is_broadcast", BOOL),
        ("is_open_voice_call_mode", BOOL),
        ("priority_level", U(2)),
    ]


def _rng_value(rng, spec, excluded: list):
    t = spec[0]
    if t == "u":
        hi = (1 << spec[1]) - 1
        r = rng.random()
        return 0 if r < 0.08 else hi if r < 0.16 else 1 if r < 0.2 else rng.randint(0, hi)
    if t == "s":
        lo, hi = -(1 << (spec[1] - 1)), (1 << (spec[1] - 1)) - 1
        r = rng.random()
        return lo if r < 0.08 else hi if r < 0.16 else 0 if r < 0.22 else -1 if r < 0.28 else rng.randint(lo, hi)
    if t == "bool":
        return rng.random() < 0.5
    if t == "enum":
        return rng.choice(enum_names(spec[1]))
    if t == "choice":
        return rng.choice(spec[1])
    if t == "bytes":
        r = rng.random()
        if r < 0.05:
            return "00" * spec[1]
        if r < 0.1:
            return "ff" * spec[1]
        return bytes(rng.getrandbits(8) for _ in range(spec[1])).hex()
    if t == "bits":
        return "".join("1" if rng.getrandbits(1) else "0" for _ in range(spec[1]))
    if t == "svc":
        return {n: _rng_value(rng, s, excluded) for n, s in _svc_fields()}
    if t == "excl":
        v = _rng_value(rng, spec[1], excluded)
        if v != spec[2]:
            excluded.append(spec[3])
        return spec[2]
    raise AssertionError(spec)


def rng_fields(rng, kind: str, variant: str) -> dict:
    excluded: list = []
    f = {n: _rng_value(rng, s, excluded) for n, s in SPEC[(kind, variant)]}
    if excluded:
        f["_excluded"] = excluded
    return f


def _st_value(spec):
    from hypothesis import strategies as st

    t = spec[0]
    if t == "u":
        return st.integers(0, (1 << spec[1]) - 1)
    if t == "s":
        return st.integers(-(1 << (spec[1] - 1)), (1 << (spec[1] - 1)) - 1)
    if t == "bool":
        return st.booleans()
    if t == "enum":
        return st.sampled_from(enum_names(spec[1]))
    if t == "choice":
        return st.sampled_from(spec[1])
    if t == "bytes":
        return st.binary(min_size=spec[1], max_size=spec[1]).map(bytes.hex)
    if t == "bits":
        return st.integers(0, (1 << spec[1]) - 1).map(lambda v, n=spec[1]: format(v, "0%db" % n))
    if t == "svc":
        return st.fixed_dictionaries({n: _st_value(s) for n, s in _svc_fields()})
    if t == "excl":
        return _st_value(spec[1]).map(lambda v, safe=spec[2], marker=spec[3]: {"__excl__": marker if v != safe else None, "v": safe})
    raise AssertionError(spec)


def _strip_excl(f: dict) -> dict:
    out, excluded = {}, []
    for k, v in f.items():
        if isinstance(v, dict) and "__excl__" in v:
            if v["__excl__"]:
                excluded.append(v["__excl__"])
            out[k] = v["v"]
        else:
            out[k] = v
    if excluded:
        out["_excluded"] = excluded
    return out


def st_fields(kind: str, variant: str):
    from hypothesis import strategies as st

    return st.fixed_dictionaries({n: _st_value(s) for n, s in SPEC[(kind, variant)]}).map(_strip_excl)


# ---------------------------------------------------------------------------------------------- boundary values


def _dedupe(vals):
    out = []
    for v in vals:
        if v not in out:
            out.append(v)
    return out


def boundary_values(spec) -> list:
    """deterministic extreme values of one field: integers {0, 1, max-1, max, top bit only} (signed: min, min+1, -1, 0, 1,
    max-1, max), both booleans, EVERY enum member, byte strings all-00 / all-FF / 0x80-only / last octet only (FF and 01) /
    AA.. / 55.., bit strings all-zero / all-ones / alternating (both phases) / first bit only / last bit only."""
    t = spec[0]
    if t == "u":
        n = spec[1]
        hi = (1 << n) - 1
        return _dedupe([0, 1, max(0, hi - 1), hi, 1 << (n - 1)])
    if t == "s":
        lo, hi = -(1 << (spec[1] - 1)), (1 << (spec[1] - 1)) - 1
        return _dedupe([lo, lo + 1, -1, 0, 1, hi - 1, hi])
    if t == "bool":
        return [False, True]
    if t == "enum":
        return enum_names(spec[1])
    if t == "choice":
        return list(spec[1])
    if t == "bytes":
        n = spec[1]
        return _dedupe(["00" * n, "ff" * n, "80" + "00" * (n - 1), "00" * (n - 1) + "ff", "00" * (n - 1) + "01", "aa" * n, "55" * n])
    if t == "bits":
        n = spec[1]
        return _dedupe(["0" * n, "1" * n, ("10" * n)[:n], ("01" * n)[:n], "1" + "0" * (n - 1), "0" * (n - 1) + "1"])
    if t == "excl":
        return [spec[2]]
    raise AssertionError(spec)


def _extreme(spec, top: bool):
    """all-fields-at-minimum / all-fields-at-maximum backgrounds"""
    t = spec[0]
    if t == "svc":
        return {n: _extreme(sp, top) for n, sp in _svc_fields()}
    vals = boundary_values(spec)
    if t == "u":
        return (1 << spec[1]) - 1 if top else 0
    if t == "s":
        return vals[-1] if top else vals[0]
    if t in ("bytes", "bits"):
        return vals[1] if top else vals[0]
    return vals[-1] if top else vals[0]


CHECK_MODES = ("zero", "ones", "computed")


def has_settable_check(kind: str, variant: str) -> bool:
    """PDUs whose constructor takes the check field: CSBK (crc), data header (crc), PI header (crc, only judged), confirmed
    rate blocks (crc9).  Full LC is covered through crc_mode / crc_free."""
    return kind in ("csbk", "header", "pi") or (kind in _RATE_LEN and variant.startswith("Confirmed"))


def boundary_cases(kind: str, variant: str, backgrounds: List[dict], fill_octets=()) -> List[Tuple[str, dict]]:
    """(label, fields) list: every field of the variant set to each of its boundary values, one at a time, over each
    background; plus the all-minimum and all-maximum field settings; plus the check-field modes 0 / all-ones / computed."""
    spec = SPEC[(kind, variant)]
    out: List[Tuple[str, dict]] = []
    for top in (False, True):
        out.append(("all_max" if top else "all_min", {n: _extreme(sp, top) for n, sp in spec}))
    for bi, bg in enumerate(backgrounds):
        for name, sp in spec:
            if sp[0] == "svc":
                for sn, ssp in _svc_fields():
                    for v in boundary_values(ssp):
                        f = dict(bg)
                        f[name] = dict(bg[name])
                        f[name][sn] = v
                        out.append((f"svc.{ssp[0]}", f))
                continue
            for v in boundary_values(sp):
                f = dict(bg)
                f[name] = v
                if name == "crc_free":
                    f["crc_mode"] = "free"
                out.append((sp[0], f))
        if has_settable_check(kind, variant):
            for mode in CHECK_MODES:
                f = dict(bg)
                f["_check"] = mode
                out.append(("check_" + mode, f))
    # constant fill of every byte-string field with each of the given octet values (first background): drives sums / folds
    # over the payload (CRC registers, checksums) through every constant input
    for name, sp in spec:
        if sp[0] == "bytes" and backgrounds:
            for v in fill_octets:
                f = dict(backgrounds[0])
                f[name] = ("%02x" % v) * sp[1]
                out.append(("constant_fill", f))
    for _, f in out:
        f.pop("_excluded", None)
    return out


# ---------------------------------------------------------------------------------------------- builders


def _bits(s: str) -> bitarray:
    return bitarray(s, endian="big")


def _svc(d: dict):
    from okdmr.dmrlib.etsi.layer3.elements.service_options import ServiceOptions

    return ServiceOptions(
        is_emergency=d["is_emergency"],
        is_privacy=d["is_privacy"],
        reserved=_bits(d["reserved"]),
        is_broadcast=d["is_broadcast"],
        is_open_voice_call_mode=d["is_open_voice_call_mode"],
        priority_level=d["priority_level"],
    )


GPS_LON_STEP = 360 / 2**25
GPS_LAT_STEP = 180 / 2**24


def build(kind: str, variant: str, f: dict):
    """plain-JSON field dict -> library PDU object (constructed the way the library's callers do)."""
    spec = dict(SPEC[(kind, variant)])
    kw: Dict[str, Any] = {}
    for name, s in spec.items():
        if s[0] == "excl":
            s = s[1]
        v = f[name]
        if s[0] == "enum":
            v = member(s[1], v)
        elif s[0] == "bytes":
            v = bytes.fromhex(v)
        elif s[0] == "bits":
            v = _bits(v)
        elif s[0] == "svc":
            v = _svc(v)
        kw[name] = v
    check = f.get("_check")  # None | "zero" (= library computes) | "ones" | "computed" (value the library computed, passed in)
    if kind == "csbk":
        from okdmr.dmrlib.etsi.layer2.pdu.csbk import CSBK

        kw["manufacturers_feature_set_id"] = kw.pop("fid")
        op = member("CsbkOpcodes", variant)
        if check == "ones":
            return CSBK(csbko=op, crc=0xFFFF, **kw)
        if check == "computed":
            return CSBK(csbko=op, crc=CSBK(csbko=op, **kw).crc, **kw)
        return CSBK(csbko=op, **kw)
    if kind == "header":
        from okdmr.dmrlib.etsi.layer2.pdu.data_header import DataHeader

        dpf = member("DataPacketFormats", variant)
        if check == "ones":
            return DataHeader(dpf=dpf, crc=bitarray("1" * 16, endian="big"), **kw)
        if check == "computed":
            return DataHeader(dpf=dpf, crc=bitarray(DataHeader(dpf=dpf, **kw).crc), **kw)
        return DataHeader(dpf=dpf, **kw)
    if kind == "pi":
        from okdmr.dmrlib.etsi.layer2.pdu.pi_header import PIHeader

        if check == "ones":
            return PIHeader(data=kw["data"], crc=0xFFFF)
        if check == "computed":
            return PIHeader(data=kw["data"], crc=PIHeader(data=kw["data"]).crc)
        return PIHeader(data=kw["data"])
    if kind.startswith("flc:"):
        from okdmr.dmrlib.etsi.fec.reed_solomon_12_9_4 import ReedSolomon1294
        from okdmr.dmrlib.etsi.layer2.elements.crc_masks import CrcMasks
        from okdmr.dmrlib.etsi.layer2.pdu.full_link_control import FullLinkControl

        mode, free = kw.pop("crc_mode"), kw.pop("crc_free")
        if variant == "GPSInfo":
            kw["longitude"] = GPS_LON_STEP * kw.pop("longitude_n")
            kw["latitude"] = GPS_LAT_STEP * kw.pop("latitude_n")
        flco = member("FLCOs", variant)
        lc = FullLinkControl(flco=flco, crc=free, **kw)
        if mode == "rs":
            mask = CrcMasks[kind.split(":")[1]].value.to_bytes(3, byteorder="big")
            full = ReedSolomon1294.generate(lc.as_bits()[:72].tobytes(), mask)
            crc = bitarray(endian="big")
            crc.frombytes(full[9:12])
            lc = FullLinkControl(flco=flco, crc=crc, **kw)
        return lc
    if kind in _RATE_LEN:
        mod = importlib.import_module(f"okdmr.dmrlib.etsi.layer2.pdu.{kind}_data")
        cls = getattr(mod, {"rate12": "Rate12Data", "rate34": "Rate34Data", "rate1": "Rate1Data"}[kind])
        types = getattr(mod, {"rate12": "Rate12DataTypes", "rate34": "Rate34DataTypes", "rate1": "Rate1DataTypes"}[kind])
        if check == "ones" and "dbsn" in kw:
            return cls(packet_type=types[variant], crc9=0x1FF, **kw)
        if check == "computed" and "dbsn" in kw:
            return cls(packet_type=types[variant], crc9=cls(packet_type=types[variant], **kw).crc9, **kw)
        return cls(packet_type=types[variant], **kw)
    raise AssertionError(kind)


def rate_type(kind: str, variant: str):
    mod = importlib.import_module(f"okdmr.dmrlib.etsi.layer2.pdu.{kind}_data")
    return getattr(mod, {"rate12": "Rate12DataTypes", "rate34": "Rate34DataTypes", "rate1": "Rate1DataTypes"}[kind])[variant]


def expected_class_name(kind: str) -> str:
    return {
        "csbk": "CSBK",
        "header": "DataHeader",
        "pi": "PIHeader",
        "flc:VoiceLCHeader": "FullLinkControl",
        "flc:TerminatorWithLC": "FullLinkControl",
        "rate12": "Rate12Data",
        "rate34": "Rate34Data",
        "rate1": "Rate1Data",
    }[kind]


def expected_class(kind: str):
    """the public PDU class a parsed burst of this kind must carry (subclasses are fine)"""
    name = expected_class_name(kind)
    mod = {
        "CSBK": "okdmr.dmrlib.etsi.layer2.pdu.csbk",
        "DataHeader": "okdmr.dmrlib.etsi.layer2.pdu.data_header",
        "PIHeader": "okdmr.dmrlib.etsi.layer2.pdu.pi_header",
        "FullLinkControl": "okdmr.dmrlib.etsi.layer2.pdu.full_link_control",
        "Rate12Data": "okdmr.dmrlib.etsi.layer2.pdu.rate12_data",
        "Rate34Data": "okdmr.dmrlib.etsi.layer2.pdu.rate34_data",
        "Rate1Data": "okdmr.dmrlib.etsi.layer2.pdu.rate1_data",
    }[name]
    return getattr(importlib.import_module(mod), name)


# ---------------------------------------------------------------------------------------------- field dump


def dump(o: Any, _depth: int = 0) -> Any:
    """Generic, order-independent dump of the field values of a PDU object: every instance attribute except validity
    verdicts (`*_ok`), recursively.  bool/int are normalised to int (the constructors accept both), enums to
    'Class.member', bitarray to 'b:0101', bytes to 'x:hex', floats are kept exact."""
    if o is None:
        return None
    if isinstance(o, enum.Enum):
        return f"{type(o).__name__}.{o.name}"
    if isinstance(o, (bool, int)):
        return int(o)
    if isinstance(o, float):
        return o
    if isinstance(o, str):
        return o
    if isinstance(o, bitarray):
        return "b:" + o.to01()
    if isinstance(o, (bytes, bytearray)):
        return "x:" + bytes(o).hex()
    if isinstance(o, (list, tuple)):
        return [dump(v, _depth + 1) for v in o]
    try:
        import numpy

        if isinstance(o, numpy.generic):
            return dump(o.item(), _depth + 1)
    except ImportError:  # pragma: no cover
        pass
    if hasattr(o, "__dict__") and _depth < 4:
        return {k: dump(v, _depth + 1) for k, v in sorted(vars(o).items()) if not k.endswith("_ok")}
    return repr(o)


def diff_dumps(a: Any, b: Any, path: str = "") -> List[str]:
    if isinstance(a, dict) and isinstance(b, dict):
        out = []
        for k in sorted(set(a) | set(b)):
            if k not in a or k not in b:
                out.append(f"{path}{k}: {'missing' if k not in a else a[k]!r} != {'missing' if k not in b else b[k]!r}")
            else:
                out.extend(diff_dumps(a[k], b[k], f"{path}{k}."))
        return out
    if type(a) is not type(b) or a != b:
        return [f"{path[:-1]}: {a!r} != {b!r}"]
    return []


# ---------------------------------------------------------------------------------------------- payload field comparison
#
# "The same payload field values" = the PDU's PROTOCOL fields, not every attribute an implementation happens to keep:
#   (a) every field the generator generated for the variant: the parsed PDU's attribute of that name is compared with
#       the GENERATED value (converted the way build() converts it, normalised by dump()); the check fields the library
#       computed (crc / crc9 / 24-bit full-LC field) are compared with the assembled object's value;
#   (b) every attribute that corresponds to a CONSTRUCTOR PARAMETER of the class (inspect.signature(cls.__init__): the fields
#       a caller can set), exists on BOTH the assembled and the parsed object and is not None on the assembled one (opcode,
#       format, defaults of fields the variant does not carry ...), recursively for nested objects.
# Skipped, never a violation: attributes that are None or absent on the assembled object and were not passed by build()
# (diagnostics such as source_bits / raw / counters), names starting with "_", validity verdicts (*_ok), callables;
# an attribute absent on one side is reported as a note.

# constructor keyword used by build() -> attribute name on the object, where they differ
_ATTR_OF_FIELD = {
    ("csbk", "fid"): "feature_set",
    ("flc", "fid"): "feature_set_id",
    ("flc", "longitude_n"): "longitude",
    ("flc", "latitude_n"): "latitude",
}
_CHECK_ATTRS = {"csbk": ["crc"], "header": ["crc"], "pi": ["crc"], "flc": ["crc"], "rate12": ["crc9"], "rate34": ["crc9"], "rate1": ["crc9"]}
_MISSING = object()


def _is_plain_object(o) -> bool:
    return hasattr(o, "__dict__") and not isinstance(o, (enum.Enum, type)) and not callable(o)


def _public_attrs(o) -> Dict[str, Any]:
    return {k: v for k, v in vars(o).items() if not k.startswith("_") and not k.endswith("_ok") and not callable(v)}


def _unwrap_scalar(got, expected):
    """an attribute may wrap a generated integer in a small value object (FragmentSequenceNumber(value=...))"""
    if isinstance(expected, (bool, int)) and _is_plain_object(got) and isinstance(getattr(got, "value", None), (bool, int)):
        return got.value
    return got


def _expected_of_generated(kind: str, name: str, spec, v):
    """generated JSON value -> normalised expected value (same conversions as build())"""
    if spec[0] == "excl":
        spec = spec[1]
    t = spec[0]
    if t == "enum":
        return dump(member(spec[1], v))
    if t == "bytes":
        return "x:" + v
    if t == "bits":
        return "b:" + v
    if t in ("u", "bool"):
        return int(v)
    if t == "s":
        step = GPS_LON_STEP if name == "longitude_n" else GPS_LAT_STEP
        return step * v
    if t == "svc":
        return {n: _expected_of_generated(kind, n, sp, v[n]) for n, sp in _svc_fields()}
    raise AssertionError(spec)


def _diff_value(got, expected, path: str, out: List[str]):
    if isinstance(expected, dict):  # nested generated object (service options): only the generated keys
        for k, ev in expected.items():
            gv = getattr(got, k, _MISSING) if not isinstance(got, dict) else got.get(k, _MISSING)
            if gv is _MISSING:
                out.append(f"note:{path}.{k} absent on parsed object")
            else:
                _diff_value(gv, ev, f"{path}.{k}", out)
        return
    g = dump(_unwrap_scalar(got, expected))
    if type(g) is not type(expected) or g != expected:
        out.append(f"{path}: parsed {g!r} != generated {expected!r}")


# constructor parameter -> attribute name, where the class stores it under another name
_ATTR_OF_PARAM = {
    "CSBK": {"manufacturers_feature_set_id": "feature_set"},
    "FullLinkControl": {"flco": "full_link_control_opcode", "fid": "feature_set_id"},
    "DataHeader": {"dpf": "data_packet_format"},
}


def _settable_attrs(o) -> List[str]:
    """attribute names that correspond to CONSTRUCTOR PARAMETERS of the object's class: the fields a caller can set.
    Everything else an object carries is derived or diagnostic (crc_received, source_bits, created_at ...) and is only
    compared by explicit clauses."""
    import inspect

    try:
        params = [n for n in inspect.signature(type(o).__init__).parameters if n != "self"]
    except (TypeError, ValueError):
        return []
    ren = {}
    for k in type(o).__mro__:
        ren.update(_ATTR_OF_PARAM.get(k.__name__, {}))
    return [ren.get(n, n) for n in params]


def _diff_common(assembled, parsed, path: str, out: List[str], depth: int = 0):
    a, p = _public_attrs(assembled), _public_attrs(parsed)
    for k in _settable_attrs(assembled):
        if k not in a:
            continue
        av = a[k]
        if av is None:
            continue
        if k not in p:
            out.append(f"note:{path}{k} absent on parsed object")
            continue
        pv = p[k]
        if _is_plain_object(av) and _is_plain_object(pv) and depth < 3:
            _diff_common(av, pv, f"{path}{k}.", out, depth + 1)
            continue
        da, dp = dump(av), dump(pv)
        if type(da) is not type(dp) or da != dp:
            out.append(f"{path}{k}: parsed {dp!r} != assembled {da!r}")


def compare_payload_fields(kind: str, variant: str, f: dict, assembled, parsed) -> Tuple[List[str], List[str]]:
    """(differences, notes) between the parsed PDU and what was generated / assembled"""
    out: List[str] = []
    base = kind.split(":")[0]
    for name, spec in SPEC[(kind, variant)]:
        if name in ("crc_mode", "crc_free"):
            continue  # full LC check field: compared below as the assembled object's crc
        attr = _ATTR_OF_FIELD.get((base, name), name)
        got = getattr(parsed, attr, _MISSING)
        if got is _MISSING:
            out.append(f"note:{attr} absent on parsed object")
            continue
        _diff_value(got, _expected_of_generated(kind, name, spec, f[name]), attr, out)
    for attr in _CHECK_ATTRS[base]:
        av, pv = getattr(assembled, attr, _MISSING), getattr(parsed, attr, _MISSING)
        if av is _MISSING or pv is _MISSING:
            out.append(f"note:{attr} absent on {'assembled' if av is _MISSING else 'parsed'} object")
        elif dump(av) != dump(pv):
            out.append(f"{attr}: parsed {dump(pv)!r} != assembled (library-computed) {dump(av)!r}")
    _diff_common(assembled, parsed, "", out)
    diffs = [x for x in out if not x.startswith("note:")]
    notes = sorted({x for x in out if x.startswith("note:")})
    # the same attribute can be reported by (a) and (b): keep one line per attribute
    seen, uniq = set(), []
    for d in diffs:
        key = d.split(":")[0]
        if key not in seen:
            seen.add(key)
            uniq.append(d)
    return uniq, notes
