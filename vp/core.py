"""
Core of the /verif machinery: contexts, tallies, known-findings matching, Hypothesis driver,
fork-sharding, evidence and replay writers.

Vocabulary
----------
property      C01..C20 (given, fixed)
sub-check     a named part of a property check; owns an *oracle*: ``oracle(case) -> None`` which
              raises :class:`Fail` when the property is violated on ``case``.  ``case`` is plain JSON
              data (ints, strings, lists, dicts; bytes are tolerated and stored as {"__bytes__": hex}).
driver        code that produces cases for a sub-check: complete enumeration, Hypothesis strategies,
              Hypothesis stateful machines.  Drivers never decide anything, oracles do.
Tally         mergeable, picklable record of what one process explored.
"""
from __future__ import annotations

import collections
import hashlib
import io
import json
import logging
import multiprocessing
import os
import sys
import time
import traceback
from typing import Any, Callable, Dict, Iterable, List, Optional, Tuple

VERIF_DIR = os.path.dirname(os.path.dirname(os.path.abspath(__file__)))
REPO = os.path.realpath(os.environ.get("VP_REPO", "/repo"))
NCPU = min(16, os.cpu_count() or 1)

# the real stdout: library code prints; we silence sys.stdout while checks run
REAL_STDOUT = sys.stdout


def out(*a):
    print(*a, file=REAL_STDOUT, flush=True)


class HarnessError(Exception):
    """Raised for problems of the machinery itself (exit status 2, never a VIOLATION)."""


class Fail(Exception):
    """Raised by an oracle: the property does not hold on this case."""

    def __init__(self, clause: str, observed: Any = None, expected: Any = None, klass: str = "", case: Any = None):
        super().__init__(clause)
        self.clause = clause
        self.observed = observed
        self.expected = expected
        self.klass = klass
        self.case = case

    def __str__(self):
        return f"{self.clause}[{self.klass}] observed={_short(self.observed)} expected={_short(self.expected)}"

    def __reduce__(self):
        return (Fail, (self.clause, jsonable(self.observed), jsonable(self.expected), self.klass, jsonable(self.case)))


def _short(o, n=300):
    s = repr(o)
    return s if len(s) <= n else s[:n] + "…"


# ----------------------------------------------------------------------------------------------
# JSON helpers


def jsonable(o: Any) -> Any:
    """Lossless-enough conversion of cases / observations to JSON data."""
    if o is None or isinstance(o, (bool, int, str)):
        return o
    if isinstance(o, float):
        return o if o == o and abs(o) != float("inf") else repr(o)
    if isinstance(o, (bytes, bytearray)):
        return {"__bytes__": bytes(o).hex()}
    if isinstance(o, dict):
        return {str(k): jsonable(v) for k, v in o.items()}
    if isinstance(o, (list, tuple)):
        return [jsonable(v) for v in o]
    if isinstance(o, (set, frozenset)):
        return sorted((jsonable(v) for v in o), key=repr)
    try:
        from bitarray import bitarray

        if isinstance(o, bitarray):
            return {"__bits__": o.to01()}
    except Exception:  # pragma: no cover
        pass
    try:
        import enum

        if isinstance(o, enum.Enum):
            return f"{type(o).__name__}.{o.name}"
    except Exception:  # pragma: no cover
        pass
    try:
        import numpy

        if isinstance(o, numpy.ndarray):
            return jsonable(o.tolist())
        if isinstance(o, numpy.generic):
            return jsonable(o.item())
    except Exception:  # pragma: no cover
        pass
    if isinstance(o, BaseException):
        return f"{type(o).__name__}: {o}"
    return _short(o, 500)


def unjson(o: Any) -> Any:
    """Inverse of jsonable for the two tagged forms (bytes, bits)."""
    if isinstance(o, dict):
        if set(o.keys()) == {"__bytes__"}:
            return bytes.fromhex(o["__bytes__"])
        if set(o.keys()) == {"__bits__"}:
            from bitarray import bitarray

            return bitarray(o["__bits__"])
        return {k: unjson(v) for k, v in o.items()}
    if isinstance(o, list):
        return [unjson(v) for v in o]
    return o


def digest(o: Any) -> bytes:
    return hashlib.blake2b(json.dumps(jsonable(o), sort_keys=True, separators=(",", ":")).encode(), digest_size=8).digest()


def derive_seed(*parts) -> int:
    h = hashlib.sha256("|".join(str(p) for p in parts).encode()).digest()
    return int.from_bytes(h[:8], "big")


# ----------------------------------------------------------------------------------------------
# Tally


class Tally:
    MAX_SAMPLES = 6
    MAX_FAIL_PER_BUCKET = 2

    def __init__(self):
        self.evaluations = 0
        self.sub_evals: Dict[str, int] = collections.Counter()
        self.nt_hashes: set = set()
        self.nt_enum = 0  # non-trivial cases that are distinct by construction (enumerations)
        self.classes: Dict[str, int] = collections.Counter()
        self.samples: Dict[str, list] = {}
        self.failures: List[dict] = []  # unmatched = violations
        self.fail_counts: Dict[str, int] = collections.Counter()
        self.known: Dict[str, int] = collections.Counter()
        self.known_witness: Dict[str, Any] = {}
        self.excluded: Dict[str, int] = collections.Counter()
        self.exhaustive: Dict[str, bool] = {}
        self.notes: List[str] = []
        self.errors: List[str] = []  # harness errors
        self.extra: Dict[str, Any] = {}

    # -- recording --------------------------------------------------------------------------
    def case(self, sub: str, key: Any = None, nontrivial: bool = False, cls: Optional[str] = None, n: int = 1):
        """Record one explored case. ``key`` (JSON data) identifies the case for distinctness; without a key a
        non-trivial case counts as distinct by construction (use only inside enumerations)."""
        self.evaluations += n
        self.sub_evals[sub] += n
        if cls:
            self.classes[f"{sub}:{cls}"] += n
        if nontrivial:
            if key is None:
                self.nt_enum += n
            else:
                self.nt_hashes.add(digest([sub, key]))
        if key is not None:
            self.sample(sub, key)

    def cls(self, sub: str, cls: str, n: int = 1):
        self.classes[f"{sub}:{cls}"] += n

    def sample(self, sub: str, obj: Any):
        lst = self.samples.setdefault(sub, [])
        if len(lst) < self.MAX_SAMPLES:
            lst.append(jsonable(obj))
        else:
            # deterministic reservoir: keep the samples with the smallest digests (besides the first two)
            d = digest(obj)
            worst_i, worst_d = None, d
            for i in range(2, len(lst)):
                di = digest(lst[i])
                if di > worst_d:
                    worst_i, worst_d = i, di
            if worst_i is not None:
                lst[worst_i] = jsonable(obj)

    def merge(self, o: "Tally"):
        self.evaluations += o.evaluations
        self.sub_evals.update(o.sub_evals)
        self.nt_hashes |= o.nt_hashes
        self.nt_enum += o.nt_enum
        self.classes.update(o.classes)
        for k, v in o.samples.items():
            lst = self.samples.setdefault(k, [])
            for s in v:
                if len(lst) < self.MAX_SAMPLES and s not in lst:
                    lst.append(s)
        for f in o.failures:
            self._add_failure(f)
        self.fail_counts.update(o.fail_counts)
        self.known.update(o.known)
        for k, v in o.known_witness.items():
            self.known_witness.setdefault(k, v)
        self.excluded.update(o.excluded)
        for k, v in o.exhaustive.items():
            self.exhaustive[k] = self.exhaustive.get(k, True) and v
        self.notes.extend(n for n in o.notes if n not in self.notes)
        self.errors.extend(o.errors)
        for k, v in o.extra.items():
            if isinstance(v, (int, float)) and isinstance(self.extra.get(k), (int, float)):
                self.extra[k] += v
            elif isinstance(v, dict) and isinstance(self.extra.get(k), dict):
                for kk, vv in v.items():
                    if isinstance(vv, (int, float)) and isinstance(self.extra[k].get(kk), (int, float)):
                        self.extra[k][kk] += vv
                    else:
                        self.extra[k][kk] = vv
            else:
                self.extra[k] = v

    def _add_failure(self, f: dict):
        b = f["bucket"]
        same = [x for x in self.failures if x["bucket"] == b]
        if len(same) < self.MAX_FAIL_PER_BUCKET:
            self.failures.append(f)
        else:
            # keep the smallest reproductions
            big = max(same, key=lambda x: len(json.dumps(x["case"])))
            if len(json.dumps(f["case"])) < len(json.dumps(big["case"])):
                self.failures[self.failures.index(big)] = f

    @property
    def distinct_nontrivial(self) -> int:
        return len(self.nt_hashes) + self.nt_enum


# ----------------------------------------------------------------------------------------------
# Known findings


class Findings:
    def __init__(self, path: Optional[str] = None):
        self.path = path or os.path.join(VERIF_DIR, "known_findings.json")
        self.open: List[dict] = []
        self.fixed: List[str] = []
        self._explicit_cache: Dict[str, set] = {}
        import glob

        # the committed file, plus per-property fragments known/Cxx.findings.json (same format; merged view)
        for path in [self.path] + sorted(glob.glob(os.path.join(VERIF_DIR, "known", "*.findings.json"))):
            if os.path.exists(path):
                with open(path) as fh:
                    data = json.load(fh)
                self.open.extend(e for e in data.get("open", []))
                self.fixed.extend(data.get("fixed", []))

    def for_property(self, prop: str) -> List[dict]:
        return [e for e in self.open if e["property"] == prop]

    def _explicit(self, entry: dict) -> set:
        m = entry["match"]
        key = entry["id"]
        if key not in self._explicit_cache:
            vals = list(m.get("values", []))
            if "file" in m:
                with open(os.path.join(VERIF_DIR, m["file"])) as fh:
                    vals.extend(json.load(fh))
            self._explicit_cache[key] = set(json.dumps(v, sort_keys=True) for v in vals)
        return self._explicit_cache[key]

    def match(self, prop: str, sub: str, fail: Fail, case: Any, predicates: Dict[str, Callable]) -> Optional[str]:
        """Return the id of the open finding that covers this failure, else None."""
        for e in self.open:
            if e["property"] != prop:
                continue
            if e.get("sub") not in (None, sub):
                continue
            if e.get("clause") not in (None, fail.clause):
                continue
            m = e["match"]
            kind = m["kind"]
            try:
                if kind == "explicit":
                    keyf = predicates.get(m.get("key", ""), None)
                    k = keyf(case, fail) if keyf else case
                    if json.dumps(jsonable(k), sort_keys=True) in self._explicit(e):
                        return e["id"]
                elif kind == "predicate":
                    p = predicates.get(m["name"])
                    if p is None:
                        raise HarnessError(f"known finding {e['id']} names unknown predicate {m['name']}")
                    if p(case, fail):
                        return e["id"]
                elif kind == "callsite":
                    if fail.klass == m["klass"]:
                        return e["id"]
                else:
                    raise HarnessError(f"unknown match kind {kind}")
            except HarnessError:
                raise
            except Exception as ex:  # a predicate that crashes never hides a violation
                continue
        return None


# ----------------------------------------------------------------------------------------------
# exception classification


def innermost_frames(exc: BaseException) -> Tuple[str, str]:
    """(innermost frame inside the library under test, innermost frame overall) as 'file.py:function'."""
    lib, last = "", ""
    for fs in traceback.extract_tb(exc.__traceback__):
        fn = os.path.realpath(fs.filename)
        where = f"{os.path.basename(fn)}:{fs.name}"
        last = where if not fn.startswith(VERIF_DIR + os.sep) else last
        if fn.startswith(REPO + os.sep):
            lib = where
    return lib, last


def exc_klass(exc: BaseException) -> str:
    lib, last = innermost_frames(exc)
    return f"{type(exc).__name__}@{lib or last or '?'}"


def lib_raised(exc: BaseException) -> bool:
    """True when the exception passed through (or originated in) a frame of the library under test."""
    for fs in traceback.extract_tb(exc.__traceback__):
        if os.path.realpath(fs.filename).startswith(REPO + os.sep):
            return True
    return False


def call(fn: Callable, *a, allowed: Tuple[type, ...] = (), clause: str = "no_unexpected_exception", **kw):
    """Call library code.  Exceptions of the ``allowed`` types are returned as ('raised', exc); anything else the
    library raises becomes a Fail(clause)."""
    try:
        return ("ok", fn(*a, **kw))
    except Fail:
        raise
    except allowed as e:
        return ("raised", e)
    except Exception as e:
        if not lib_raised(e):
            raise
        raise Fail(clause, observed=f"{type(e).__name__}: {e}", expected="no exception" if not allowed else "one of " + ",".join(t.__name__ for t in allowed), klass=exc_klass(e))


# ----------------------------------------------------------------------------------------------
# Process-wide mode of the standard logging module (lesson of seeded round 6)
#
# The checks run the library with logging disabled (silence_library), so `logger.isEnabledFor(DEBUG)` is never true and
# any code that only runs when debug logging is effective - diagnostics that exhaust an iterator, overwrite a loop
# variable, format an object with side effects - is never executed.  "Debug logging is on" is a mode of the process, not
# an input of the property, and every property must hold in it.  Every DEBUG_EVERY-th case that held is therefore judged a
# second time with the root logger at DEBUG (records go to a NullHandler); a failure there is recorded with the case
# tagged {"_logging": "DEBUG"}, and every replay of a tagged case runs in that mode.  The default-mode coverage (incl. the
# exhaustive claims) is unaffected: the DEBUG run is always an additional evaluation.

DEBUG_EVERY = int(os.environ.get("VP_DEBUG_EVERY", "8"))
_LOGGING_MODE = ["OFF"]


def set_logging_mode(mode: str):
    if mode == _LOGGING_MODE[0]:
        return
    _LOGGING_MODE[0] = mode
    if mode == "DEBUG":
        root = logging.getLogger()
        if not any(isinstance(h, logging.NullHandler) for h in root.handlers):
            root.addHandler(logging.NullHandler())
        for h in list(root.handlers):
            if not isinstance(h, logging.NullHandler):
                root.removeHandler(h)
        root.setLevel(logging.DEBUG)
        logging.disable(logging.NOTSET)
    else:
        logging.disable(logging.CRITICAL)


def case_mode(case) -> Optional[str]:
    return case.get("_logging") if isinstance(case, dict) else None


def invoke(oracle: Callable[[Any], None], case: Any, mode: Optional[str] = None):
    """Run an oracle in the logging mode the case is tagged with (or ``mode``), restoring the previous mode afterwards."""
    calls = case_prelude(case)
    if calls:
        case = untagged(case)
        _invoke_in_mode(oracle, case, mode)  # the plain evaluation the tagged one followed; must hold
        run_prelude_calls(calls)
    return _invoke_in_mode(oracle, case, mode)


def _invoke_in_mode(oracle, case, mode):
    want = mode or case_mode(case) or "OFF"
    prev = _LOGGING_MODE[0]
    if want == prev:
        return oracle(case)
    set_logging_mode(want)
    try:
        return oracle(case)
    finally:
        set_logging_mode(prev)


def tag_debug(case):
    return dict(case, _logging="DEBUG") if isinstance(case, dict) else case


# ----------------------------------------------------------------------------------------------
# Preludes: "X, something unrelated, X again" (lesson of seeded round 7)
#
# Every oracle judges its case in a process whose earlier history consists of other cases of the same sub-check only.
# State that some *other* entry point of the library leaves behind - a memo keyed too widely and filled by a sibling code
# (Hamming(15,11,3) / (16,11,4)), a shared register left dirty by a call that was rightly refused, the state machine of a
# decoder that the encoder re-uses, an enum singleton that remembers the last unassigned value - can therefore never
# reach it.  Every PRELUDE_EVERY-th case that held (at most PRELUDE_CAP per driver call and process) is judged again after a
# *prelude*: a few calls into the library that have nothing to do with the case.  The calls are plain JSON:
#   {"e": <entry of the C19 catalogue>, "a": <arguments>}   valid, rejected and unusual calls of all 113 public codec
#                                                           entry points (props/c19.py; vp.purity runs them)
#   {"x": <name>, "a": <arguments>}                         an operation the property module offers (PRELUDE_OPS), usually
#                                                           a sibling entry point applied to values taken from the case;
#                                                           module.prelude_for(sub, case, rng) returns such calls
# A prelude is stimulus only: whatever its calls return or raise is ignored.  A failure after a prelude is recorded with the
# case tagged {"_prelude": [calls of this process so far, most recent PRELUDE_LOG_MAX]}; the replay of a tagged case judges
# the untagged case once (it must hold - otherwise that failure is reported), runs the calls, and judges it again.  A plain
# failure that occurs after preludes ran in the process gets the same tag, because the state they left may be its cause.
# On the unchanged tree a prelude can only make a case fail if the library really carries state from an unrelated call
# into the judged one, which is a violation of the property for that history (and of C19).  C19 itself is exempt: its oracles
# run in separate interpreters.

PRELUDE_EVERY = int(os.environ.get("VP_PRELUDE_EVERY", "8"))
PRELUDE_LEN = int(os.environ.get("VP_PRELUDE_LEN", "6"))
PRELUDE_CAP = int(os.environ.get("VP_PRELUDE_CAP", "150"))
PRELUDE_LOG_MAX = 48
_PRELUDE_POOL: Optional[List[dict]] = None
_PRELUDE_LOG: List[dict] = []
_PRELUDE_MODULE = [None]


def prelude_pool() -> List[dict]:
    """Deterministic pool of unrelated library calls: canonical, rejected and unusual calls of every C19 catalogue entry."""
    global _PRELUDE_POOL
    if _PRELUDE_POOL is None:
        import importlib

        from . import purity

        importlib.import_module("props.c19")
        pool: List[dict] = []
        for eid in sorted(purity.CATALOGUE):
            e = purity.CATALOGUE[eid]
            if e.no_scribble:
                continue
            pool += [{"e": c["e"], "a": c["a"]} for c in purity.canonical_calls(e)]
            pool += [{"e": c["e"], "a": c["a"]} for c in purity.reject_candidates(e)[:8]]
            pool += [{"e": c["e"], "a": c["a"]} for c in purity.unusual_candidates(e)[:4]]
        _PRELUDE_POOL = pool
    return _PRELUDE_POOL


def run_prelude_calls(calls: List[dict], module=None):
    """Execute prelude calls in this process; results and exceptions are ignored (stimulus only)."""
    from . import purity

    import contextlib
    import warnings

    module = module or _PRELUDE_MODULE[0]
    prelude_pool()
    with open(os.devnull, "w") as sink, contextlib.redirect_stderr(sink), contextlib.redirect_stdout(sink), warnings.catch_warnings():
        warnings.simplefilter("ignore")
        _run_prelude_calls(calls, module)


def _run_prelude_calls(calls: List[dict], module):
    from . import purity

    for c in calls:
        try:
            if "e" in c:
                e = purity.CATALOGUE.get(c["e"])
                if e is not None:
                    purity._run_one(e, c["a"], representation=c.get("r"))
            elif "x" in c:
                op = getattr(module, "PRELUDE_OPS", {}).get(c["x"])
                if op is not None:
                    op(c.get("a"))
        except (KeyboardInterrupt, SystemExit, MemoryError):
            raise
        except BaseException:
            pass
        _PRELUDE_LOG.append(c)
    del _PRELUDE_LOG[:-PRELUDE_LOG_MAX]


def choose_prelude(ctx, sub: str, case, key: bytes) -> List[dict]:
    """The prelude of a case: generic calls first, then the calls the module derives from the case (siblings on the same
    values) - last, so that no generic call can wipe the state a sibling leaves behind."""
    import random

    rng = random.Random(key)
    own: List[dict] = []
    pf = getattr(ctx.module, "prelude_for", None)
    if pf is not None:
        try:
            own = [jsonable(c) for c in (pf(sub, case, rng) or [])]
        except Exception:
            raise HarnessError(f"{ctx.prop}.prelude_for failed on {sub}:\n{traceback.format_exc()}")
    pool = prelude_pool()
    calls: List[dict] = []
    groups = getattr(ctx.module, "PRELUDE_GROUPS", None)  # catalogue groups close to the property's code: half of the generic calls
    if groups:
        from . import purity

        near = [c for c in pool if purity.CATALOGUE[c["e"]].group in groups]
        if near:
            calls += [near[rng.randrange(len(near))] for _ in range(PRELUDE_LEN // 2)]
    calls += [pool[rng.randrange(len(pool))] for _ in range(PRELUDE_LEN - len(calls))]
    return calls + own


def case_prelude(case):
    return case.get("_prelude") if isinstance(case, dict) else None


def tag_prelude(case):
    return dict(case, _prelude=list(_PRELUDE_LOG)) if isinstance(case, dict) and _PRELUDE_LOG else case


def untagged(case):
    return {k: v for k, v in case.items() if k != "_prelude"} if isinstance(case, dict) and "_prelude" in case else case


# ----------------------------------------------------------------------------------------------
# Sub-check registry and context


class SubCheck:
    def __init__(self, name: str, oracle: Callable[[Any], None], driver: Callable[["Ctx", "SubCheck"], None], doc: str = "", tiers=("quick", "thorough")):
        self.name = name
        self.oracle = oracle
        self.driver = driver
        self.doc = doc
        self.tiers = tiers


class Ctx:
    """One run of one property check."""

    def __init__(self, prop: str, tier: str, seed: int, module):
        self.prop = prop
        self.tier = tier
        self.seed = seed
        self.module = module
        _PRELUDE_MODULE[0] = module
        self.tally = Tally()
        self.findings = Findings()
        self.predicates: Dict[str, Callable] = getattr(module, "PREDICATES", {})
        self.t0 = time.time()
        self.sub_wall: Dict[str, float] = {}
        self.violations_printed = 0

    # -- convenience -----------------------------------------------------------------------
    @property
    def quick(self) -> bool:
        return self.tier == "quick"

    def pick(self, quick, thorough):
        return quick if self.tier == "quick" else thorough

    def rng(self, *parts):
        import random

        return random.Random(derive_seed(self.seed, self.prop, *parts))

    # -- deciding a failure ----------------------------------------------------------------
    def judge(self, sub: str, case: Any, fail: Fail, tally: Optional[Tally] = None) -> Optional[str]:
        """Record a failing case.  Returns the known-finding id when it is covered by an open finding (search goes
        on), else None (= violation; recorded)."""
        t = tally if tally is not None else self.tally
        fid = self.findings.match(self.prop, sub, fail, jsonable(case), self.predicates)
        if fid:
            t.known[fid] += 1
            t.known_witness.setdefault(fid, jsonable(case))
            return fid
        bucket = f"{sub}|{fail.clause}|{fail.klass}"
        t.fail_counts[bucket] += 1
        t._add_failure(
            {
                "bucket": bucket,
                "sub": sub,
                "clause": fail.clause,
                "klass": fail.klass,
                "case": jsonable(case),
                "observed": jsonable(fail.observed),
                "expected": jsonable(fail.expected),
            }
        )
        return None

    def run_case(self, sub: str, oracle: Callable[[Any], None], case: Any, tally: Optional[Tally] = None) -> bool:
        """Run an oracle on one case (enumeration drivers).  Returns True when it held or is a known finding.  Every
        DEBUG_EVERY-th case that held is judged once more with debug logging effective (see set_logging_mode)."""
        held = self._run_once(sub, oracle, case, tally)
        if held and case_mode(case) is None and case_prelude(case) is None:
            self._n_run_case = getattr(self, "_n_run_case", 0) + 1
            t = tally if tally is not None else self.tally
            if DEBUG_EVERY and self._n_run_case % DEBUG_EVERY == 0:
                t.extra["cases_rejudged_with_debug_logging"] = t.extra.get("cases_rejudged_with_debug_logging", 0) + 1
                return self._run_once(sub, oracle, case, tally, mode="DEBUG")
            # enumeration drivers: cases number 4, 12, 28, 60, 124, ... of a shard item (doubling gaps: the state a prelude leaves
            # behind persists in the process, so later cases of the item are judged in it anyway)
            n4 = self._n_run_case + 4
            if self.prelude_enabled and n4 >= 8 and n4 & (n4 - 1) == 0 and getattr(self, "_n_prelude", 0) < PRELUDE_CAP:
                self._n_prelude = getattr(self, "_n_prelude", 0) + 1
                t.extra["cases_rejudged_after_prelude"] = t.extra.get("cases_rejudged_after_prelude", 0) + 1
                run_prelude_calls(choose_prelude(self, sub, case, digest([sub, jsonable(case)])), self.module)
                return self._run_once(sub, oracle, case, tally)
        return held

    @property
    def prelude_enabled(self) -> bool:
        return bool(PRELUDE_EVERY) and self.prop != "C19" and not getattr(self.module, "NO_PRELUDE", False)

    def _run_once(self, sub, oracle, case, tally, mode: Optional[str] = None) -> bool:
        try:
            invoke(oracle, case, mode)
            return True
        except Fail as f:
            return self.judge(sub, tag_prelude(tag_debug(case) if mode == "DEBUG" else case), f, tally) is not None
        except Exception as e:
            if lib_raised(e):
                f = Fail("no_unexpected_exception", observed=f"{type(e).__name__}: {e}", expected="no exception", klass=exc_klass(e))
                return self.judge(sub, tag_prelude(tag_debug(case) if mode == "DEBUG" else case), f, tally) is not None
            raise

    # -- sharding --------------------------------------------------------------------------
    def shards(self, fn: Callable[[Any, Tally], None], items: List[Any], procs: Optional[int] = None, chunksize: int = 1):
        """Run fn(item, tally) for every item in forked workers; merge tallies in item order."""
        procs = min(procs or NCPU, max(1, len(items)))
        if procs <= 1 or os.environ.get("VP_NOFORK"):
            for it in items:
                fn(it, self.tally)
            return
        warm_hypothesis_constants()
        global _SHARD_FN, _SHARD_CTX
        _SHARD_FN = fn
        _SHARD_CTX = self
        mp = multiprocessing.get_context("fork")
        with mp.Pool(procs) as pool:
            for res in pool.imap(_shard_entry, items, chunksize):
                if isinstance(res, str):
                    raise HarnessError("worker failed:\n" + res)
                self.tally.merge(res)

    # -- hypothesis ------------------------------------------------------------------------
    def hypothesis(self, sub: str, strategy, oracle: Callable[[Any], None], max_examples: int, tally: Optional[Tally] = None,
                   shard: Any = 0, record: Optional[Callable[[Any, Tally], None]] = None, shrink: bool = True, max_rounds: int = 4):
        """Seeded Hypothesis search.  ``oracle(case)`` raises Fail; ``record(case, tally)`` (optional) tallies the
        case (class / non-trivial).  Failures covered by open known findings are counted and the search goes on;
        other failures are shrunk, recorded, and the search is repeated with that failure bucket tolerated so that
        distinct root causes are all reported."""
        import hypothesis
        from hypothesis import HealthCheck, Phase, given, settings

        t = tally if tally is not None else self.tally
        tolerated: set = set()
        picked: set = set()  # digests of the cases judged again after a prelude (an example is judged the same way every time)
        phases = [Phase.explicit, Phase.reuse, Phase.generate, Phase.target] + ([Phase.shrink] if shrink else [])
        for rnd in range(max_rounds):
            def once(case, mode=None):
                try:
                    invoke(oracle, case, mode)
                except Fail as f0:
                    return f0
                except hypothesis.errors.HypothesisException:
                    raise
                except Exception as e:
                    if not lib_raised(e):
                        raise
                    return Fail("no_unexpected_exception", observed=f"{type(e).__name__}: {e}", expected="no exception", klass=exc_klass(e))
                return None

            def body(case):
                fail = once(case)
                if fail is None and DEBUG_EVERY:
                    try:
                        pick = digest(jsonable(case))[0] % DEBUG_EVERY == 0
                    except Exception:
                        pick = False
                    if pick:
                        t.extra["cases_rejudged_with_debug_logging"] = t.extra.get("cases_rejudged_with_debug_logging", 0) + 1
                        fail = once(case, "DEBUG")
                        if fail is not None:
                            case = tag_debug(case)
                if fail is None and self.prelude_enabled and case_prelude(case) is None:
                    try:
                        d = digest([sub, jsonable(case)])
                    except Exception:
                        d = None
                    if d is not None and d[1] % PRELUDE_EVERY == 0 and (d in picked or len(picked) < PRELUDE_CAP):
                        picked.add(d)
                        t.extra["cases_rejudged_after_prelude"] = t.extra.get("cases_rejudged_after_prelude", 0) + 1
                        run_prelude_calls(choose_prelude(self, sub, case, d), self.module)
                        fail = once(case)
                if fail is None:
                    if record is not None:
                        record(case, t)
                    else:
                        t.case(sub)
                    return
                # failing case
                if case_prelude(case) is None:
                    case = tag_prelude(case)
                t.case(sub, cls="failing")
                bucket = f"{sub}|{fail.clause}|{fail.klass}"
                if bucket in tolerated:
                    return
                if self.findings.match(self.prop, sub, fail, jsonable(case), self.predicates):
                    self.judge(sub, case, fail, t)
                    return
                fail.case = jsonable(case)
                raise fail

            test = settings(
                max_examples=max_examples,
                database=None,
                deadline=None,
                derandomize=False,
                report_multiple_bugs=False,
                phases=phases,
                suppress_health_check=[HealthCheck.too_slow, HealthCheck.data_too_large, HealthCheck.large_base_example],
                print_blob=False,
            )(hypothesis.seed(derive_seed(self.seed, self.prop, sub, shard, rnd))(given(strategy)(body)))
            try:
                test()
            except Fail as f:
                self.judge(sub, f.case, f, t)
                tolerated.add(f"{sub}|{f.clause}|{f.klass}")
                continue
            except hypothesis.errors.FailedHealthCheck as e:
                t.errors.append(f"{sub}: generator health check failed: {e}")
                return
            except hypothesis.errors.Flaky as e:
                # non-deterministic oracle or library: report as a harness error with detail (never a VIOLATION)
                t.errors.append(f"{sub}: flaky under Hypothesis: {e}")
                return
            break

    def state_machine(self, sub: str, machine_cls, max_examples: int, step_count: int, tally: Optional[Tally] = None, shard: Any = 0,
                      max_rounds: int = 3, minimise: str = "ddmin", oracle: Optional[Callable[[Any], None]] = None, ddmin_budget: int = 600):
        """Run a RuleBasedStateMachine built by ``make_machine``.  ``minimise``: "ddmin" (default) = Hypothesis only
        generates and a failing history is minimised by deterministic delta debugging over its op list, re-judged by
        ``oracle`` (default: the sub-check's replay oracle found on the module) - seconds instead of Hypothesis's
        shrinker, which can take minutes per bucket on long histories; "hypothesis" = use Hypothesis's shrink phase."""
        import hypothesis
        from hypothesis import HealthCheck, Phase, settings
        from hypothesis.stateful import run_state_machine_as_test

        t = tally if tally is not None else self.tally
        if oracle is None:
            for s in getattr(self.module, "SUBCHECKS", []):
                if s.name == sub:
                    oracle = s.oracle
        use_ddmin = minimise == "ddmin" and oracle is not None
        phases = [Phase.explicit, Phase.reuse, Phase.generate, Phase.target] + ([] if use_ddmin else [Phase.shrink])
        tolerated: set = set()
        for rnd in range(max_rounds):
            ns = {"vp_ctx": self, "vp_tally": t, "vp_tolerated": tolerated, "vp_sub": sub}
            M = type(machine_cls.__name__, (machine_cls,), ns)
            M = hypothesis.seed(derive_seed(self.seed, self.prop, sub, shard, rnd))(M)
            try:
                run_state_machine_as_test(
                    M,
                    settings=settings(
                        max_examples=max_examples,
                        stateful_step_count=step_count,
                        database=None,
                        deadline=None,
                        derandomize=False,
                        report_multiple_bugs=False,
                        suppress_health_check=list(HealthCheck),
                        print_blob=False,
                        phases=phases,
                    ),
                )
            except Fail as f:
                case, fmin = f.case, f
                if use_ddmin and isinstance(f.case, dict) and isinstance(f.case.get("ops"), list):
                    ops, f2 = ddmin_ops(oracle, f.case["ops"], f.clause, f.klass, budget=ddmin_budget, mode=case_mode(f.case), prelude=case_prelude(f.case))
                    if f2 is not None:
                        case, fmin = dict(f.case, ops=ops), f2
                self.judge(sub, case, fmin, t)
                tolerated.add(f"{sub}|{f.clause}|{f.klass}")
                continue
            except hypothesis.errors.Flaky as e:
                t.errors.append(f"{sub}: flaky under Hypothesis: {e}")
                return
            break


def _judge_ops(oracle, ops, mode: Optional[str] = None, prelude: Optional[List[dict]] = None):
    """Run a history oracle; return the Fail it raises (library exceptions converted), else None."""
    try:
        invoke(oracle, {"ops": ops, "_prelude": prelude} if prelude else {"ops": ops}, mode)
    except Fail as f:
        return f
    except Exception as e:
        if not lib_raised(e):
            raise
        return Fail("no_unexpected_exception", observed=f"{type(e).__name__}: {e}", expected="no exception", klass=exc_klass(e))
    return None


def ddmin_ops(oracle, ops: list, clause: str, klass: str, budget: int = 600, mode: Optional[str] = None, prelude: Optional[List[dict]] = None):
    """Deterministic delta debugging of an op list: smallest sub-sequence (by chunk removal, then single removal) on which
    ``oracle`` still fails with the same (clause, klass).  Returns (ops, Fail) or (ops, None) when the original history does
    not reproduce outside the machine."""
    calls = [0]

    def fails(cand):
        calls[0] += 1
        f = _judge_ops(oracle, cand, mode, prelude)
        return f if (f is not None and f.clause == clause and f.klass == klass) else None

    cur = list(ops)
    fcur = fails(cur)
    if fcur is None:
        return ops, None
    n = 2
    while len(cur) >= 2 and calls[0] < budget:
        chunk = max(1, len(cur) // n)
        removed = False
        for i in range(0, len(cur), chunk):
            cand = cur[:i] + cur[i + chunk :]
            if not cand:
                continue
            f = fails(cand)
            if f is not None:
                cur, fcur = cand, f
                n = max(n - 1, 2)
                removed = True
                break
            if calls[0] >= budget:
                break
        if not removed:
            if chunk == 1:
                break
            n = min(len(cur), n * 2)
    fcur.case = {"ops": cur}
    return cur, fcur


_SHARD_FN = None


_SHARD_CTX = None


def _shard_entry(item):
    t = Tally()
    if _SHARD_CTX is not None:
        _SHARD_CTX._n_run_case = 0  # which cases get the additional debug-logging evaluation depends on the item only
        _SHARD_CTX._n_prelude = 0
    del _PRELUDE_LOG[:]
    set_logging_mode("OFF")
    try:
        _SHARD_FN(item, t)
        return t
    except BaseException:
        return traceback.format_exc()


# ----------------------------------------------------------------------------------------------
# evidence / replay writers


def write_replay(prop: str, tier: str, seed: int, f: dict) -> str:
    d = os.path.join(VERIF_DIR, "replays")
    os.makedirs(d, exist_ok=True)
    body = {
        "property": prop,
        "subcheck": f["sub"],
        "clause": f["clause"],
        "klass": f["klass"],
        "case": f["case"],
        "observed": f["observed"],
        "expected": f["expected"],
        "seed": seed,
        "tier": tier,
    }
    h = hashlib.sha1(json.dumps([f["sub"], f["clause"], f["case"]], sort_keys=True).encode()).hexdigest()[:10]
    p = os.path.join(d, f"{prop}-{f['sub']}-{h}.json")
    with open(p, "w") as fh:
        json.dump(body, fh, indent=1, sort_keys=True)
    return p


def silence_library():
    logging.disable(logging.CRITICAL)
    sys.stdout = open(os.devnull, "w")


def preimport_library():
    """Import every library module (and Hypothesis) in the parent before any worker is forked.  Hypothesis harvests
    constants from the source of all *local* modules in sys.modules and mixes them into its draws; with lazy imports the
    pool of a forked worker would depend on which shard it ran first, i.e. on pool scheduling.  Importing everything up
    front makes each run a pure function of (tree, VERIF_SEED)."""
    import importlib
    import pkgutil

    import okdmr.dmrlib

    skip = ("okdmr.dmrlib.tools",)
    for m in pkgutil.walk_packages(okdmr.dmrlib.__path__, "okdmr.dmrlib."):
        if m.name.startswith(skip):
            continue
        try:
            importlib.import_module(m.name)
        except Exception:
            pass
    import hypothesis.stateful  # noqa: F401
    import hypothesis.strategies  # noqa: F401
    import hypothesis.extra  # noqa: F401


def warm_hypothesis_constants():
    """Harvest Hypothesis's pool of local-module constants in the parent, before workers are forked: the workers inherit
    the finished pool instead of racing each other on the cache files under the (private, per-run) storage directory.
    Private API; if it disappears only reproducibility of class counts suffers, never soundness."""
    try:
        from hypothesis.internal.conjecture.providers import _get_local_constants

        _get_local_constants()
    except Exception:
        pass


def assert_library_location():
    import okdmr.dmrlib

    paths = [os.path.realpath(p) for p in okdmr.dmrlib.__path__]
    if not any(p.startswith(REPO + os.sep) for p in paths):
        raise HarnessError(f"okdmr.dmrlib imported from {paths}, expected under {REPO}")


# ----------------------------------------------------------------------------------------------
# Stateful (model-based) checks


def replay_ops_oracle(runner_factory: Callable[[], Any]) -> Callable[[Any], None]:
    """Oracle for history cases {"ops": [...]}: feed every op to a fresh runner (model + system under test).  The runner's
    ``apply(op)`` raises Fail; optional ``finish()`` runs end-of-history checks."""

    def oracle(case):
        r = runner_factory()
        try:
            for op in case["ops"]:
                r.apply(unjson(op) if getattr(r, "UNJSON_OPS", False) else op)
            if hasattr(r, "finish"):
                r.finish()
        finally:
            if hasattr(r, "close"):
                r.close()

    return oracle


def make_machine(name: str, runner_factory: Callable[[], Any], rules: Dict[str, Any], initial_ops: Any = None):
    """Build a hypothesis RuleBasedStateMachine whose rules draw one plain-JSON op each and hand it to the runner.
    ``rules``: rule name -> strategy of ops, or (strategy, precondition(runner) -> bool).
    ``initial_ops``: optional strategy of a list of ops applied first (scripted prefixes).
    Used through Ctx.state_machine (which injects vp_ctx / vp_tally / vp_tolerated / vp_sub)."""
    from hypothesis import strategies as st
    from hypothesis.stateful import RuleBasedStateMachine, initialize, precondition, rule

    class _Base(RuleBasedStateMachine):
        vp_ctx: Ctx = None
        vp_tally: Tally = None
        vp_tolerated: set = set()
        vp_sub: str = ""

        def __init__(self):
            super().__init__()
            self.ops: List[Any] = []
            self.dead = False
            self.runner = runner_factory()

        def do(self, op):
            if self.dead:
                return
            self.ops.append(jsonable(op))
            fail = None
            try:
                self.runner.apply(op)
            except Fail as f0:
                fail = f0
            except Exception as e:
                if not lib_raised(e):
                    raise
                fail = Fail("no_unexpected_exception", observed=f"{type(e).__name__}: {e}", expected="no exception", klass=exc_klass(e))
            if fail is not None:
                self._failed(fail)

        def _failed(self, fail: Fail):
            self.dead = True  # model and implementation may have diverged: stop judging this history
            ctx, t, sub = self.vp_ctx, self.vp_tally, self.vp_sub
            case = tag_prelude({"ops": list(self.ops)})
            bucket = f"{sub}|{fail.clause}|{fail.klass}"
            if bucket in self.vp_tolerated:
                return
            if ctx.findings.match(ctx.prop, sub, fail, case, ctx.predicates):
                ctx.judge(sub, case, fail, t)
                return
            fail.case = case
            raise fail

        def teardown(self):
            try:
                if not self.dead and hasattr(self.runner, "finish"):
                    fail = None
                    try:
                        self.runner.finish()
                    except Fail as f0:
                        fail = f0
                    if fail is not None:
                        self._failed(fail)
                if not self.dead and self.ops and DEBUG_EVERY and digest(self.ops)[0] % DEBUG_EVERY == 0:
                    # the same history once more on a fresh runner with debug logging effective (see set_logging_mode)
                    t0 = self.vp_tally
                    if t0 is not None:
                        t0.extra["cases_rejudged_with_debug_logging"] = t0.extra.get("cases_rejudged_with_debug_logging", 0) + 1
                    fail = _judge_ops(replay_ops_oracle(runner_factory), list(self.ops), "DEBUG")
                    if fail is not None:
                        self.dead = True
                        sub, ctx = self.vp_sub, self.vp_ctx
                        case = {"ops": list(self.ops), "_logging": "DEBUG"}
                        if f"{sub}|{fail.clause}|{fail.klass}" not in self.vp_tolerated:
                            if ctx.findings.match(ctx.prop, sub, fail, case, ctx.predicates):
                                ctx.judge(sub, case, fail, t0)
                            else:
                                fail.case = case
                                raise fail
                ctx0 = self.vp_ctx
                if (not self.dead and self.ops and ctx0 is not None and ctx0.prelude_enabled and digest(self.ops)[1] % PRELUDE_EVERY == 0
                        and getattr(ctx0, "_n_prelude_sm", 0) < PRELUDE_CAP):
                    # the same history once more on a fresh runner after a prelude of unrelated library calls (see choose_prelude)
                    ctx0._n_prelude_sm = getattr(ctx0, "_n_prelude_sm", 0) + 1
                    t0 = self.vp_tally
                    if t0 is not None:
                        t0.extra["cases_rejudged_after_prelude"] = t0.extra.get("cases_rejudged_after_prelude", 0) + 1
                    run_prelude_calls(choose_prelude(ctx0, self.vp_sub, {"ops": list(self.ops)}, digest([self.vp_sub, self.ops])), ctx0.module)
                    fail = _judge_ops(replay_ops_oracle(runner_factory), list(self.ops))
                    if fail is not None:
                        self.dead = True
                        sub = self.vp_sub
                        case = tag_prelude({"ops": list(self.ops)})
                        if f"{sub}|{fail.clause}|{fail.klass}" not in self.vp_tolerated:
                            if ctx0.findings.match(ctx0.prop, sub, fail, case, ctx0.predicates):
                                ctx0.judge(sub, case, fail, t0)
                            else:
                                fail.case = case
                                raise fail
                r, t, sub = self.runner, self.vp_tally, self.vp_sub
                if t is not None and self.ops:
                    nt = bool(r.nontrivial()) if hasattr(r, "nontrivial") else len(self.ops) >= 2
                    t.case(sub, key={"ops": self.ops} if len(self.ops) <= 40 else {"ops_digest": digest(self.ops).hex(), "n_ops": len(self.ops), "first_ops": self.ops[:8]}, nontrivial=nt)
                    t.extra["history_steps"] = t.extra.get("history_steps", 0) + len(self.ops)
                    if hasattr(r, "classes"):
                        for c in r.classes():
                            t.cls(sub, c)
            finally:
                if hasattr(self.runner, "close"):
                    self.runner.close()

    ns = {}
    if initial_ops is not None:

        def _init(self, ops):
            for op in ops:
                self.do(op)

        ns["vp_initial"] = initialize(ops=initial_ops)(_init)
    for rname, spec in rules.items():
        strat, pre = spec if isinstance(spec, tuple) else (spec, None)

        def _rule(self, op):
            self.do(op)

        fn = rule(op=strat)(_rule)
        if pre is not None:
            fn = precondition(lambda self, _pre=pre: (not self.dead) and _pre(self.runner))(fn)
        ns["rule_" + rname] = fn
    return type(name, (_Base,), ns)
