"""DMR CRC conventions (ETSI TS 102 361-1 annex B.3.7 - B.3.12) on top of the GF(2) polynomial arithmetic of gf2.py.

Everything is written from the standard's text: generator polynomials as exponent lists, the "inverted remainder"
rule of CRC-CCITT and CRC-9, the data-type CRC masks of table B.21, the octet-pair swap of the 32-bit CRC.  Nothing is
imported from the library under test.  Bits are MSB-first lists/strings; the first bit of a message is the coefficient
of the highest power of x.
"""
from __future__ import annotations

import functools
from typing import Dict, List, Optional, Sequence

from . import gf2


def _poly(*exps: int) -> int:
    g = 0
    for e in exps:
        g |= 1 << e
    return g


# full generator polynomials G(x) (including the leading term)
GENERATORS: Dict[str, int] = {
    "crc7": _poly(7, 5, 2, 1, 0),  # B.3.13 7-bit CRC (reverse channel)
    "crc8": _poly(8, 2, 1, 0),  # B.3.7
    "crc9": _poly(9, 6, 4, 3, 0),  # B.3.10
    "crc16": _poly(16, 12, 5, 0),  # B.3.8 CRC-CCITT
    "crc32": _poly(32, 26, 23, 22, 16, 12, 11, 10, 8, 7, 5, 4, 2, 1, 0),  # B.3.9
}
WIDTH: Dict[str, int] = {k: gf2.deg(g) for k, g in GENERATORS.items()}

# B.3.12 data type CRC masks (table B.21), by the width of the CRC they are applied to
MASKS16 = {"PiHeader": 0x6969, "CSBK": 0xA5A5, "MBCHeader": 0xAAAA, "DataHeader": 0xCCCC, "UnifiedSingleBlockData": 0x3333}
MASKS9 = {"Rate12DataContinuation": 0x0F0, "Rate34DataContinuation": 0x1FF, "Rate1DataContinuation": 0x10F}
MASKS24 = {"VoiceLCHeader": 0x969696, "TerminatorWithLC": 0x999999}
MASKS7 = {"ReverseChannel": 0x7A}
ALL_MASKS = {**MASKS16, **MASKS9, **MASKS24, **MASKS7}


def bits_of(s) -> List[int]:
    """'0101' string or list -> list of ints"""
    return [1 if c in ("1", 1, True) else 0 for c in s]


def bytes_to_bitlist(data: bytes) -> List[int]:
    out = []
    for b in data:
        for i in range(7, -1, -1):
            out.append((b >> i) & 1)
    return out


def rem(cfg: str, bits: Sequence[int]) -> int:
    """M(x) * x^w mod G(x)"""
    g = GENERATORS[cfg]
    w = WIDTH[cfg]
    return gf2.polymod(gf2.bits_to_int(bits) << w, g)


def crc8(bits: Sequence[int]) -> int:
    """B.3.7: plain remainder, no inversion, no mask."""
    return rem("crc8", bits)


def crc9(bits: Sequence[int], mask: int) -> int:
    """B.3.10 + B.3.12: inverted remainder, then the data-type mask."""
    return ((~rem("crc9", bits)) & 0x1FF) ^ mask


def crc9_message(data: bytes, serial_number: int, crc32: Optional[bytes]) -> List[int]:
    """Confirmed data block: the data octets (for the last block followed by the four message-CRC octets), then the 7-bit
    data block serial number, MSB first."""
    bits = bytes_to_bitlist(data)
    if crc32 is not None:
        bits += bytes_to_bitlist(crc32)
    bits += gf2.int_to_bits(serial_number, 7)
    return bits


def crc16(data: bytes, mask: int) -> int:
    """B.3.8 + B.3.12: inverted remainder of the octets (MSB first), then the data-type mask."""
    return ((~rem("crc16", bytes_to_bitlist(data))) & 0xFFFF) ^ mask


def pair_swap(data: bytes) -> bytes:
    """B.3.9: octets are taken in pairs, second octet of each pair first (an unpaired last octet stays)."""
    out = bytearray(data)
    for i in range(0, len(data) - 1, 2):
        out[i], out[i + 1] = data[i + 1], data[i]
    return bytes(out)


def crc32(data: bytes) -> int:
    """B.3.9: remainder (no inversion, no mask) of the pair-swapped octets."""
    return rem("crc32", bytes_to_bitlist(pair_swap(data)))


# ------------------------------------------------------------------------------------------------ detection guarantees


def x_plus_1_divides(cfg: str) -> bool:
    return gf2.polymod(GENERATORS[cfg], 0b11) == 0


def no_binomial_multiple_below(cfg: str, n: int) -> bool:
    """True iff x^d != 1 (mod G) for every 1 <= d < n, i.e. no x^i + x^j with |i-j| < n is a multiple of G."""
    g = GENERATORS[cfg]
    r = 1
    for _ in range(1, n):
        r = gf2.polymod(r << 1, g)
        if r == 1:
            return False
    return True


@functools.lru_cache(maxsize=None)
def _guaranteed_weights(cfg: str, codeword_bits: int) -> tuple:
    """Error weights (out of 1..3) that the cyclic-code mathematics guarantees to be detected in a word of
    ``codeword_bits`` = message + CRC bits.  weight 1: G has a constant term and more than one term; weight 2: the order
    of x modulo G is at least the word length; weight 3 (any odd weight): (x+1) divides G.  Anything else is not claimed."""
    g = GENERATORS[cfg]
    out = []
    if (g & 1) and bin(g).count("1") > 1:
        out.append(1)
    if no_binomial_multiple_below(cfg, codeword_bits):
        out.append(2)
    if x_plus_1_divides(cfg):
        out.append(3)
    return tuple(out)


def guaranteed_weights(cfg: str, codeword_bits: int) -> List[int]:
    return list(_guaranteed_weights(cfg, codeword_bits))


def burst_is_guaranteed(cfg: str, burst_len: int) -> bool:
    """A burst x^i*b(x), b(0)=1, deg b = burst_len-1 < deg G, is never a multiple of G because gcd(G, x) = 1."""
    return (GENERATORS[cfg] & 1) == 1 and 1 <= burst_len <= WIDTH[cfg]


# ------------------------------------------------------------------------------------------------ steering the output


def solve_affine(f, nbits: int, target: int):
    """``f`` maps an nbits-bit window value (int) to a CRC value (int) and is affine over GF(2) (every CRC front end is:
    remainder is linear, inversion and mask are constant XORs).  Measures f on 0 and on the nbits unit windows (reference
    only), then solves f(X) == target by Gaussian elimination.  Returns X (free variables 0) or None when the target is not
    in the image."""
    c = f(0)
    basis = {}  # pivot bit -> (image vector, combination of window bits producing it)
    for i in range(nbits):
        v, comb = f(1 << i) ^ c, 1 << i
        while v:
            piv = v.bit_length() - 1
            if piv not in basis:
                basis[piv] = (v, comb)
                break
            bv, bc = basis[piv]
            v ^= bv
            comb ^= bc
    t, x = target ^ c, 0
    while t:
        piv = t.bit_length() - 1
        if piv not in basis:
            return None
        bv, bc = basis[piv]
        t ^= bv
        x ^= bc
    return x


def extreme_values(w: int) -> Dict[str, int]:
    """the output values at the edges of the w-bit range"""
    full = (1 << w) - 1
    return {"zero": 0, "all_ones": full, "one": 1, "top_bit_only": 1 << (w - 1), "all_ones_minus_1": full - 1, "top_bit_clear": full >> 1}


def self_test():
    """Reference vs values captured from real radios (quoted from ETSI-conformant equipment in the repository's tests);
    a failure here is a harness error, not a finding."""
    # Hytera CSBK / data header / PI header, 10 octets + CRC-CCITT
    assert crc16(bytes.fromhex("bd0080180008fd23383b"), MASKS16["CSBK"]) == 0xB2ED
    assert crc16(bytes.fromhex("4da323383b23383b0560"), MASKS16["DataHeader"]) == 0x8040
    assert crc16(bytes.fromhex("211002177afc73000009"), MASKS16["PiHeader"]) == 0x0DDA
    # short LC 28 bits + CRC-8
    assert crc8(bits_of("0001000000110000000011011010")) == int("10100011", 2)
    # rate 3/4 confirmed blocks
    assert crc9(crc9_message(bytes.fromhex("47004d00500054002e004a0047004100"), 17, None), MASKS9["Rate34DataContinuation"]) == 459
    assert crc9(crc9_message(bytes.fromhex("0001410048004f004a000000"), 0, bytes.fromhex("a197ccb4")), MASKS9["Rate34DataContinuation"]) == 447
    # message CRC-32 (transmitted least significant octet first)
    assert crc32(bytes.fromhex("d6790062620003bf000700000000000000000000")) == int.from_bytes(bytes.fromhex("210b9a3d"), "little")
    assert gf2.order_of_x(GENERATORS["crc16"]) == 32767
    # steering: a 16-bit window after a fixed prefix hits any CRC-CCITT value
    f = lambda x: crc16(b"\x12\x34" + x.to_bytes(2, "big") + b"\x56", MASKS16["CSBK"])
    for t in (0, 0xFFFF, 1, 0x8000):
        assert f(solve_affine(f, 16, t)) == t
