"""Independent reference encoder / decoder for Hytera HSTRP datagrams and the HDAP payloads used by C17.

Written from the frame layouts (HSTRP docstring / Hytera ADK description), not from the library's serializers:

    HSTRP   = "2B" | version(1) | type(1) | S/N(2, big endian) | options | payload
    type    = 0 0 OPT REJECT CLOSE CONNECT HEARTBEAT ACK          (most significant bit first)
    option  = more(1 bit) command(7 bits) | length(1) | data(length)        documented commands and lengths:
              1 RTP(0)  3 DeviceID(4)  4 ChannelID(1)  5 XPTSiteID(1)  6 XPTIndex(1)  7 XPTChannelType(1)
    HDAP    = service(1; bit 7 = reliable) | opcode(2) | length(2) | body(length) | checksum(1) | 0x03
    checksum= (~(sum of opcode..body) + 0x33) mod 256
    RRS     = service 0x11, opcode 00 xx, big endian length; body = radio ip(4) [result(1) renew(4) | state(1)]
    TMP     = service 0x09, opcode = flags(0x80 confirmed, 0x40 option) | service code, big endian length

Nothing in this file imports the library under test.
"""
from __future__ import annotations

from typing import List, Optional, Tuple

MAGIC = b"2B"
OPT, REJECT, CLOSE, CONNECT, HEARTBEAT, ACK = 0x20, 0x10, 0x08, 0x04, 0x02, 0x01

OPTION_LENGTHS = {1: 0, 3: 4, 4: 1, 5: 1, 6: 1, 7: 1}

RRS_SERVICE = 0x11
RRS_OFFLINE, RRS_STATUS_CHECK, RRS_REQUEST, RRS_ANSWER, RRS_STATUS_ANSWER = 0x01, 0x02, 0x03, 0x80, 0x82
TMP_SERVICE = 0x09
TMP_PRIVATE_MESSAGE, TMP_GROUP_MESSAGE = 0xA1, 0xB1


class RefDecodeError(Exception):
    pass


# ----------------------------------------------------------------------------------------------------- HSTRP


def enc_options(options: List[Tuple[int, bytes]]) -> bytes:
    out = bytearray()
    for i, (cmd, data) in enumerate(options):
        more = 0x80 if i < len(options) - 1 else 0
        out.append((cmd & 0x7F) | more)
        out.append(len(data))
        out += data
    return bytes(out)


def enc_hstrp(type_bits: int, sn: int, options: Optional[List[Tuple[int, bytes]]] = None, payload: bytes = b"", version: int = 0) -> bytes:
    """The OPT bit is set iff options are given (a datagram announcing options carries at least one)."""
    options = options or []
    t = (type_bits & ~OPT) | (OPT if options else 0)
    return MAGIC + bytes([version & 0xFF, t & 0xFF]) + bytes([(sn >> 8) & 0xFF, sn & 0xFF]) + enc_options(options) + payload


def dec_options(buf: bytes) -> Tuple[List[Tuple[int, bytes]], int]:
    """Strict parse of an option chain by the documented table.  Returns (options, octets consumed)."""
    opts = []
    i = 0
    while True:
        if i + 2 > len(buf):
            raise RefDecodeError("option header beyond end of datagram")
        cmd = buf[i] & 0x7F
        more = bool(buf[i] & 0x80)
        ln = buf[i + 1]
        if cmd not in OPTION_LENGTHS:
            raise RefDecodeError(f"undocumented option command {cmd}")
        if ln != OPTION_LENGTHS[cmd]:
            raise RefDecodeError(f"option {cmd} with length {ln}")
        if i + 2 + ln > len(buf):
            raise RefDecodeError("option data beyond end of datagram")
        opts.append((cmd, bytes(buf[i + 2 : i + 2 + ln])))
        i += 2 + ln
        if not more:
            return opts, i


def dec_hstrp(data: bytes, tolerant_options: bool = False) -> dict:
    """Decode a datagram.  ``tolerant_options``: when the OPT bit is set but what follows is not a documented option
    chain, treat the datagram as carrying no options (the RRS answer of the handler under test looks like that)."""
    if len(data) < 6:
        raise RefDecodeError("shorter than the 6-octet header")
    if data[0:2] != MAGIC:
        raise RefDecodeError("magic")
    t = data[3]
    rest = bytes(data[6:])
    options: List[Tuple[int, bytes]] = []
    used = 0
    options_malformed = False
    if t & OPT and not t & HEARTBEAT:
        if rest:
            try:
                options, used = dec_options(rest)
            except RefDecodeError:
                if not tolerant_options:
                    raise
                options, used, options_malformed = [], 0, True
    return {
        "version": data[2],
        "type": t,
        "sn": (data[4] << 8) | data[5],
        "options": options,
        "options_malformed": options_malformed,
        "payload": rest[used:],
    }


# ------------------------------------------------------------------------------------------------------ HDAP


def hdap_checksum(checked: bytes) -> int:
    return ((~(sum(checked) & 0xFF) & 0xFF) + 0x33) & 0xFF


def enc_hdap(service: int, opcode: bytes, body: bytes, reliable: bool = False, little_endian_length: bool = False) -> bytes:
    ln = len(body).to_bytes(2, "little" if little_endian_length else "big")
    checked = bytes(opcode) + ln + body
    return bytes([(service & 0x7F) | (0x80 if reliable else 0)]) + checked + bytes([hdap_checksum(checked), 0x03])


def dec_hdap(buf: bytes) -> dict:
    if len(buf) < 7:
        raise RefDecodeError("HDAP shorter than 7 octets")
    service = buf[0] & 0x7F
    ln = (buf[3] << 8) | buf[4]
    if len(buf) != 7 + ln:
        raise RefDecodeError("HDAP length field does not match")
    body = bytes(buf[5 : 5 + ln])
    if buf[5 + ln] != hdap_checksum(buf[1 : 5 + ln]):
        raise RefDecodeError("HDAP checksum")
    if buf[6 + ln] != 0x03:
        raise RefDecodeError("HDAP end marker")
    return {"service": service, "reliable": bool(buf[0] & 0x80), "opcode": bytes(buf[1:3]), "body": body}


def ip_str(ip4: bytes) -> str:
    assert len(ip4) == 4
    return ".".join(str(b) for b in ip4)


def enc_rrs(opcode: int, radio_ip: bytes, reliable: bool = False, result: int = 0, renew: int = 300, state: int = 0) -> bytes:
    assert len(radio_ip) == 4
    body = bytes(radio_ip)
    if opcode == RRS_ANSWER:
        body += bytes([result]) + renew.to_bytes(4, "big")
    elif opcode == RRS_STATUS_ANSWER:
        body += bytes([state])
    return enc_hdap(RRS_SERVICE, bytes([0x00, opcode]), body, reliable=reliable)


def dec_rrs(buf: bytes) -> dict:
    h = dec_hdap(buf)
    if h["service"] != RRS_SERVICE:
        raise RefDecodeError("not RRS")
    if h["opcode"][0] != 0:
        raise RefDecodeError("RRS opcode high octet")
    op = h["opcode"][1]
    body = h["body"]
    want = {RRS_OFFLINE: 4, RRS_STATUS_CHECK: 4, RRS_REQUEST: 4, RRS_ANSWER: 9, RRS_STATUS_ANSWER: 5}.get(op)
    if want is None or len(body) != want:
        raise RefDecodeError("RRS opcode / body length")
    out = {"opcode": op, "radio_ip": body[0:4], "reliable": h["reliable"]}
    if op == RRS_ANSWER:
        out["result"] = body[4]
        out["renew"] = int.from_bytes(body[5:9], "big")
    if op == RRS_STATUS_ANSWER:
        out["state"] = body[4]
    return out


def enc_tmp_message(group: bool, request_id: int, dest_ip: bytes, src_ip: bytes, text_raw: bytes, reliable: bool = False, confirmed: bool = True) -> bytes:
    """TMP SendPrivateMessage / SendGroupMessage without option field; ``text_raw`` are the UTF-16-LE octets as they
    go on the wire (an odd number of octets is a malformed text that a parser may still carry around as bytes)."""
    assert len(dest_ip) == 4 and len(src_ip) == 4
    body = request_id.to_bytes(4, "big") + bytes(dest_ip) + bytes(src_ip) + bytes(text_raw)
    flags = 0x80 if confirmed else 0x00
    return enc_hdap(TMP_SERVICE, bytes([flags, TMP_GROUP_MESSAGE if group else TMP_PRIVATE_MESSAGE]), body, reliable=reliable)


# ------------------------------------------------------------- other HDAP services (round 7: PDUs that carry radio addresses / ids)
#
#   RCP  = service 0x02, LITTLE endian opcode and length; LP = service 0x08, TMP = service 0x09: big endian opcode and length.
#   Every form below is one the Hytera ADK documents and whose layout the library's parser implements; ``ids`` are the 4-octet
#   address / id slots of the form exactly as they go on the wire (the caller decides which radio's octets, in which order, go
#   there), ``m`` is a small integer that selects the remaining enumerated fields from their documented values.

RCP_SERVICE, LP_SERVICE = 0x02, 0x08
_GPS = [b"A183648261015N4718.8051E01854.43870.1121", b"A" + b"\x00" * 12 + b"N5003.8771E01426.5302" + b"\x00" * 6,
        b"V101500010124S0000.0000W00000.0000" + b"\x00" * 6]
_TMP_RESULTS = [0, 1, 3, 4, 5, 6, 7, 8, 9, 10, 11, 12]


def _id(ids, i) -> bytes:
    v = bytes(ids[i % len(ids)])
    assert len(v) == 4
    return v


def _rcp_body(form: str, ids, m: int, blob: bytes) -> Tuple[int, bytes]:
    le2 = lambda v: int(v).to_bytes(2, "little")
    if form == "call_request":
        return 0x0841, bytes([m % 16]) + _id(ids, 0)
    if form == "call_reply":
        return 0x8841, bytes([m % 2])
    if form == "repeater_broadcast_transmit_status":
        return 0xB845, le2(m % 2) + le2((m // 2) % 16) + le2([0, 1, 2, 3, 4, 5, 6, 7, 0x1F][m % 9]) + le2(m % 16) + _id(ids, 0) + _id(ids, 1)
    if form == "broadcast_message_configuration_request":
        return 0x1847, bytes([m % 8, 0, 0, 0, 0, 0, 0, 0])
    if form == "broadcast_message_configuration_reply":
        return 0x8847, bytes([m % 2])
    if form == "radio_id_ip_query_request":
        return 0x0452, bytes([m % 2])
    if form == "radio_id_query_reply":
        return 0x8452, bytes([m % 2, 0]) + _id(ids, 0)
    if form == "radio_ip_query_reply":
        return 0x8452, bytes([m % 2, 1]) + _id(ids, 0)
    if form == "broadcast_status_configuration_request":
        return 0x10C9, bytes([2]) + _id(ids, 0)
    if form == "broadcast_status_configuration_reply":
        return 0x80C9, bytes([m % 2])
    if form == "send_talker_alias_request":
        alias = blob[:31]
        return 0x0852, bytes([m % 16]) + _id(ids, 0) + _id(ids, 1) + bytes([(m // 16) % 4, len(alias)]) + alias
    if form == "send_talker_alias_reply":
        return 0x8852, bytes([m % 2, (m // 2) % 16]) + _id(ids, 0) + _id(ids, 1)
    if form == "zone_and_channel_operation_request":
        return 0x00C4, bytes([m % 2]) + _id(ids, 0)
    if form == "zone_and_channel_operation_reply":
        return 0x80C4, _id(ids, 0) + _id(ids, 1) + _id(ids, 0)
    if form == "status_change_notification_request":
        return 0x10C7, bytes([2]) + _id(ids, 0)
    if form == "status_change_notification_reply":
        return 0x80C7, bytes([m % 2])
    if form == "radio_status_report":
        return 0xB0C8, bytes([m % 0x1C]) + _id(ids, 0)[:2]
    if form == "unassigned_opcode":  # an opcode the ADK does not assign: carried through as opaque octets
        return [0x7777, 0x0001, 0xFFFE, 0x5284][m % 4], _id(ids, 0) + blob + _id(ids, 1)
    raise ValueError(form)


RCP_FORMS = ["call_request", "call_reply", "repeater_broadcast_transmit_status", "broadcast_message_configuration_request",
             "broadcast_message_configuration_reply", "radio_id_ip_query_request", "radio_id_query_reply", "radio_ip_query_reply",
             "broadcast_status_configuration_request", "broadcast_status_configuration_reply", "send_talker_alias_request",
             "send_talker_alias_reply", "zone_and_channel_operation_request", "zone_and_channel_operation_reply",
             "status_change_notification_request", "status_change_notification_reply", "radio_status_report", "unassigned_opcode"]


def enc_rcp(form: str, ids, m: int = 0, blob: bytes = b"", reliable: bool = False) -> bytes:
    opcode, body = _rcp_body(form, ids, m, blob)
    return enc_hdap(RCP_SERVICE, opcode.to_bytes(2, "little"), body, reliable=reliable, little_endian_length=True)


LP_FORMS = ["standard_request", "standard_report"]


def enc_lp(form: str, ids, m: int = 0, reliable: bool = False) -> bytes:
    """request id = second id slot, radio ip = first id slot"""
    if form == "standard_request":
        return enc_hdap(LP_SERVICE, b"\xa0\x01", _id(ids, 1) + _id(ids, 0), reliable=reliable)
    if form == "standard_report":
        return enc_hdap(LP_SERVICE, b"\xa0\x02", _id(ids, 1) + _id(ids, 0) + [0, 6, 105][m % 3].to_bytes(2, "big") + _GPS[(m // 3) % len(_GPS)], reliable=reliable)
    raise ValueError(form)


TMP_FORMS = {"private_message": 0xA1, "private_message_ack": 0xA2, "group_message": 0xB1, "group_message_ack": 0xB2, "private_short_data": 0xAE,
             "private_short_data_ack": 0xAF, "group_short_data": 0xBE, "group_short_data_ack": 0xBF,
             "work_order_request": 0xAC, "work_order_reply": 0xAD, "work_order_report": 0xAA, "work_order_report_reply": 0xAB}


def enc_tmp(form: str, ids, m: int = 0, blob: bytes = b"", option: Optional[bytes] = None, reliable: bool = False, confirmed: bool = False) -> bytes:
    """Any TMP / SDMP service: body = [option length(2)] request id(4) destination(4) [source(4)] (text | short data | result) [option data];
    destination = first id slot, source = second, request id = third (= first when fewer are given)"""
    code = TMP_FORMS[form]
    body = _id(ids, 2) + _id(ids, 0)
    if form in ("group_message_ack", "group_short_data_ack"):
        body += bytes([_TMP_RESULTS[m % len(_TMP_RESULTS)]])
    else:
        body += _id(ids, 1)
        if form.endswith("_ack"):
            body += bytes([_TMP_RESULTS[m % len(_TMP_RESULTS)]])
        else:
            body += blob
    flags = (0x80 if confirmed else 0) | (0x40 if option is not None else 0)
    if option is not None:
        body = len(option).to_bytes(2, "big") + body + option
    return enc_hdap(TMP_SERVICE, bytes([flags, code]), body, reliable=reliable)
