"""GF(2^8) modulo x^8+x^4+x^3+x^2+1 and the Reed-Solomon (12,9) code of ETSI TS 102 361-1 B.3.6, written from the
mathematics (shift-and-add multiplication, generator polynomial built from its roots alpha^1..alpha^3, alpha = x = 2).
No tables, nothing copied from the library.

Word orientation (worked out from the standard and confirmed on captured full-LC words): octet 0 of a 12-octet word is the
coefficient of x^11, octet 11 the coefficient of x^0; the message occupies x^11..x^3, the parity x^2..x^0.
"""
from __future__ import annotations

from typing import List, Sequence

PRIM = 0x11D  # x^8 + x^4 + x^3 + x^2 + 1
ALPHA = 2
N, K = 12, 9


def mul(a: int, b: int) -> int:
    """carry-less shift-and-add product reduced modulo PRIM"""
    r = 0
    while b:
        if b & 1:
            r ^= a
        b >>= 1
        a <<= 1
        if a & 0x100:
            a ^= PRIM
    return r


def power(a: int, n: int) -> int:
    r = 1
    for _ in range(n):
        r = mul(r, a)
    return r


def poly_eval(coeffs_high_first: Sequence[int], x: int) -> int:
    """Horner evaluation; coeffs[0] is the highest-degree coefficient."""
    acc = 0
    for c in coeffs_high_first:
        acc = mul(acc, x) ^ c
    return acc


def poly_mul(p: Sequence[int], q: Sequence[int]) -> List[int]:
    out = [0] * (len(p) + len(q) - 1)
    for i, a in enumerate(p):
        for j, b in enumerate(q):
            out[i + j] ^= mul(a, b)
    return out


def generator() -> List[int]:
    """g(x) = (x - alpha)(x - alpha^2)(x - alpha^3), high coefficient first (characteristic 2: minus == plus)."""
    g = [1]
    for j in (1, 2, 3):
        g = poly_mul(g, [1, power(ALPHA, j)])
    return g


def syndromes(word: Sequence[int]) -> List[int]:
    """[c(alpha^1), c(alpha^2), c(alpha^3)] of a 12-octet word (octet 0 = coefficient of x^11)."""
    return [poly_eval(word, power(ALPHA, j)) for j in (1, 2, 3)]


def poly_rem(num_high_first: Sequence[int], g: Sequence[int]) -> List[int]:
    """remainder of num modulo the monic polynomial g (long division), len(g)-1 coefficients, high first"""
    assert g[0] == 1
    r = list(num_high_first)
    d = len(g) - 1
    for i in range(len(r) - d):
        c = r[i]
        if c:
            for j in range(1, len(g)):
                r[i + j] ^= mul(c, g[j])
            r[i] = 0
    return r[-d:]


def rs_parity(msg: Sequence[int]) -> List[int]:
    """parity octets (x^2, x^1, x^0 coefficients) of the systematic encoder: m(x) x^3 mod g(x)"""
    assert len(msg) == K
    return poly_rem(list(msg) + [0, 0, 0], generator())


def division_trace(msg: Sequence[int]):
    """The same division done symbol by symbol (shift register of three stages, top stage first).  Returns (parity,
    steps) where ``steps`` lists the positions i >= 1 at which the quotient symbol (msg[i] + top stage) is 0 although the
    register is not empty - a class of messages single-symbol basis words never reach."""
    g = generator()
    reg = [0, 0, 0]
    steps = []
    for i, d in enumerate(msg):
        q = d ^ reg[0]
        if q == 0 and any(reg):
            steps.append(i)
        reg = [reg[1] ^ mul(q, g[1]), reg[2] ^ mul(q, g[2]), mul(q, g[3])]
    return reg, steps


def register_top_after(prefix: Sequence[int]) -> int:
    """top stage of the division register after the given message prefix"""
    return poly_rem(list(prefix) + [0, 0, 0], generator())[0] if prefix else 0


def rs_encode(msg: Sequence[int], mask: Sequence[int] = (0, 0, 0)) -> List[int]:
    par = rs_parity(msg)
    return list(msg) + [p ^ m for p, m in zip(par, mask)]


def unmask(word: Sequence[int], mask: Sequence[int]) -> List[int]:
    w = list(word)
    for i in range(3):
        w[K + i] ^= mask[i]
    return w


def is_codeword(word: Sequence[int], mask: Sequence[int] = (0, 0, 0)) -> bool:
    return len(word) == N and syndromes(unmask(word, mask)) == [0, 0, 0]


def inv(a: int) -> int:
    assert a != 0
    return power(a, 254)


def solve_linear(cols: Sequence[Sequence[int]], rhs: Sequence[int]):
    """x with sum_j x[j] * cols[j] == rhs over GF(2^8) (n columns of length n, Gauss-Jordan); None if singular."""
    n = len(rhs)
    a = [[cols[j][i] for j in range(n)] + [rhs[i]] for i in range(n)]
    for c in range(n):
        piv = next((r for r in range(c, n) if a[r][c]), None)
        if piv is None:
            return None
        a[c], a[piv] = a[piv], a[c]
        k = inv(a[c][c])
        a[c] = [mul(k, v) for v in a[c]]
        for r in range(n):
            if r != c and a[r][c]:
                f = a[r][c]
                a[r] = [v ^ mul(f, u) for v, u in zip(a[r], a[c])]
    return [a[i][n] for i in range(n)]


def steer_parity(msg: Sequence[int], positions: Sequence[int], want: Sequence[int]) -> List[int]:
    """Copy of the 9-symbol message with the symbols at three positions replaced so that rs_parity(result) == want
    (parity is GF(2^8)-linear in the message; any three rows of the parity part of an MDS generator matrix are independent)."""
    assert len(set(positions)) == 3
    base = list(msg)
    for p in positions:
        base[p] = 0
    rhs = [x ^ y for x, y in zip(want, rs_parity(base))]
    cols = []
    for p in positions:
        e = [0] * K
        e[p] = 1
        cols.append(rs_parity(e))
    x = solve_linear(cols, rhs)
    assert x is not None, "three parity columns are dependent - not an MDS code?"
    for p, v in zip(positions, x):
        base[p] = v
    assert rs_parity(base) == list(want)
    return base


def self_test():
    g = generator()
    assert g == [1, 14, 56, 64], g  # the standard prints g(x) = x^3 + 14 x^2 + 56 x + 64; here it is derived from the roots
    assert power(ALPHA, 255) == 1 and all(power(ALPHA, d) != 1 for d in (1, 3, 5, 15, 17, 51, 85))  # alpha is primitive
    # full LC words captured from real radios (voice LC header mask 0x969696, terminator mask 0x999999)
    for hexword, mask in (("0300002635a903d475cb8795", 0x969696), ("03000003d4752635a960e206", 0x999999)):
        w = list(bytes.fromhex(hexword))
        assert is_codeword(w, list(mask.to_bytes(3, "big"))), hexword
        assert rs_encode(w[:9], list(mask.to_bytes(3, "big"))) == w
    for m in ([1, 14, 0, 0, 0, 0, 0, 0, 0], [7, 200, 3, 0, 90, 1, 2, 3, 4]):
        assert division_trace(m)[0] == rs_parity(m)
    assert division_trace([1, 14, 0, 0, 0, 0, 0, 0, 0])[1] == [1] and register_top_after([1]) == 14
    assert all(mul(a, inv(a)) == 1 for a in range(1, 256))
    assert rs_parity(steer_parity([1, 2, 3, 4, 5, 6, 7, 8, 9], (0, 4, 8), [255, 255, 255])) == [255, 255, 255]
    # any 3 positions: the 3x3 matrix [alpha^(j*e_i)] is Vandermonde in distinct non-zero alpha^e_i -> every error of
    # 1..3 symbols has a non-zero syndrome; spot-check one pattern
    assert syndromes([0, 0, 5, 0, 0, 0, 0, 9, 0, 0, 0, 1]) != [0, 0, 0]
