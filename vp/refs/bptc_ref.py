"""Reference BPTC(196,96) encoder written from ETSI TS 102 361-1 B.1.1 (matrix + closed-form interleaver),
and closed-form layouts of the variable-length BPTCs (B.2).  Uses only vp.refs.gf2."""
from __future__ import annotations

from typing import List

from . import gf2


def bptc196_matrix(msg96: List[int]) -> List[List[int]]:
    """13x15 matrix: rows 0..8 carry R2,R1,R0,I95..I0 (row-major, 11 per row) + Hamming(15,11,3) row parity; rows 9..12
    are Hamming(13,9,3) column parity."""
    assert len(msg96) == 96
    info = [0, 0, 0] + [int(b) for b in msg96]
    m = [[0] * 15 for _ in range(13)]
    for r in range(9):
        row = gf2.ref_encode("hamming_15_11_3", info[r * 11 : (r + 1) * 11])
        m[r] = row
    for c in range(15):
        col = gf2.ref_encode("hamming_13_9_3", [m[r][c] for r in range(9)])
        for r in range(13):
            m[r][c] = col[r]
    return m


def bptc196_position(k: int) -> int:
    """transmit position of matrix index k (1..195, row-major); index 0 is R3"""
    return (k * 181) % 196


def bptc196_encode(msg96: List[int]) -> List[int]:
    m = bptc196_matrix(msg96)
    out = [0] * 196
    for k in range(1, 196):
        r, c = divmod(k - 1, 15)
        out[bptc196_position(k)] = m[r][c]
    return out


def bptc196_info_positions() -> List[int]:
    """transmit positions of the 96 info bits in message order"""
    pos = []
    for r in range(9):
        for c in range(11):
            if r == 0 and c < 3:
                continue
            pos.append(bptc196_position(r * 15 + c + 1))
    return pos


# ------------------------------------------------------------------------------------------------------------------
# Variable-length BPTCs (ETSI TS 102 361-1 B.2.1 embedded LC 128/72, B.2.3 CACH short LC 68/28, B.2.2 single burst
# 32/11).  Closed-form layouts; nothing is copied from the library's INTERLEAVING_INDICES tables.  The layouts (and the
# checksum bit placement) were validated against on-air captures that the repository's tests carry: 8 embedded-LC
# fragments of okdmr/tests/dmrlib/etsi/layer2/pdu/test_full_link_control.py (+1 in fec/test_vbptc_128_72.py), 2 distinct
# short-LC captures of fec/test_vbptc_68_36.py and the single-burst capture of fec/test_vbptc_32_11.py: every one of
# them is a complete codeword of the functions below (rows, columns, checksum).


def cs5(msg72: List[int]) -> int:
    """B.3.11 5-bit checksum: sum of the nine LC octets modulo 31."""
    assert len(msg72) == 72
    return sum(gf2.bits_to_int(msg72[i * 8 : i * 8 + 8]) for i in range(9)) % 31


def crc8(bits: List[int]) -> int:
    """B.3.7 CRC-8, G(x) = x^8 + x^2 + x + 1, no inversion, no mask (short LC)."""
    return gf2.crc_rem(bits, 8, 0x07)


def vbptc128_position(row: int, col: int) -> int:
    """transmit position of matrix cell (row 0..7, col 0..15): the 8x16 matrix is sent column by column"""
    return col * 8 + row


def vbptc128_matrix(msg72: List[int]) -> List[List[int]]:
    """8x16: rows 0,1 carry 11 LC bits, rows 2..6 carry 10 LC bits + one checksum bit (CS4 in row 2 ... CS0 in row 6,
    column 10), each followed by 5 Hamming(16,11,4) bits; row 7 is even column parity."""
    m = [int(b) for b in msg72]
    cs = gf2.int_to_bits(cs5(m), 5)  # CS4..CS0
    data_rows = [m[0:11], m[11:22]]
    for i in range(5):
        data_rows.append(m[22 + 10 * i : 32 + 10 * i] + [cs[i]])
    rows = [gf2.ref_encode("hamming_16_11_4", r) for r in data_rows]
    rows.append([sum(rows[r][c] for r in range(7)) & 1 for c in range(16)])
    return rows


def vbptc128_encode(msg72: List[int]) -> List[int]:
    mat = vbptc128_matrix(msg72)
    out = [0] * 128
    for r in range(8):
        for c in range(16):
            out[vbptc128_position(r, c)] = mat[r][c]
    return out


def vbptc128_to_matrix(tx128: List[int]) -> List[List[int]]:
    return [[int(tx128[vbptc128_position(r, c)]) for c in range(16)] for r in range(8)]


def vbptc128_checksum_dependent_positions() -> List[int]:
    """transmit positions whose value depends on the (non-linear) checksum: CS cells, the Hamming bits of rows 2..6 and the
    column parity of columns 10..15"""
    pos = set()
    for r in range(2, 7):
        for c in range(10, 16):
            pos.add(vbptc128_position(r, c))
    for c in range(10, 16):
        pos.add(vbptc128_position(7, c))
    return sorted(pos)


def vbptc68_position(row: int, col: int) -> int:
    """4x17 matrix sent column by column"""
    return col * 4 + row


def vbptc68_matrix(msg28: List[int]) -> List[List[int]]:
    """4x17: rows 0,1 carry 12 info bits, row 2 carries the last 4 info bits + CRC-8 (CR7 first); each row is followed by
    5 Hamming(17,12,3) bits; row 3 is even column parity."""
    m = [int(b) for b in msg28]
    assert len(m) == 28
    cr = gf2.int_to_bits(crc8(m), 8)
    data_rows = [m[0:12], m[12:24], m[24:28] + cr]
    rows = [gf2.ref_encode("hamming_17_12_3", r) for r in data_rows]
    rows.append([sum(rows[r][c] for r in range(3)) & 1 for c in range(17)])
    return rows


def vbptc68_encode(msg28: List[int]) -> List[int]:
    mat = vbptc68_matrix(msg28)
    out = [0] * 68
    for r in range(4):
        for c in range(17):
            out[vbptc68_position(r, c)] = mat[r][c]
    return out


def vbptc68_to_matrix(tx68: List[int]) -> List[List[int]]:
    return [[int(tx68[vbptc68_position(r, c)]) for c in range(17)] for r in range(4)]


def vbptc32_position(row: int, col: int) -> int:
    """2x16 matrix: the code row occupies the even transmit positions in column order, the parity row the odd positions,
    rotated by eight columns so that a bit and its parity bit are 17 positions apart (position = 2*col + 17 mod 32)"""
    return 2 * col if row == 0 else (2 * col + 17) % 32


def vbptc32_matrix(msg11: List[int], even: bool = True) -> List[List[int]]:
    m = [int(b) for b in msg11]
    assert len(m) == 11
    row = gf2.ref_encode("hamming_16_11_4", m)
    return [row, [b if even else b ^ 1 for b in row]]


def vbptc32_encode(msg11: List[int], even: bool = True) -> List[int]:
    mat = vbptc32_matrix(msg11, even)
    out = [0] * 32
    for r in range(2):
        for c in range(16):
            out[vbptc32_position(r, c)] = mat[r][c]
    return out


def vbptc32_to_matrix(tx32: List[int]) -> List[List[int]]:
    return [[int(tx32[vbptc32_position(r, c)]) for c in range(16)] for r in range(2)]
