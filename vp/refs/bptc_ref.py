"""Reference BPTC(196,96) encoder written from ETSI TS 102 361-1 B.1.1 (matrix + closed-form interleaver),
and closed-form layouts of the variable-length BPTCs (B.2).  Uses only vp.refs.gf2."""
from __future__ import annotations

from typing import List

from . import gf2


def bptc196_matrix(msg96: List[int]) -> List[List[int]]:
    """13x15 matrix: rows 0..8 carry R2,R1,R0,I95..I0 (row-major, 11 per row) + Hamming(15,11,3) row parity; rows 9..12
    are Hamming(13,9,3) column parity."""
    assert len(msg96) == 96
    info = [0, 0, 0] + [int(b) for b in msg96]
    m = [[0] * 15 for _ in range(13)]
    for r in range(9):
        row = gf2.ref_encode("hamming_15_11_3", info[r * 11 : (r + 1) * 11])
        m[r] = row
    for c in range(15):
        col = gf2.ref_encode("hamming_13_9_3", [m[r][c] for r in range(9)])
        for r in range(13):
            m[r][c] = col[r]
    return m


def bptc196_position(k: int) -> int:
    """transmit position of matrix index k (1..195, row-major); index 0 is R3"""
    return (k * 181) % 196


def bptc196_encode(msg96: List[int]) -> List[int]:
    m = bptc196_matrix(msg96)
    out = [0] * 196
    for k in range(1, 196):
        r, c = divmod(k - 1, 15)
        out[bptc196_position(k)] = m[r][c]
    return out


def bptc196_info_positions() -> List[int]:
    """transmit positions of the 96 info bits in message order"""
    pos = []
    for r in range(9):
        for c in range(11):
            if r == 0 and c < 3:
                continue
            pos.append(bptc196_position(r * 15 + c + 1))
    return pos
