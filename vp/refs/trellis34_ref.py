"""Reference encoder for the rate 3/4 trellis code of ETSI TS 102 361-1 B.2.4, written from the structure of the code
(used by C01's layout clause; imports nothing from the library).

  144 bits -> 48 tribits + one flushing tribit 0
  finite-state machine: state = previous tribit (initially 0), output = one of 16 constellation points
  constellation point -> pair of dibit symbols (+3,+1,-1,-3), 98 dibits in total
  block interleaver over the 98 dibits, dibit -> 2 bits (01 +3, 00 +1, 10 -1, 11 -3), 196 bits

The tables of the standard are expressed by their structure instead of being typed in:
* state transition table (B.7): row 0 is the 4-bit bit-reversal of the tribit; the rows of the other states are cyclic
  rotations of row 0 (states 1,6,7: by 2,4,6 positions) or of row 0 + 1 (states 2,3,4,5: by 0,2,4,6 positions);
* interleaver (B.9): dibit pairs are read from a matrix with four rows of pairs: pairs 0,4,8,...,48 then 1,5,...,45,
  then 2,6,...,46, then 3,7,...,47;
* constellation (B.8): generated from the two coordinate lists below.
Validated offline against the three captured rate-3/4 blocks of okdmr/tests/dmrlib/etsi/fec/test_trellis.py (147
transitions): `selfcheck()`.
"""
from __future__ import annotations

from typing import List


def _bitrev4(v: int) -> int:
    return ((v & 1) << 3) | ((v & 2) << 1) | ((v & 4) >> 1) | ((v & 8) >> 3)


_ROW0 = [_bitrev4(t) for t in range(8)]
# state -> (offset added to row 0, left rotation)
_ROW_SHAPE = {0: (0, 0), 1: (0, 2), 2: (1, 0), 3: (1, 2), 4: (1, 4), 5: (1, 6), 6: (0, 4), 7: (0, 6)}


def transition(state: int, tribit: int) -> int:
    add, rot = _ROW_SHAPE[state]
    return _ROW0[(tribit + rot) % 8] + add


# constellation point -> (first dibit symbol, second dibit symbol); figure B.20 / table B.8
_POINT_I = [+1, -1, +3, -3, -3, +3, -1, +1, -3, +3, -1, +1, +1, -1, +3, -3]
_POINT_Q = [-1, -1, -3, -3, -1, -1, -3, -3, +3, +3, +1, +1, +3, +3, +1, +1]
_SYMBOL_BITS = {+3: (0, 1), +1: (0, 0), -1: (1, 0), -3: (1, 1)}

# interleaver: output position i takes de-interleaved dibit INTERLEAVE[i]
INTERLEAVE: List[int] = [8 * k + off + b for off, n in ((0, 13), (2, 12), (4, 12), (6, 12)) for k in range(n) for b in (0, 1)]
assert sorted(INTERLEAVE) == list(range(98))


def encode(bits144) -> List[int]:
    bits = [int(b) for b in bits144]
    assert len(bits) == 144
    tribits = [(bits[i] << 2) | (bits[i + 1] << 1) | bits[i + 2] for i in range(0, 144, 3)] + [0]
    state, dibits = 0, []
    for t in tribits:
        p = transition(state, t)
        dibits += [_POINT_I[p], _POINT_Q[p]]
        state = t
    out: List[int] = []
    for i in range(98):
        out += _SYMBOL_BITS[dibits[INTERLEAVE[i]]]
    return out


_CAPTURES = {
    "0010100000101111111000101011010111010010111111110010001011100010011101100010111100111110110100100111001000101110111110100001001000100010011100101111101100101111001000101001011100100010111101110010": "006200014100480019804a00200054004100",
    "0010010011110110110100100011111111100010001101010010001000010010101011101101001001111111110100100110100011100010111100100001001011111010111000101111000001111000001000100100011100101111100001110010": "02f24400590020004d004100520045004b00",
    "0010001100100010001000100010001000100010101011000010110111110010001000100010001000100010000100001101011100100010001000100010001000100010101001000000100100100010001000100010001000100010001010100110": "0538000000000000000000000000f486aed8",
}


def selfcheck() -> bool:
    for on_air, data in _CAPTURES.items():
        v = int(data, 16)
        bits = [(v >> (143 - i)) & 1 for i in range(144)]
        if "".join(map(str, encode(bits))) != on_air:
            return False
    return len({transition(s, t) for s in range(8) for t in range(8)}) == 16 and all(
        len({transition(s, t) for t in range(8)}) == 8 for s in range(8)
    )
