"""Independent reference for the Hytera transport / application framing (C12) and the 72-octet IP Site Connect frame (C13).

Written from the frame descriptions (docstrings of hdap.py / hrnp.py / hstrp.py / hytera_ipsc_sync.py and the kaitai specs
hytera_dmr_application_protocol.ksy, hytera_radio_network_protocol.ksy, hytera_simple_transport_reliability_protocol.ksy,
ip_site_connect_protocol.ksy of the separately installed package okdmr.kaitai), NOT from the library's serialisers.
``selfcheck()`` dissects byte strings *captured from real equipment* (copied from the repository's tests / docstrings) and
re-assembles them with the encoders below; every capture must be reproduced octet for octet.  Nothing here imports okdmr.

Layouts
-------
HDAP   | service (bit7 = reliable, bits6..0 = service type) | opcode (2) | payload length (2, protocol endianness: big for
       | RRS/LP/TMP, little for RCP) | payload | checksum | 0x03 |
       checksum = (~(sum of the octets opcode..end of payload) + 0x33) & 0xFF   (the service octet is NOT included)
HRNP   | 0x7E | version | block | opcode | source | destination | packet number (2 BE) | total length incl. the 12 header
       | octets (2 BE) | checksum (2 BE) | data |
       checksum = ones-complement of the ones-complement sum of all big-endian 16-bit words of the packet with the checksum
       field taken as zero (odd length padded with one 0x00)
HSTRP  | "2B" | version | type bits 00 O R C N H A (option, reject, close, connect, heartbeat, ack) | sequence (2 BE) |
       | options: (bit7 = another option follows | 7-bit command) (1) length (1) data (length) ... | payload |
IPSC   72 octets, see ipsc_frame()
"""
from __future__ import annotations

from typing import Dict, List, Optional, Sequence, Tuple

HDAP_END = 0x03
SERVICE = {"RCP": 0x02, "LP": 0x08, "TMP": 0x09, "RRS": 0x11}
ENDIAN = {"RCP": "little", "LP": "big", "TMP": "big", "RRS": "big"}


class RefError(Exception):
    pass


# ------------------------------------------------------------------------------------------------------------- HDAP


def hdap_checksum(span: bytes) -> int:
    return (~sum(span) + 0x33) & 0xFF


def hdap_frame(proto: str, reliable: bool, opcode: bytes, payload: bytes) -> bytes:
    assert len(opcode) == 2
    body = bytes(opcode) + len(payload).to_bytes(2, ENDIAN[proto]) + bytes(payload)
    return bytes([SERVICE[proto] | (0x80 if reliable else 0)]) + body + bytes([hdap_checksum(body), HDAP_END])


def hdap_dissect(frame: bytes, proto: Optional[str] = None) -> Dict:
    """Split a frame; raises RefError naming the first framing rule that does not hold."""
    if len(frame) < 7:
        raise RefError("shorter_than_7_octets")
    svc = frame[0] & 0x7F
    names = [k for k, v in SERVICE.items() if v == svc]
    if not names:
        raise RefError("unknown_service_octet")
    p = names[0]
    if proto is not None and p != proto:
        raise RefError("service_octet")
    length = int.from_bytes(frame[3:5], ENDIAN[p])
    if length != len(frame) - 7:
        raise RefError("length_field_equals_payload_octets")
    if frame[-1] != HDAP_END:
        raise RefError("terminator_0x03")
    if frame[-2] != hdap_checksum(frame[1:-2]):
        raise RefError("checksum")
    return {"proto": p, "reliable": bool(frame[0] & 0x80), "opcode": frame[1:3], "length": length, "payload": frame[5:-2], "checksum": frame[-2]}


# ------------------------------------------------- payload layouts of the big-endian services (kaitai specs + captures)


def radio_ip(subnet: int, radio_id: int) -> bytes:
    """radio_ip.ksy: first IPv4 octet (subnet) + 24-bit radio id, network order"""
    return bytes([subnet]) + radio_id.to_bytes(3, "big")


def rrs_payload(op: int, subnet: int, radio_id: int, result: int = 0, valid_time: int = 0, state: int = 0) -> bytes:
    """radio_registration_service.ksy: radio_ip | result u1 (0x80 ack / 0x82 online check ack) | valid_time u4be (0x80)"""
    out = radio_ip(subnet, radio_id)
    if op == 0x80:
        out += bytes([result]) + valid_time.to_bytes(4, "big")
    elif op == 0x82:
        out += bytes([state])
    return out


def gps_block(valid: str, hms, dmy, ns: str, lat_1e4: int, ew: str, lon_1e4: int, speed_text, course: int) -> bytes:
    """gpsdata.ksy, 40 characters: status(1) HHMMSS(6) DDMMYY(6) N/S(1) DDMM.MMMM(9) E/W(1) DDDMM.MMMM(10) speed(3) azimuth(3).
    Absent time / date / speed / azimuth are NUL filled (capture 2 of test_lp.py).  Numeric text is zero padded to the field
    width (NMEA 0183 convention; capture 1 shows 01854.4387).  lat/lon are given in 1/10000 minute units."""
    t = b"\x00" * 6 if hms is None else b"%02d%02d%02d" % tuple(hms)
    d = b"\x00" * 6 if dmy is None else b"%02d%02d%02d" % (dmy[0], dmy[1], dmy[2] % 100)
    lat = b"%04d.%04d" % divmod(lat_1e4, 10000)
    lon = b"%05d.%04d" % divmod(lon_1e4, 10000)
    sp = b"\x00" * 3 if speed_text is None else speed_text.encode("ascii")
    az = b"\x00" * 3 if not course else b"%03d" % course
    out = valid.encode("ascii") + t + d + ns.encode("ascii") + lat + ew.encode("ascii") + lon + sp + az
    assert len(lat) == 9 and len(lon) == 10
    return out


def lp_payload(op: int, request_id: int, subnet: int, radio_id: int, result: int = 0, gps: bytes = b"") -> bytes:
    """location_protocol.ksy standard_request / standard_answer: request_id u4be | radio_ip | (result u2be | gpsdata)"""
    out = request_id.to_bytes(4, "big") + radio_ip(subnet, radio_id)
    if op == 0xA002:
        out += result.to_bytes(2, "big") + gps
    return out


def tmp_payload(op: int, request_id: int, dst, src=None, body: bytes = b"", option=None) -> bytes:
    """text_message_protocol.ksy: (option_field_len u2be) | request_id u4be | destination radio_ip | source radio_ip (absent in
    the group acks) | result u1 (acks) or UTF-16LE text / short data | option field.  dst/src = (subnet, id)."""
    out = b"" if option is None else len(option).to_bytes(2, "big")
    out += request_id.to_bytes(4, "big") + radio_ip(*dst)
    if src is not None:
        out += radio_ip(*src)
    return out + bytes(body) + (b"" if option is None else bytes(option))


# ------------------------------------------------------------------------------------------------------------- HRNP

HRNP_OPCODES = {"CONNECT": 0xFE, "ACCEPT": 0xFD, "REJECT": 0xFC, "CLOSE": 0xFB, "CLOSE_ACK": 0xFA, "DATA": 0x00, "DATA_ACK": 0x10}


def ones_complement_checksum(packet_with_zero_checksum: bytes) -> int:
    b = bytes(packet_with_zero_checksum)
    if len(b) % 2:
        b += b"\x00"
    total = 0
    for i in range(0, len(b), 2):
        total += (b[i] << 8) | b[i + 1]
    while total > 0xFFFF:
        total = (total & 0xFFFF) + (total >> 16)
    return (~total) & 0xFFFF


def hrnp_frame(version: int, block: int, opcode: int, source: int, destination: int, packet_number: int, data: bytes = b"") -> bytes:
    total = 12 + len(data)
    head = bytes([0x7E, version, block, opcode, source, destination]) + packet_number.to_bytes(2, "big") + total.to_bytes(2, "big")
    cs = ones_complement_checksum(head + b"\x00\x00" + bytes(data))
    return head + cs.to_bytes(2, "big") + bytes(data)


def hrnp_dissect(frame: bytes) -> Dict:
    if len(frame) < 12:
        raise RefError("shorter_than_12_octets")
    if frame[0] != 0x7E:
        raise RefError("header_0x7e")
    total = int.from_bytes(frame[8:10], "big")
    if total != len(frame):
        raise RefError("length_field_equals_total_octets")
    cs = int.from_bytes(frame[10:12], "big")
    if cs != ones_complement_checksum(frame[:10] + b"\x00\x00" + frame[12:]):
        raise RefError("checksum")
    return {"version": frame[1], "block": frame[2], "opcode": frame[3], "source": frame[4], "destination": frame[5],
            "packet_number": int.from_bytes(frame[6:8], "big"), "length": total, "checksum": cs, "data": frame[12:]}


# ------------------------------------------------------------------------------------------------------------ HSTRP

HSTRP_FLAGS = ("have_options", "is_reject", "is_close", "is_connect", "is_heartbeat", "is_ack")  # 0x20 .. 0x01
HSTRP_OPTION_TYPES = {"RTP": 1, "DeviceID": 3, "ChannelID": 4, "XPTSiteID": 5, "XPTIndex": 6, "XPTChannelType": 7}


def hstrp_type_octet(flags: Dict[str, bool]) -> int:
    v = 0
    for i, name in enumerate(HSTRP_FLAGS):
        if flags.get(name):
            v |= 0x20 >> i
    return v


def hstrp_options(options: Sequence[Tuple[int, bytes]]) -> bytes:
    out = b""
    for i, (cmd, data) in enumerate(options):
        more = i < len(options) - 1
        out += bytes([(cmd & 0x7F) | (0x80 if more else 0), len(data)]) + bytes(data)
    return out


def hstrp_frame(version: int, flags: Dict[str, bool], sn: int, options: Sequence[Tuple[int, bytes]] = (), payload: bytes = b"") -> bytes:
    return b"2B" + bytes([version, hstrp_type_octet(flags)]) + sn.to_bytes(2, "big") + hstrp_options(options) + bytes(payload)


def hstrp_dissect(frame: bytes) -> Dict:
    if len(frame) < 6 or frame[0:2] != b"2B":
        raise RefError("header_2B")
    t = frame[3]
    flags = {name: bool(t & (0x20 >> i)) for i, name in enumerate(HSTRP_FLAGS)}
    idx = 6
    options: List[Tuple[int, bytes]] = []
    if flags["have_options"] and not flags["is_heartbeat"]:
        while True:
            if idx + 2 > len(frame):
                raise RefError("option_chain_truncated")
            more, cmd, ln = bool(frame[idx] & 0x80), frame[idx] & 0x7F, frame[idx + 1]
            if idx + 2 + ln > len(frame):
                raise RefError("option_chain_truncated")
            options.append((cmd, frame[idx + 2 : idx + 2 + ln]))
            idx += 2 + ln
            if not more:
                break
    return {"version": frame[2], "flags": flags, "sn": int.from_bytes(frame[4:6], "big"), "options": options, "payload": frame[idx:]}


# ------------------------------------------------------------------------------------------------------------- IPSC

IPSC_PACKET_TYPES = {"PIHeader": 0x01, "TypeA": 0x41, "TypeB": 0x42, "TerminatorWithLC": 0x43}
IPSC_SLOT_TYPES = {
    "PrivacyIndicator": 0x0000, "VoiceLCHeader": 0x1111, "TerminatorWithLC": 0x2222, "CSBK": 0x3333, "DataHeader": 0x4444,
    "Rate12Data": 0x5555, "Rate34Data": 0x6666, "VoiceFrameA": 0x7777, "VoiceFrameB": 0x8888, "VoiceFrameC": 0x9999,
    "VoiceFrameD": 0xAAAA, "VoiceFrameE": 0xBBBB, "VoiceFrameF": 0xCCCC, "Wakeup": 0xDDDD, "VoiceOrDataSync": 0xEEEE,
}
IPSC_FRAME_TYPES = {"Data": 0x0000, "VoiceSync": 0x1111, "DataSyncOrCSBK": 0x3333, "DataHeader": 0x6666, "Voice": 0xBBBB, "Sync": 0xEEEE}
IPSC_CALL_TYPES = {"PrivateCall": 0x00, "GroupCall": 0x01, "WakeupCall_2": 0x02, "WakeupCall_c": 0x0C}
IPSC_TIMESLOTS = {1: 0x1111, 2: 0x2222}


def swap16(data: bytes) -> bytes:
    """exchange the two octets of every 16-bit word (even length only)"""
    assert len(data) % 2 == 0
    out = bytearray(len(data))
    for i in range(0, len(data), 2):
        out[i], out[i + 1] = data[i + 1], data[i]
    return bytes(out)


def ipsc_frame(seq: int, packet_type: int, slot_type: int, frame_type: int, call_type: int, colour_code: int, timeslot: int,
               dst: int, src: int, payload34: bytes, first_header: bytes = b"\x5a\x5a", reserved_3: bytes = b"\x00\x00\x00",
               reserved_7a: bytes = b"\x00\x05\x01\x01\x00\x00\x00", reserved_2a: bytes = b"\x40\x00",
               reserved_2b: bytes = b"\xe2\x08", reserved_1: bytes = b"\x00") -> bytes:
    """
    offset  0  first header (UDP source port on the wire, 2)      2  fixed header 5a 5a
            4  sequence number (1)                                5  reserved (3)
            8  packet type (1)                                    9  reserved (7)
           16  timeslot 0x1111 / 0x2222 (2)                      18  slot type (2, nibble repeated four times)
           20  colour code nibble repeated four times (2)        22  frame type (2)
           24  reserved (2)                                      26  payload (34): the 33 burst octets + one pad octet,
                                                                      transmitted with the octets of every 16-bit word exchanged
           60  reserved (2)                                      62  call type (1)
           63  0x00, 64..66 destination id (24 bit little-endian) 67  0x00, 68..70 source id (24 bit little-endian)
           71  reserved (1)
    (octets 63 and 67 are the low octets of two little-endian 32-bit words whose upper 24 bits are the ids; every captured
    frame carries 0x00 there)
    """
    assert len(payload34) == 34 and 0 <= colour_code <= 15 and 0 <= dst < 2**24 and 0 <= src < 2**24
    assert len(first_header) == 2 and len(reserved_3) == 3 and len(reserved_7a) == 7 and len(reserved_2a) == 2
    assert len(reserved_2b) == 2 and len(reserved_1) == 1 and timeslot in (1, 2)
    f = (
        bytes(first_header) + b"\x5a\x5a" + bytes([seq]) + bytes(reserved_3) + bytes([packet_type]) + bytes(reserved_7a)
        + IPSC_TIMESLOTS[timeslot].to_bytes(2, "big") + slot_type.to_bytes(2, "big") + bytes([colour_code * 0x11] * 2)
        + frame_type.to_bytes(2, "big") + bytes(reserved_2a) + bytes(payload34) + bytes(reserved_2b) + bytes([call_type])
        + b"\x00" + dst.to_bytes(3, "little") + b"\x00" + src.to_bytes(3, "little") + bytes(reserved_1)
    )
    assert len(f) == 72
    return f


def ipsc_payload(burst33: bytes, pad: int = 0) -> bytes:
    """wire form of a 33-octet DMR burst: burst + pad octet, octets of every 16-bit word exchanged"""
    assert len(burst33) == 33
    return swap16(bytes(burst33) + bytes([pad]))


def ipsc_dissect(frame: bytes) -> Dict:
    if len(frame) != 72:
        raise RefError("length_72")
    if frame[2:4] != b"\x5a\x5a":
        raise RefError("fixed_header")
    cc = frame[20] & 0x0F
    if frame[20:22] != bytes([cc * 0x11] * 2):
        raise RefError("colour_code_nibbles")
    return {
        "first_header": frame[0:2], "seq": frame[4], "reserved_3": frame[5:8], "packet_type": frame[8], "reserved_7a": frame[9:16],
        "timeslot": {0x1111: 1, 0x2222: 2}.get(int.from_bytes(frame[16:18], "big")), "slot_type": int.from_bytes(frame[18:20], "big"),
        "colour_code": cc, "frame_type": int.from_bytes(frame[22:24], "big"), "reserved_2a": frame[24:26], "payload34": frame[26:60],
        "reserved_2b": frame[60:62], "call_type": frame[62], "dst_low": frame[63], "dst": int.from_bytes(frame[64:67], "little"),
        "src_low": frame[67], "src": int.from_bytes(frame[68:71], "little"), "reserved_1": frame[71:72],
    }


# --------------------------------------------------------------------------------------- captured vectors / selfcheck

# HDAP frames captured from radios / repeaters (okdmr/tests/dmrlib/hytera/pdu/test_hdap.py, test_rcp.py, test_tmp.py, test_lp.py,
# test_rrs.py, payloads of test_hstrp.py / test_hrnp.py)
CAPTURED_HDAP = [
    "02040005006400000001c403",
    "0204800600000f690600012903",
    "02c910050002000101014f03",
    "0241080500006f0000007503",
    "024108050000d20400000e03",
    "0241880100006803",
    "0245b810000100040004000000fd080000fa372300c303",
    "0245b81000010005000000000000000000000000001F03",
    "02471808000000000000000000cb03",
    "0247880100006203",
    "0980a10022000000010a01b2070a03640e4f004c004900560045005200200054004500530054007a03",
    "0980a2000D000000010a01b2070a030000003103",
    "09c0a200120003000000020a01b2070a03000000010203e203",
    "08a0020032000000010a2110dd0000413138333634383236313031354e343731382e383035314530313835342e34333837302e313132310b03",
    "08a002003200000003002337fb0000410000000000000000000000004e353030332e383737314530313432362e353330320000000000007003",
    "91008000090a0000500000000e103103",
    "91000200040a0000140e03",
    "11008200050a000021008003",
    "11000300040a000064bd03",
    "02471808000700000000000000c403",
    "025284060000010A0003E95F03",
    "02528406000000E90300006A03",
    "0980B1001400000001000000010A000835610068006F006A000203",
    "02c7100900040b010601050012012303",
    "02c8b003000b0400a803",
]
# HRNP packets (test_hrnp.py: test_hrnp_frombytes, test_valid_checksums)
CAPTURED_HRNP = [
    "7e0400fe20100000000c60e1",
    "7e0300fe20100000000c60e2",
    "7e0400002010000100189b6002040005006400000001c403",
    "7e040000102000010019d6240204800600000f690600012903",
    "7e0400fd10200000000c70d2",
    "7e030000201000000018fefe02c910050002000101014f03",
    "7e04000020100000001873890241080500006f0000007503",
    "7E04001010200001000C71BE",
    "7e04000020100001001b43b502471808000700000000000000c403",
    "7E040000102000010014857A0247880100006203",
    "7E040000102000030019FDF9025284060000010A0003E95F03",
    "7E040000102000020019E41402528406000000E90300006A03",
    "7E04000010200004002767790980B1001400000001000000010A000835610068006F006A000203",
    "7e04000020100000001c03f502c7100900040b010601050012012303",
    "7e04000020100000001602fb02c8b003000b0400a803",
    "7E040000102000010019FDFB025284060000010A0003E95F03",
]
# HSTRP datagrams (test_hstrp.py): (hex, number of options, option octets)
CAPTURED_HSTRP = [
    ("32420020000183040001869f04010211000300040a000064bd03", 2, 9),
    ("324200000001024108050000d20400000e03", 0, 0),
    ("32420020001383040001869f0401010241880100006803", 2, 9),
    ("32420020000b830400066b0e0401010245b810000100040004000000fd080000fa372300c303", 2, 9),
]
# IPSC frames: (hex, timeslot, colour code, destination id, source id) as decoded by the generic parser in the repository's
# tests / documented in hytera_ipsc_sync.py ("(16)[00006F] == (10)[111]", "(16)[2337FA] == (10)[2308090]")
CAPTURED_IPSC = [
    ("5a5a5a5a0000000042000501010000001111eeee555511114000000000000000000000006f0023003700fa00000000000000000000000000834f00c3e20801006f000000fa372300", 1, 5, 111, 2308090),
    ("5a5a5a5a0000000042000501020000002222dddd555500004000000000000000000000000100020002000100000000000000000000000000ffffef082a00000000000000fb372300", 2, 5, 0, 2308091),
    ("5a5a5a5a0d05000041000501020000002222777755550000401382a900c0a043ce88a4ee83f82770fd55f77d775fca2cc4aec5e043821a3162c2004200c001006f000000fc372300", 2, 5, 111, 2308092),
    ("5a5a5a5a660000004100050101000000111111111111000040b951018849a00b381b4016806c6dc457ff5dd7def5993218016020a005412310390033884901000900000022072800", 1, 1, 9, 2623266),
]


# captured HDAP frames whose field values the repository's tests document -> payload from the layout functions above
CAPTURED_PAYLOADS = [
    ("91008000090a0000500000000e103103", rrs_payload(0x80, 10, 80, 0, 3600)),  # test_rrs_answer: 10.0.0.80, success, 3600 s
    ("91000200040a0000140e03", rrs_payload(0x02, 10, 20)),  # test_rrs_status_check_request: 10.0.0.20
    ("11008200050a000021008003", rrs_payload(0x82, 10, 33, state=0)),  # test_rrs_status_check_answer: 10.0.0.33 online
    ("11000300040a000064bd03", rrs_payload(0x03, 10, 100)),  # registration inside the HSTRP capture
    # test_lp.py: request 1, 10.33.16.221, OK, VALID 18:36:48 26.10.15 N4718.8051 E01854.4387 0.1 kn 121 deg
    ("08a0020032000000010a2110dd0000413138333634383236313031354e343731382e383035314530313835342e34333837302e313132310b03",
     lp_payload(0xA002, 1, 10, 2167005, 0, gps_block("A", (18, 36, 48), (26, 10, 2015), "N", 47188051, "E", 18544387, "0.1", 121))),
    # test_lp.py: request 3, 0.35.55.251, OK, VALID, no time/date, N5003.8771 E01426.5302, no speed / azimuth
    ("08a002003200000003002337fb0000410000000000000000000000004e353030332e383737314530313432362e353330320000000000007003",
     lp_payload(0xA002, 3, 0, 2308091, 0, gps_block("A", None, None, "N", 50038771, "E", 14265302, None, 0))),
    # test_tmp.py: private message, request 1, to 10.1.178.7 from 10.3.100.14, "OLIVER TEST"
    ("0980a10022000000010a01b2070a03640e4f004c004900560045005200200054004500530054007a03",
     tmp_payload(0xA1, 1, (10, 0x01B207), (10, 0x03640E), "OLIVER TEST".encode("utf-16-le"))),
    ("0980a2000D000000010a01b2070a030000003103", tmp_payload(0xA2, 1, (10, 0x01B207), (10, 0x030000), b"\x00")),  # test_ack: result OK
    # test_ack_with_option_field: request 2, to radio 111111 from 196608, result OK, option 01 02 03
    ("09c0a200120003000000020a01b2070a03000000010203e203", tmp_payload(0xA2, 2, (10, 111111), (10, 196608), b"\x00", b"\x01\x02\x03")),
    ("0980B1001400000001000000010A000835610068006F006A000203", tmp_payload(0xB1, 1, (0, 1), (10, 0x000835), "ahoj".encode("utf-16-le"))),
]


def selfcheck() -> int:
    """Re-assemble every captured vector with the reference encoders.  Returns the number of vectors; raises RefError."""
    n = 0
    for h in CAPTURED_HDAP:
        b = bytes.fromhex(h)
        d = hdap_dissect(b)
        if hdap_frame(d["proto"], d["reliable"], d["opcode"], d["payload"]) != b:
            raise RefError(f"HDAP capture not reproduced: {h}")
        n += 1
    for h, want in CAPTURED_PAYLOADS:
        d = hdap_dissect(bytes.fromhex(h))
        if d["payload"] != want:
            raise RefError(f"payload layout reference does not reproduce capture {h}: {want.hex()}")
        n += 1
    for h in CAPTURED_HRNP:
        b = bytes.fromhex(h)
        d = hrnp_dissect(b)
        if hrnp_frame(d["version"], d["block"], d["opcode"], d["source"], d["destination"], d["packet_number"], d["data"]) != b:
            raise RefError(f"HRNP capture not reproduced: {h}")
        if d["data"]:
            hdap_dissect(d["data"])
        n += 1
    for h, n_opt, opt_len in CAPTURED_HSTRP:
        b = bytes.fromhex(h)
        d = hstrp_dissect(b)
        if len(d["options"]) != n_opt or len(hstrp_options(d["options"])) != opt_len:
            raise RefError(f"HSTRP capture: option count/length: {h}")
        if hstrp_frame(d["version"], d["flags"], d["sn"], d["options"], d["payload"]) != b:
            raise RefError(f"HSTRP capture not reproduced: {h}")
        hdap_dissect(d["payload"])
        n += 1
    for h, ts, cc, dst, src in CAPTURED_IPSC:
        b = bytes.fromhex(h)
        d = ipsc_dissect(b)
        if (d["timeslot"], d["colour_code"], d["dst"], d["src"]) != (ts, cc, dst, src) or d["dst_low"] or d["src_low"]:
            raise RefError(f"IPSC capture: documented values not reproduced: {h}")
        if ipsc_frame(d["seq"], d["packet_type"], d["slot_type"], d["frame_type"], d["call_type"], d["colour_code"], d["timeslot"], d["dst"],
                      d["src"], d["payload34"], d["first_header"], d["reserved_3"], d["reserved_7a"], d["reserved_2a"], d["reserved_2b"],
                      d["reserved_1"]) != b:
            raise RefError(f"IPSC capture not reproduced: {h}")
        n += 1
    return n
