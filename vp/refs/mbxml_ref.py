"""
Independent reference for the Motorola MBXML binary encoding (used by LRRP/ARRP) — C14 / C15.

Written from the format description (a WBXML-like TLV stream), the doc-strings in okdmr/dmrlib/motorola/mbxml.py and the
captured vectors in the repository's tests; it shares no code with the library.

Numbers
-------
uintvar     big-endian base-128, 7 value bits per octet ("septet"), bit 7 (0x80) set on every octet but the last;
            canonical = shortest (no leading zero septets), 0 is the single octet 00.
            vectors: 25 -> 0x25, 81 20 -> 0xA0, 82 8F 25 -> 0x87A5, 87 57 -> 0x3D7
sintvar     same septet stream, but the FIRST septet carries the sign in bit 6 (0x40) and only 6 magnitude bits; following
            septets carry 7.  n septets therefore hold 6 + 7(n-1) magnitude bits; canonical = fewest septets.
            vectors: 65 -> -0x25, C1 20 -> -0xA0; 40 is "negative zero" (used by the float encoding: 40 0A = -10/128)
ufloatvar   uintvar integer part, then the fraction as a septet stream of p septets (p = precision) meaning
            fraction / 128**p.  The reader derives p from the number of fraction septets, so trailing zero septets may be
            dropped (7/128 == 896/128**2: the repository's test_ufloatvar pins "81 20 07" for precision 2) but leading zero
            septets may not (5/128**2 is "80 05").
sfloatvar   sintvar integer part (sign there, also for a zero integer part) + the same fraction.

Documents
---------
buffer   := document+
document := uintvar(doc id)  uintvar(len(body))  body
body     := [uintvar(len(table)) table]  token*           -- the table only for document ids WITH constant table (even ids)
token    := token id octet, then a value whose layout depends on (document group, token id): GRAMMAR below.
"""
from __future__ import annotations

from typing import Dict, List, Optional, Tuple

UINTVAR_MAX = 2**32 - 1
SINTVAR_MAX = 2**31 - 1

# ------------------------------------------------------------------------------------------------ integers


def uintvar(v: int) -> bytes:
    """canonical (shortest) uintvar"""
    if v < 0:
        raise ValueError("uintvar is unsigned")
    septets = [v & 0x7F]
    v >>= 7
    while v:
        septets.append(0x80 | (v & 0x7F))
        v >>= 7
    return bytes(reversed(septets))


def uintvar_fixed(v: int, n: int) -> bytes:
    """v as exactly n septets (leading zero septets kept)"""
    if v >> (7 * n):
        raise ValueError("does not fit")
    out = []
    for k in range(n - 1, -1, -1):
        out.append(((v >> (7 * k)) & 0x7F) | (0x80 if k else 0))
    return bytes(out)


def n_uint_septets(v: int) -> int:
    return max(1, (v.bit_length() + 6) // 7)


def n_sint_septets(mag: int) -> int:
    n = 1
    while mag >> (6 + 7 * (n - 1)):
        n += 1
    return n


def sintvar(v: int, negative: Optional[bool] = None) -> bytes:
    """canonical sintvar; ``negative`` forces the sign bit (negative zero)"""
    mag = abs(v)
    neg = (v < 0) if negative is None else negative
    n = n_sint_septets(mag)
    out = []
    for k in range(n - 1, -1, -1):
        if k == n - 1:
            o = (mag >> (7 * k)) & 0x3F
            if neg:
                o |= 0x40
        else:
            o = (mag >> (7 * k)) & 0x7F
        if k:
            o |= 0x80
        out.append(o)
    return bytes(out)


def read_uintvar(data: bytes, idx: int = 0) -> Tuple[int, int]:
    v = 0
    while True:
        o = data[idx]
        idx += 1
        v = (v << 7) | (o & 0x7F)
        if not o & 0x80:
            return v, idx


def read_sintvar(data: bytes, idx: int = 0) -> Tuple[int, int, bool]:
    o = data[idx]
    idx += 1
    neg = bool(o & 0x40)
    v = o & 0x3F
    while o & 0x80:
        o = data[idx]
        idx += 1
        v = (v << 7) | (o & 0x7F)
    return (-v if neg else v), idx, neg


# ------------------------------------------------------------------------------------------------ floats


def fraction_septets(f: int, p: int) -> bytes:
    """fraction f / 128**p in full width (p septets)"""
    return uintvar_fixed(f, p)


def ufloat_bytes(i: int, f: int, p: int) -> bytes:
    return uintvar(i) + fraction_septets(f, p)


def sfloat_bytes(i: int, f: int, p: int, neg: bool) -> bytes:
    return sintvar(i, negative=neg) + fraction_septets(f, p)


def float_value(i: int, f: int, p: int, neg: bool = False) -> float:
    """exact in binary64 for i < 2**32, p <= 3 (32 + 21 = 53 significant bits)"""
    x = i + f / (128**p)
    return -x if neg else x


# ------------------------------------------------------------------------------------------------ LRRP token grammar
#
# Value kinds (what follows the token id octet):
#   opaque          uintvar(len) + len octets
#   opaque1         exactly 1 octet (fixed length, no length field)
#   attr_opaque     uintvar(attribute value) + uintvar(len) + len octets
#   attr_none       uintvar(attribute value), no data (token 0x37: result-code without a pre-set value)
#   none            nothing
#   uintvar / uint8 / ufloat (uintvar + 1 fraction septet) / sfloat (sintvar + 1 fraction septet)
#   infotime        5 octets
#   point2d         4 + 4 octets;  point3d  4 + 4 + sfloat;  circle2d  4 + 4 + ufloat
# Tokens of the library's tables that are NOT in this grammar: 0x24 (constant-table reference), 0x54/0x55 circle-3d and
# 0x6A point-3d-with-accuracy (no reader/writer in the library: "implemented tokens only").
# 0x37 / 0x38 / 0x39 are the three forms of "result": result-code on the wire and no data / result-code 0 implied by the
# token (captured 11 07 22 04 24 68 AC E0 38) / result-code + inline opaque (captured 39 05 03 51 53 55).

COMMON = {
    0x22: ("request-id", "opaque"),
    0x23: ("request-id", "opaque1"),
}

REQUEST = {
    0x31: ("interval", "uintvar"),
    0x33: ("oneshot-trigger", "none"),
    0x34: ("periodic-trigger", "none"),
    0x54: ("request-altitude", "none"),
    0x55: ("request-altitude-acc", "uintvar"),
    0x56: ("request-altitude-acc", "ufloat"),
    0x57: ("request-direction-hor", "none"),
    0x5F: ("request-hor-acc", "uintvar"),
    0x60: ("request-hor-acc", "ufloat"),
    0x61: ("request-lev-conf", "uint8"),
    0x3F: ("request-protocol-version", "uintvar"),
    0x62: ("request-speed-hor", "none"),
    0x64: ("request-speed-vrt", "none"),
    0x42: ("require-max-info-age", "uintvar"),
    0x66: ("require-altitude", "none"),
    0x67: ("require-altitude-acc", "uintvar"),
    0x68: ("require-altitude-acc", "ufloat"),
    0x69: ("require-direction-hor", "none"),
    0x71: ("require-hor-acc", "uintvar"),
    0x72: ("require-hor-acc", "ufloat"),
    0x73: ("require-lev-conf", "uint8"),
    0x74: ("require-speed-hor", "none"),
    0x76: ("require-speed-vrt", "none"),
    0x50: ("ret-info", "none"),
    0x51: ("ret-info", "none"),
    0x52: ("ret-info", "none"),
    0x53: ("ret-info", "none"),
    0x4A: ("trg-condition", "uintvar"),
}

REPORT = {
    0x51: ("circle-2d", "circle2d"),
    0x56: ("direction-hor", "uint8"),
    0x34: ("info-time", "infotime"),
    0x35: ("info-time", "infotime"),
    0x65: ("lev-conf", "uint8"),
    0x66: ("point-2d", "point2d"),
    0x69: ("point-3d", "point3d"),
    0x36: ("protocol-version", "uintvar"),
    0x37: ("result", "attr_none"),
    0x38: ("result", "none"),
    0x39: ("result", "attr_opaque"),
    0x6C: ("speed-hor", "ufloat"),
    0x70: ("speed-vrt", "sfloat"),
    0x6B: ("unknown-uint8", "uint8"),
}

GROUPS: Dict[str, Dict[int, Tuple[str, str]]] = {
    "common": dict(COMMON),
    "request": {**COMMON, **REQUEST},
    "report": {**COMMON, **REPORT},
}

# document id -> group.  Odd ids: no constant table on the wire (table implied by the id); even ids: inline table.
DOC_GROUP: Dict[int, str] = {
    0x04: "request", 0x05: "request", 0x08: "request", 0x09: "request", 0x0E: "request", 0x0F: "request", 0x14: "request",
    0x06: "report", 0x07: "report", 0x0C: "report", 0x0D: "report", 0x12: "report", 0x13: "report", 0x15: "report",
    0x10: "report", 0x11: "report",
    0x0A: "common", 0x0B: "common",
}
# ids without inline table ("NCDT"): all odd ids plus 0x14
NCDT_IDS = {d for d in DOC_GROUP if d % 2 == 1} | {0x14}

STANDARD_LRRP_TABLE = b"".join(
    bytes([len(s)]) + s
    for s in [b"HIGH", b"NORMAL", b"APCO", b"IPV4", b"IPV6", b"PLMN", b"TETRA", b"USER-SPECIFIED", b"http://", b"http://www.", b"YES", b"NO", b"LTD"]
)


def value_bytes(kind: str, v) -> bytes:
    """canonical octets of a token value given in the JSON form used by the cases (see props/c15.py)"""
    if kind == "none":
        return b""
    if kind == "opaque":
        b = bytes.fromhex(v)
        return uintvar(len(b)) + b
    if kind == "opaque1":
        b = bytes.fromhex(v)
        assert len(b) == 1
        return b
    if kind == "attr_opaque":
        a, h = v
        b = bytes.fromhex(h)
        return uintvar(a) + uintvar(len(b)) + b
    if kind in ("uintvar", "attr_none"):
        return uintvar(v)
    if kind == "uint8":
        return bytes([v])
    if kind == "ufloat":
        i, f = v
        return ufloat_bytes(i, f, 1)
    if kind == "sfloat":
        neg, i, f = v
        return sfloat_bytes(i, f, 1, bool(neg))
    if kind == "infotime":
        b = bytes.fromhex(v)
        assert len(b) == 5
        return b
    if kind == "point2d":
        la, lo = (bytes.fromhex(x) for x in v)
        assert len(la) == 4 and len(lo) == 4
        return la + lo
    if kind == "point3d":
        la, lo = (bytes.fromhex(x) for x in v[:2])
        neg, i, f = v[2]
        return la + lo + sfloat_bytes(i, f, 1, bool(neg))
    if kind == "circle2d":
        la, lo = (bytes.fromhex(x) for x in v[:2])
        i, f = v[2]
        return la + lo + ufloat_bytes(i, f, 1)
    raise ValueError(kind)


def document_bytes(doc: dict) -> bytes:
    """doc = {"id": int, "table": hex|None, "tokens": [[token id, value], ...]}"""
    group = GROUPS[DOC_GROUP[doc["id"]]]
    body = b""
    if doc["id"] not in NCDT_IDS:
        table = bytes.fromhex(doc["table"])
        body += uintvar(len(table)) + table
    else:
        assert doc.get("table") is None
    for tid, v in doc["tokens"]:
        body += bytes([tid]) + value_bytes(group[tid][1], v)
    return uintvar(doc["id"]) + uintvar(len(body)) + body


def buffer_bytes(docs: List[dict]) -> bytes:
    return b"".join(document_bytes(d) for d in docs)


def integers_of_value(kind: str, v) -> List[int]:
    """every integer of a token value that is written through the uintvar writer when the library re-serialises it
    (used to attribute C15 failures to C14's integer-codec root causes)"""
    if kind == "opaque":
        return [len(v) // 2]
    if kind == "attr_opaque":
        return [v[0], len(v[1]) // 2]
    if kind in ("uintvar", "attr_none"):
        return [v]
    if kind == "ufloat":
        return [v[0], v[1]]
    if kind == "sfloat":
        return [v[1], v[2]]
    if kind == "point3d":
        return [v[2][1], v[2][2]]
    if kind == "circle2d":
        return [v[2][0], v[2][1]]
    return []


def signed_integers_of_value(kind: str, v) -> List[int]:
    if kind == "sfloat":
        return [v[1]]
    if kind == "point3d":
        return [v[2][1]]
    return []


# ------------------------------------------------------------------------------------------------ self-check


def _selfcheck():
    # captured vectors from okdmr/tests/dmrlib/motorola/test_mbxml.py (data only)
    for h, v in [("25", 0x25), ("8120", 0xA0), ("828F25", 0x87A5), ("8757", 0x3D7)]:
        assert uintvar(v) == bytes.fromhex(h) and read_uintvar(bytes.fromhex(h)) == (v, len(h) // 2)
    for h, v in [("65", -0x25), ("C120", -0xA0)]:
        assert sintvar(v) == bytes.fromhex(h) and read_sintvar(bytes.fromhex(h))[:2] == (v, len(h) // 2)
    assert sintvar(64) == bytes.fromhex("8040") and sintvar(63) == b"\x3f" and sintvar(-8192) == bytes.fromhex("C0C000")
    assert sfloat_bytes(0, 10, 1, True) == bytes.fromhex("400a")
    assert ufloat_bytes(160, 983, 2) == bytes.fromhex("81208757")
    assert sfloat_bytes(160, 983, 2, True) == bytes.fromhex("C1208757")
    assert ufloat_bytes(0, 5, 2) == bytes.fromhex("008005")
    assert len(STANDARD_LRRP_TABLE) == 84
    # captured LRRP messages (test_lrrp.py / test_mbxml.py) rebuilt from their field values
    assert document_bytes({"id": 0x07, "table": None, "tokens": [[0x22, "2468ace0"], [0x34, "1f4dbc7780"], [0x51, ["118ecd8d", "118ad47b", [0, 0x63]]], [0x6C, [0, 6]]]}) == bytes.fromhex(
        "071A22042468ACE0341F4DBC778051118ECD8D118AD47B00636C0006"
    )
    assert document_bytes({"id": 0x07, "table": None, "tokens": [[0x22, "2468ace0"], [0x39, [5, "515355"]]]}) == bytes.fromhex("070C22042468ACE0390503515355")
    assert document_bytes({"id": 0x09, "table": None, "tokens": [[0x22, "2468ace0"], [0x34, None], [0x31, 60]]}) == bytes.fromhex("090922042468ACE034313C")
    assert document_bytes({"id": 0x11, "table": None, "tokens": [[0x22, "2468ace0"], [0x38, None]]}) == bytes.fromhex("110722042468ACE038")
    assert document_bytes({"id": 0x07, "table": None, "tokens": [[0x37, 5], [0x37, 300], [0x38, None]]}) == bytes.fromhex("07063705 37822c 38".replace(" ", ""))
    assert document_bytes({"id": 0x04, "table": "054150434f", "tokens": [[0x22, "2468ace0"], [0x53, None], [0x62, None]]}) == bytes.fromhex("040E05054150434f22042468ACE05362")
    assert document_bytes(
        {"id": 0x0D, "table": None, "tokens": [[0x22, "7fffffff"], [0x69, ["48610995", "0ad0ecd2", [0, 440, 0x15]]], [0x6C, [0, 8]], [0x56, 0xA2], [0x70, [1, 0, 10]]]}
    ) == bytes.fromhex("0d1a22047fffffff69486109950ad0ecd28338156c000856a270400a")


_selfcheck()
