"""Reference arithmetic for DMR packet-data fragmentation (ETSI TS 102 361-1 clause 8.2 / table 8.1, annex B.3.9) written
from the frame layouts, independent of the library's tables:

* a data burst carries 196 channel bits; rate 1/2 (BPTC(196,96)) leaves 96 information bits = 12 octets, rate 3/4
  (trellis, 48 tribits) 144 bits = 18 octets, rate 1 (uncoded, 4 filler bits) 192 bits = 24 octets;
* a *confirmed* block spends 16 of these bits on the 7-bit data block serial number and the 9-bit CRC;
* the *last* block of a packet spends its final 32 bits on the packet CRC-32.

Nothing here imports the library.
"""
from __future__ import annotations

from typing import Dict, List, Tuple

from . import gf2

RATES = ("1/2", "3/4", "1")

INFO_BITS = {"1/2": 96, "3/4": 144, "1": 192}
CONFIRMED_OVERHEAD_BITS = 7 + 9  # DBSN + CRC-9
PACKET_CRC_BITS = 32
MAX_BLOCKS_TO_FOLLOW = 2**7 - 1  # BTF field of the (un)confirmed data header is 7 bits wide
MAX_PAD_OCTETS = 2**5 - 1  # POC field is 5 bits wide


def octets_per_block(rate: str, confirmed: bool) -> int:
    """User octets carried by an intermediate (non-last) block."""
    bits = INFO_BITS[rate] - (CONFIRMED_OVERHEAD_BITS if confirmed else 0)
    assert bits % 8 == 0
    return bits // 8


def octets_in_last_block(rate: str, confirmed: bool) -> int:
    return octets_per_block(rate, confirmed) - PACKET_CRC_BITS // 8


def fragment(length: int, rate: str, confirmed: bool) -> Tuple[int, int]:
    """(number of data blocks, pad octets) for a payload of ``length`` octets: the smallest number n >= 1 of blocks whose
    joint capacity n*per - 4 holds the payload; the unused capacity is padding."""
    per = octets_per_block(rate, confirmed)
    n = 1
    while n * per - 4 < length:
        n += 1
    return n, n * per - 4 - length


def max_payload(rate: str, confirmed: bool, blocks: int = MAX_BLOCKS_TO_FOLLOW) -> int:
    return blocks * octets_per_block(rate, confirmed) - 4


def block_slices(padded: bytes, rate: str, confirmed: bool) -> List[bytes]:
    """The user octets of every block, in order (last one is 4 octets shorter)."""
    per = octets_per_block(rate, confirmed)
    out = [padded[i : i + per] for i in range(0, len(padded), per)]
    assert all(len(s) == per for s in out[:-1]) and len(out[-1]) == per - 4, (len(padded), per)
    return out


# ---------------------------------------------------------------------------------------------- CRC-32 (B.3.9)

CRC32_POLY = 0x04C11DB7  # x^32+x^26+x^23+x^22+x^16+x^12+x^11+x^10+x^8+x^7+x^5+x^4+x^2+x+1 (leading term implied)


def _swap_octet_pairs(data: bytes) -> bytes:
    """B.3.9 feeds the message as 16-bit words, least significant octet first: octets 1,0,3,2,5,4,... (an unpaired final
    octet stays in place)."""
    b = bytearray(data)
    for i in range(0, len(b) - 1, 2):
        b[i], b[i + 1] = b[i + 1], b[i]
    return bytes(b)


def crc32_value(data: bytes) -> int:
    """Remainder of M(x)*x^32 mod G(x), no initial value, no inversion; M = octet pairs swapped, each octet MSB first.
    (Convention established from the three captured vectors in okdmr/tests/dmrlib/etsi/crc/test_crc32.py, see
    selfcheck().)"""
    m = int.from_bytes(_swap_octet_pairs(data), "big") if data else 0
    return gf2.polymod(m << 32, CRC32_POLY | (1 << 32))


def crc32_wire(data: bytes) -> bytes:
    """The four CRC octets as they appear at the end of the last data block (least significant octet first)."""
    return crc32_value(data).to_bytes(4, "little")


# ---------------------------------------------------------------------------------------------- CRC-9 (B.3.10)

CRC9_POLY = 0x059  # x^9+x^6+x^4+x^3+1 (leading term implied)
CRC9_MASK = {"1/2": 0x0F0, "3/4": 0x1FF, "1": 0x10F}  # B.3.12 data type CRC masks of the three data continuation types


def crc9_field(rate: str, dbsn: int, octets_after_crc9: bytes) -> int:
    """CRC-9 field of a confirmed block: remainder over the block's octets that follow the serial number / CRC-9 field (for a
    last block this includes the four CRC-32 octets) followed by the 7-bit DBSN; inverted, then masked."""
    bits = []
    for o in octets_after_crc9:
        bits.extend(gf2.int_to_bits(o, 8))
    bits.extend(gf2.int_to_bits(dbsn, 7))
    return (gf2.crc_rem(bits, 9, CRC9_POLY) ^ 0x1FF) ^ CRC9_MASK[rate]


# ---------------------------------------------------------------------------------------------- forcing check values (linearity)


def gf2_solve(columns: List[int], target: int):
    """Coefficients x_i in {0,1} with XOR of columns[i] over x_i = 1 equal to target, or None (Gaussian elimination)."""
    basis = {}  # pivot bit -> (vector, combination mask)
    for i, v in enumerate(columns):
        combo = 1 << i
        while v:
            piv = v.bit_length() - 1
            if piv not in basis:
                basis[piv] = (v, combo)
                break
            bv, bc = basis[piv]
            v ^= bv
            combo ^= bc
    combo = 0
    v = target
    while v:
        piv = v.bit_length() - 1
        if piv not in basis:
            return None
        bv, bc = basis[piv]
        v ^= bv
        combo ^= bc
    return [(combo >> i) & 1 for i in range(len(columns))]


def _force(data: bytes, free_octets: List[int], target: int, value) -> bytes:
    """Set the octets at ``free_octets`` so that value(data) == target; ``value`` must be GF(2)-affine in the message bits."""
    base = bytearray(data)
    for i in free_octets:
        base[i] = 0
    v0 = value(bytes(base))
    zero = value(bytes(len(base)))
    cols = []
    for i in free_octets:
        for b in range(8):
            unit = bytearray(len(base))
            unit[i] = 0x80 >> b
            cols.append(value(bytes(unit)) ^ zero)
    x = gf2_solve(cols, target ^ v0)
    if x is None:
        raise ValueError("target not reachable with these free octets")
    for n, i in enumerate(free_octets):
        o = 0
        for b in range(8):
            o |= x[n * 8 + b] * (0x80 >> b)
        base[i] = o
    out = bytes(base)
    assert value(out) == target
    return out


def force_crc32(padded: bytes, free_octets: List[int], target: int) -> bytes:
    """``padded`` (payload + pad octets) with the octets at ``free_octets`` chosen so that crc32_value(result) == target."""
    return _force(padded, free_octets, target, crc32_value)


def force_crc9_field(rate: str, dbsn: int, block_octets: bytes, free_octets: List[int], target_field: int) -> bytes:
    """user octets of an intermediate confirmed block with the octets at ``free_octets`` chosen so that the block's CRC-9
    field is ``target_field``."""
    return _force(block_octets, free_octets, target_field, lambda d: crc9_field(rate, dbsn, d))


# ---------------------------------------------------------------------------------------------- preambles


def preamble_countdown(n_preambles: int, bursts_after_last_preamble: int) -> List[int]:
    """blocks-to-follow values of n preamble CSBKs: every preamble announces the number of bursts that still follow it."""
    return [bursts_after_last_preamble + (n_preambles - 1 - i) for i in range(n_preambles)]


def selfcheck() -> Dict[str, bool]:
    """The CRC-32 convention against the three *captured* vectors of the repository's test (payload, last 4 octets)."""
    vec = [
        ("d6790062620003bf000700000000000000000000", "210b9a3d"),
        ("45000038fb410000401125490c23380b0d0008fd0fa10fa10024276a0d1a22047fffffff694728710f0a522c2d82534e6c0048564770402b", "82616528"),
        ("0600fb4f3d3f82afc6d80b42ce88668afc7d8b1807e83c308d95bb8be5dd59e95b2837e795af87005ae2a743535ca421601d", "c76ae25c"),
    ]
    return {d[:16]: crc32_wire(bytes.fromhex(d)).hex() == c for d, c in vec}
