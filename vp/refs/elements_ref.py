"""Reviewed reference tables for the ETSI DMR information elements of bit width <= 8 (property C03, sub-check (c)).

Written from the element tables of ETSI TS 102 361-1 §9.3 (layer 2), TS 102 361-2 §7.2 / annex B, TS 102 361-3 §7.2.4 and
TS 102 361-4 annex B, restricted to the values the library claimed to implement at the pinned commit 09012b2.  Nothing here
is imported from the library: the check compares the library against these tables, not against itself.

Per element:
  mod, cls   where the library class lives
  width      number of bits of the element on the wire
  kind       "enum" (enum.Enum subclass) or "class" (plain value class: every value of the width is valid)
  defined    values that are *defined* (must map to a member carrying exactly that value).  Values that the library defines in
             addition to this list are accepted as defined (they must also map to themselves); a value listed here that the
             library no longer maps to itself is a violation.
  fold       [(lo, hi, target_value)]: undefined values lo..hi (inclusive) belong to a reserved / manufacturer-specific class
             of the standard; the library may map them to the member whose value is target_value, or raise.  Undefined values
             outside every fold range have no reserved member in the standard: the library must raise for them.
  bits       True when the class offers from_bits/as_bits
"""

L2 = "okdmr.dmrlib.etsi.layer2.elements."
L3 = "okdmr.dmrlib.etsi.layer3.elements."

ELEMENTS = {
    # ---------------------------------------------------------------- layer 2 (TS 102 361-1 §9.3)
    "AccessTypes": dict(mod=L2 + "access_types", cls="AccessTypes", width=1, kind="enum", defined=[0, 1], fold=[], bits=False),
    "CsbkOpcodes": dict(
        mod=L2 + "csbk_opcodes", cls="CsbkOpcodes", width=6, kind="enum",
        defined=[0b000100, 0b000101, 0b000111, 0b001000, 0b011001, 0b011010, 0b011011, 0b011100, 0b011110, 0b011111, 0b100000,
                 0b100001, 0b100010, 0b100011, 0b100100, 0b100101, 0b100110, 0b101000, 0b101010, 0b101110, 0b101111, 0b110000,
                 0b110001, 0b110010, 0b110011, 0b110100, 0b110101, 0b110110, 0b110111, 0b111000, 0b111001, 0b111101],
        fold=[], bits=True),
    "DataPacketFormats": dict(mod=L2 + "data_packet_formats", cls="DataPacketFormats", width=4, kind="enum",
                              defined=[0b0000, 0b0001, 0b0010, 0b0011, 0b1101, 0b1110, 0b1111], fold=[(0b0100, 0b1100, 0b1100)], bits=True),
    "DataTypes": dict(mod=L2 + "data_types", cls="DataTypes", width=4, kind="enum", defined=list(range(0, 12)), fold=[(12, 15, 12)], bits=False),
    "DefinedDataFormats": dict(mod=L2 + "defined_data_formats", cls="DefinedDataFormats", width=6, kind="enum",
                               defined=list(range(0, 0b011001)), fold=[(0b011001, 0b111111, 0b111111)], bits=True),
    "FeatureSetIDs": dict(
        mod=L2 + "feature_set_ids", cls="FeatureSetIDs", width=8, kind="enum",
        # 0x00 SFID; 0x01..0x03 reserved for future standardisation; 0x04..0x7F MFIDs (registered list); 0x80..0xFF reserved for
        # future MFID.  Unregistered MFIDs fold to the first-MFID marker 0x04 (asserted by the repository's own test_missing).
        defined=[0x00, 0x04, 0x05, 0x06, 0x07, 0x08, 0x09, 0x0A, 0x0B, 0x10, 0x13, 0x1C, 0x20, 0x33, 0x3C, 0x58, 0x68, 0x77],
        fold=[(0x01, 0x03, 0x01), (0x04, 0x7F, 0x04), (0x80, 0xFF, 0x80)], bits=True),
    "FLCOs": dict(mod=L2 + "flcos", cls="FLCOs", width=6, kind="enum",
                  defined=[0b000000, 0b000011, 0b000100, 0b000101, 0b000110, 0b000111, 0b001000, 0b110000], fold=[], bits=True),
    "FragmentSequenceNumber": dict(mod=L2 + "fragment_sequence_number", cls="FragmentSequenceNumber", width=4, kind="class",
                                   defined=list(range(16)), fold=[], bits=True),
    "FullMessageFlag": dict(mod=L2 + "full_message_flag", cls="FullMessageFlag", width=1, kind="enum", defined=[0, 1], fold=[], bits=False),
    "LCSS": dict(mod=L2 + "lcss", cls="LCSS", width=2, kind="enum", defined=[0, 1, 2, 3], fold=[], bits=False),
    "PreemptionPowerIndicator": dict(mod=L2 + "preemption_power_indicator", cls="PreemptionPowerIndicator", width=1, kind="enum",
                                     defined=[0, 1], fold=[], bits=False),
    "ResynchronizeFlag": dict(mod=L2 + "resynchronize_flag", cls="ResynchronizeFlag", width=1, kind="enum", defined=[0, 1], fold=[], bits=False),
    "SAPIdentifier": dict(mod=L2 + "sap_identifier", cls="SAPIdentifier", width=4, kind="enum",
                          defined=[0b0000, 0b0010, 0b0011, 0b0100, 0b0101, 0b1001, 0b1010],
                          fold=[(0b0001, 0b0001, 0b1111), (0b0110, 0b1000, 0b1111), (0b1011, 0b1111, 0b1111)], bits=True),
    "SARQ": dict(mod=L2 + "sarq", cls="SARQ", width=1, kind="enum", defined=[0, 1], fold=[], bits=False),
    "SLCOs": dict(mod=L2 + "slcos", cls="SLCOs", width=4, kind="enum", defined=[0b0000, 0b0001, 0b0010, 0b0011],
                  fold=[(0b0100, 0b1011, 0b0100), (0b1100, 0b1111, 0b1100)], bits=True),
    "SupplementaryFlag": dict(mod=L2 + "supplementary_flag", cls="SupplementaryFlag", width=1, kind="enum", defined=[0, 1], fold=[], bits=False),
    "UDTFormat": dict(mod=L2 + "udt_format", cls="UDTFormat", width=4, kind="enum",
                      defined=[0b0000, 0b0001, 0b0010, 0b0011, 0b0100, 0b0101, 0b0110, 0b0111, 0b1010],
                      fold=[(0b1000, 0b1001, 0b1000), (0b1011, 0b1111, 0b1111)], bits=True),
    # ---------------------------------------------------------------- layer 3 (TS 102 361-2 §7.2, -3 §7.2.4, -4)
    "ActivityID": dict(mod=L3 + "activity_id", cls="ActivityID", width=4, kind="enum",
                       defined=[0b0000, 0b0010, 0b0011, 0b1000, 0b1001, 0b1010, 0b1011, 0b1100, 0b1101],
                       fold=[(0b0001, 0b0001, 0b0001), (0b0100, 0b0111, 0b0001), (0b1110, 0b1111, 0b0001)], bits=True),
    "AdditionalInformationField": dict(mod=L3 + "additional_information_field", cls="AdditionalInformationField", width=1, kind="enum",
                                       defined=[0, 1], fold=[], bits=False),
    "AnnouncementType": dict(mod=L3 + "announcement_type", cls="AnnouncementType", width=5, kind="enum", defined=list(range(0, 8)),
                             fold=[(0b01000, 0b11101, 0b01000), (0b11110, 0b11111, 0b11110)], bits=False),
    "AnswerResponse": dict(mod=L3 + "answer_response", cls="AnswerResponse", width=8, kind="enum", defined=[0b00100000, 0b00100001], fold=[], bits=True),
    "ChannelTimingOpcode": dict(mod=L3 + "channel_timing_opcode", cls="ChannelTimingOpcode", width=2, kind="enum", defined=[0, 1, 2, 3], fold=[], bits=True),
    "DynamicIdentifier": dict(mod=L3 + "dynamic_identifier", cls="DynamicIdentifier", width=2, kind="enum", defined=[0, 1, 2, 3], fold=[], bits=True),
    "IPAddressIdentifier": dict(mod=L3 + "ip_address_identifier", cls="IPAddressIdentifier", width=4, kind="enum", defined=[0b0000, 0b0001],
                                fold=[(0b0010, 0b1011, 0b0010), (0b1100, 0b1111, 0b1100)], bits=True),
    "PositionError": dict(mod=L3 + "position_error", cls="PositionError", width=3, kind="enum", defined=list(range(8)), fold=[], bits=True),
    "RandomAccessServiceFunction": dict(mod=L3 + "random_access_service_function", cls="RandomAccessServiceFunction", width=2, kind="enum",
                                        defined=[0, 1, 2, 3], fold=[], bits=False),
    "ReasonCode": dict(mod=L3 + "reason_code", cls="ReasonCode", width=8, kind="enum", defined=[0b00100001], fold=[], bits=True),
    "ServiceOptions": dict(mod=L3 + "service_options", cls="ServiceOptions", width=8, kind="class", defined=list(range(256)), fold=[], bits=True),
    "SourceType": dict(mod=L3 + "source_type", cls="SourceType", width=1, kind="enum", defined=[0, 1], fold=[], bits=False),
    "TalkerAliasDataFormat": dict(mod=L3 + "talker_alias_data_format", cls="TalkerAliasDataFormat", width=2, kind="enum",
                                  defined=[0, 1, 2, 3], fold=[], bits=True),
    "UDPPortIdentifier": dict(mod=L3 + "udp_port_identifier", cls="UDPPortIdentifier", width=7, kind="enum", defined=[0, 1, 2],
                              fold=[(0b0000011, 0b1011110, 0b0000011), (0b1011111, 0b1111111, 0b1011111)], bits=True),
    "UDTOptionFlag": dict(mod=L3 + "udt_option_flag", cls="UDTOptionFlag", width=1, kind="enum", defined=[0, 1], fold=[], bits=False),
}

# ETSI TS 102 361-1 table 9.2: the ten 48-bit SYNC patterns; anything else in the SYNC position is embedded signalling
SYNC_PATTERNS = [0x755FD7DF75F7, 0xDFF57D75DF5D, 0x7F7D5DD57DFD, 0xD5D7F77FD757, 0x77D55F7DFD77, 0x5D577F7757FF, 0xF7FDD5DDFD55,
                 0x7DFFD5F55D5F, 0xD7557F5FF7F5, 0xDD7FF5D757DD]


# ----------------------------------------------------------------------------------------------------------------------
# "Dedicated codes": identifier elements whose members stand for an explicit value that can also be carried free-form
# elsewhere in the same PDU when the identifier is at its escape member.  identifier element -> {member value: [explicit
# values it stands for]}.  Used by C03 to put exactly those values (and their neighbours) into the free-form field while the
# identifier is at the escape: the PDU must then round-trip as built (same length, same fields) - the library must not
# silently re-code it.
#   TS 102 361-3 §7.2.4.3 / §7.2.4.4 (SPID / DPID): 0000001 = UTF-16BE text message, UDP port 5016; 0000010 = location
#   interface protocol, UDP port 5017; 0000000 = port number follows in an extended header (escape).
#   TS 102 361-3 §7.2.4.1 / §7.2.4.2 (SAID / DAID): 0000 radio network, 0001 USB/Ethernet interface network; the compressed
#   header has no explicit address field (addresses are the LLIDs of the data header), so there is nothing to collide with.
DEDICATED = {
    "UDPPortIdentifier": {1: [5016], 2: [5017]},
    "IPAddressIdentifier": {},
}
ESCAPE = {"UDPPortIdentifier": 0}
# further UDP ports in use by DMR applications (no identifier of their own): decoys next to the dedicated values
EXPLICIT_DECOYS = {
    "UDPPortIdentifier": [3002, 3003, 3004, 3005, 3006, 3007, 3009, 4001, 4004, 4005, 4007, 4008, 4069, 30001, 30003, 30007, 50000, 62031],
}


def dedicated_values(elem: str, neighbours: bool = True):
    """explicit values the members of `elem` stand for (with +-1 neighbours), in ascending order"""
    vals = set()
    for lst in DEDICATED.get(elem, {}).values():
        for x in lst:
            vals.update((x - 1, x, x + 1) if neighbours else (x,))
    return sorted(v for v in vals if v >= 0)


def fold_target(elem: str, value: int):
    """target value of the reserved class `value` belongs to, or None when the standard has no reserved member for it"""
    for lo, hi, tgt in ELEMENTS[elem]["fold"]:
        if lo <= value <= hi:
            return tgt
    return None
