"""
Independent byte layouts of Motorola TMS (text messaging) and ARS (automatic registration) messages — C16.

Written from the layout comments in the library's modules and the captured messages in the repository's tests (data
only); shares no code with the library.

TMS   | length (2, big endian, counts everything after itself) | first header | address length (1) | address |
      | optional headers | payload |
      first header: bit7 more-headers, bit6 acknowledgement requested, bit5 reserved (always 1 on simple text messages:
      captured E0), bit4 control message, bits3..0 PDU type (service availability 1/0000, acknowledgement 1/1111,
      simple text 0/0000)
      service availability: optional header = capability (2 low bits)            captured 00 03 D0 00 01
      acknowledgement / text: optional header 1 = more(bit7) | 00 | 5 LSB of the sequence number;
                              optional header 2 = 0 | 2 MSB of the sequence number (bits 6,5) | encoding (5 bits)
                              header 2 is present iff the sequence number needs it (> 31) or an encoding is given
                              captured 00 04 9F 00 95 20 (ack of 53), 00 0D E0 01 01 95 44 'a' 00 'h' 00 ... (text, 85, UCS2-LE)
ARS   | length (2) | first header | [second header] | fields | [CSBK trailer 10 80, counted by the length] |
      first header: bit7 more-headers, bit6 ack, bit5 priority, bit4 control, bits3..0 PDU type
      registration (device 0000 / user 0101): [event(2 bits at 6..5) | encoding(5)] if more-headers; then three
      length-value fields device id, user id, password (1 length octet each, UTF-8)    captured 00 07 F0 20 02 31 31 00 00
      response 1111: second header = refresh time (success, ack=0) or failure reason (ack=1)   captured 00 02 BF 01
      status query 0100 / device de-registration 0001: nothing                               captured 00 01 74 / 00 01 31
"""
from __future__ import annotations

from typing import Optional

TMS_TYPES = {"availability": (1, 0b0000), "ack": (1, 0b1111), "text": (0, 0b0000)}
ARS_TYPES = {"device_reg": 0b0000, "dereg": 0b0001, "query": 0b0100, "user_reg": 0b0101, "response": 0b1111}
ARS_FAILURES = {"DEVICE_NOT_AUTHORIZED": 0x00, "USER_ID_NOT_VALID": 0x01, "USER_VALIDATION_TIMEOUT": 0x02, "TRANSMISSION_FAILURE": 0xFF}
ARS_EVENTS = {"DONT_CARE": 0, "INITIAL": 1, "REFRESH": 2}
CSBK_TRAILER = b"\x10\x80"


def tms_sn_headers(sn: int, encoding: int = 0) -> bytes:
    two = sn > 31 or encoding != 0
    first = (0x80 if two else 0) | (sn & 0x1F)
    if not two:
        return bytes([first])
    return bytes([first, (sn & 0x60) | (encoding & 0x1F)])


def tms_split_sn(h1: int, h2: Optional[int]) -> int:
    return (h1 & 0x1F) | ((h2 & 0x60) if h2 is not None else 0)


def tms_bytes(pdu: str, ack: bool, reserved: bool, address: bytes, capability: Optional[int] = None, sn: Optional[int] = None, encoding: int = 0, message: bytes = b"") -> bytes:
    control, typ = TMS_TYPES[pdu]
    opt = b""
    payload = b""
    if pdu == "availability":
        if capability is not None:
            opt = bytes([capability & 3])
    elif pdu == "ack":
        if sn is not None:
            opt = tms_sn_headers(sn, 0)
    else:
        opt = tms_sn_headers(sn, encoding)
        payload = message
    more = 1 if opt else 0
    res = 1 if (reserved or pdu == "text") else 0
    first = (more << 7) | (int(ack) << 6) | (res << 5) | (control << 4) | typ
    body = bytes([first, len(address)]) + address + opt + payload
    return len(body).to_bytes(2, "big") + body


def lv(s: Optional[str]) -> bytes:
    b = (s or "").encode("utf-8")
    return bytes([len(b)]) + b


def ars_bytes(pdu: str, more: bool, ack: bool, priority: bool, control: bool, event: Optional[int] = None, device: Optional[str] = None, user: Optional[str] = None,
              password: Optional[str] = None, second: Optional[int] = None, csbk: bool = False) -> bytes:
    first = (int(more) << 7) | (int(ack) << 6) | (int(priority) << 5) | (int(control) << 4) | ARS_TYPES[pdu]
    body = bytes([first])
    if pdu in ("device_reg", "user_reg"):
        if more:
            body += bytes([(event << 5) | 0])
        body += lv(device) + lv(user) + lv(password)
    elif pdu == "response":
        if more:
            body += bytes([second])
    if csbk:
        body += CSBK_TRAILER
    return len(body).to_bytes(2, "big") + body


# ------------------------------------------------------------------------------------------------ reference decoders
# The oracle of props/c16.py decodes the library's wire image with these (layout knowledge only) and compares the result
# with the fields the message was built from.  Unlike a byte-for-byte comparison with the builders above this accepts
# every valid encoding of the same fields (e.g. a second sequence-number header that is present although not needed).


class LayoutError(Exception):
    pass


def tms_parse(b: bytes) -> dict:
    n = int.from_bytes(b[:2], "big")
    body = b[2 : 2 + n]
    if len(body) != n or len(b) != n + 2 or n < 2:
        raise LayoutError("length prefix does not delimit the message")
    first = body[0]
    control, typ = (first >> 4) & 1, first & 0x0F
    pdu = {v: k for k, v in TMS_TYPES.items()}.get((control, typ))
    if pdu is None:
        raise LayoutError(f"unknown PDU type {control}/{typ:04b}")
    alen = body[1]
    i = 2 + alen
    if i > len(body):
        raise LayoutError("address longer than the message")
    out = {"pdu": pdu, "more": bool(first & 0x80), "ack": bool(first & 0x40), "reserved": bool(first & 0x20), "address": body[2:i], "capability": None, "sn": None, "encoding": 0, "message": None}
    if first & 0x80:
        if pdu == "availability":
            out["capability"] = body[i] & 3
            i += 1
        else:
            h1 = body[i]
            i += 1
            h2 = None
            if h1 & 0x80:
                h2 = body[i]
                i += 1
                if h2 & 0x80:
                    raise LayoutError("third optional header")
                out["encoding"] = h2 & 0x1F
            out["sn"] = tms_split_sn(h1, h2)
    if pdu == "text":
        out["message"] = body[i:]
    elif i != len(body):
        raise LayoutError(f"{len(body) - i} unexpected trailing octets")
    return out


def ars_parse(b: bytes) -> dict:
    n = int.from_bytes(b[:2], "big")
    body = b[2 : 2 + n]
    if len(body) != n or len(b) != n + 2 or n < 1:
        raise LayoutError("length prefix does not delimit the message")
    first = body[0]
    pdu = {v: k for k, v in ARS_TYPES.items()}.get(first & 0x0F)
    if pdu is None:
        raise LayoutError(f"unknown PDU type {first & 0x0F:04b}")
    out = {"pdu": pdu, "more": bool(first & 0x80), "ack": bool(first & 0x40), "priority": bool(first & 0x20), "control": bool(first & 0x10),
           "event": None, "encoding": None, "device": None, "user": None, "password": None, "second": None}
    i = 1
    if pdu in ("device_reg", "user_reg"):
        if out["more"]:
            out["event"], out["encoding"] = (body[i] >> 5) & 3, body[i] & 0x1F
            i += 1
        for k in ("device", "user", "password"):
            ln = body[i]
            if i + 1 + ln > len(body):
                raise LayoutError(f"{k} longer than the message")
            out[k] = body[i + 1 : i + 1 + ln].decode("utf-8")
            i += 1 + ln
    elif pdu == "response":
        if out["more"]:
            out["second"] = body[i]
            i += 1
    rest = body[i:]
    if rest not in (b"", CSBK_TRAILER):
        raise LayoutError(f"unexpected trailing octets {rest.hex()}")
    out["csbk"] = rest == CSBK_TRAILER
    return out


def _selfcheck():
    assert tms_bytes("availability", True, False, b"", capability=1) == bytes.fromhex("0003D00001")
    assert tms_bytes("ack", False, False, b"") == bytes.fromhex("00021F00")
    assert tms_bytes("ack", False, False, b"", sn=53) == bytes.fromhex("00049F009520")
    assert tms_bytes("text", True, False, b"\x01", sn=85, encoding=4, message="ahoj".encode("utf-16-le")) == bytes.fromhex("000DE0010195446100680 06F006A00".replace(" ", ""))
    assert tms_split_sn(0x95, 0x20) == 53 and tms_split_sn(0x95, 0x44) == 85
    assert ars_bytes("device_reg", True, True, True, True, event=1, device="11") == bytes.fromhex("0007F0200231310000")
    assert ars_bytes("dereg", False, False, True, True) == bytes.fromhex("000131")
    assert ars_bytes("user_reg", True, True, True, True, event=0, device="11", user="999999999") == bytes.fromhex("0010F5000231310939393939393939393900")
    assert ars_bytes("response", True, False, True, True, second=1) == bytes.fromhex("0002BF01")
    assert ars_bytes("query", False, True, True, True) == bytes.fromhex("000174")
    assert ars_bytes("response", False, False, True, True) == bytes.fromhex("00013F")
    assert ars_bytes("response", False, False, True, True, csbk=True) == bytes.fromhex("00033F1080")
    # decoders on the captured messages
    t = tms_parse(bytes.fromhex("000DE00101954461006800 6F006A00".replace(" ", "")))
    assert (t["pdu"], t["sn"], t["encoding"], t["address"], t["message"].decode("utf-16-le")) == ("text", 85, 4, b"\x01", "ahoj")
    assert tms_parse(bytes.fromhex("00049F009520"))["sn"] == 53 and tms_parse(bytes.fromhex("00021F00"))["sn"] is None
    assert tms_parse(bytes.fromhex("0003D00001"))["capability"] == 1
    a = ars_parse(bytes.fromhex("0010F5000231310939393939393939393900"))
    assert (a["pdu"], a["event"], a["device"], a["user"], a["password"], a["csbk"]) == ("user_reg", 0, "11", "999999999", "", False)
    assert ars_parse(bytes.fromhex("0007F0200231310000"))["event"] == 1
    assert ars_parse(bytes.fromhex("00033F1080"))["csbk"] is True and ars_parse(bytes.fromhex("0002BF01"))["second"] == 1


_selfcheck()
