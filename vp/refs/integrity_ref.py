"""Independent reference for the check fields of C04 (ETSI TS 102 361-1 annex B.3 CRCs, Hytera HRNP checksum) and for
the *guaranteed* error-detection set of each CRC, derived from the generator polynomial with vp.refs.gf2.

Conventions (from the standard, unit-checked against the captured vectors of the repository's tests - see
props/c04.py ``_selfcheck``; nothing is copied from the library):

* CRC-CCITT (B.3.8)  G = x^16+x^12+x^5+1, F = remainder of M(x) x^16, transmitted value = ~F xor data-type mask (B.3.12:
  data header 0xCCCC, PI header 0x6969), placed MSB first behind the 80 message bits.
* CRC-8 (B.3.7)      G = x^8+x^2+x+1, F = remainder of M(x) x^8 over the 28 short-LC bits, not inverted.  In the
  library's de-interleaved short-LC layout the eight bits are stored *least significant first* (both captured CACH
  vectors of test_vbptc_68_36 read that way).
* CRC-9 (B.3.10)     G = x^9+x^6+x^4+x^3+1, M = block data octets (a last block's 32-bit message CRC included) followed
  by the 7-bit DBSN, transmitted value = ~F xor mask (rate 1/2 0x0F0, rate 3/4 0x1FF, rate 1 0x10F); on the wire the
  block starts with DBSN(7) then the nine CRC bits *least significant first*, then the data.
* HRNP               16-bit ones-complement sum of all big-endian 16-bit words of header (checksum field excluded) and
  payload, odd length padded with a zero octet, complemented.
"""
from __future__ import annotations

from typing import Dict, List

from . import gf2

G_CCITT = 0x11021
G_CRC8 = 0x107
G_CRC9 = 0x259

MASK16 = {"data_header": 0xCCCC, "pi_header": 0x6969}
MASK9 = {"r12": 0x0F0, "r34": 0x1FF, "r1": 0x10F}
RATE_BITS = {"r12": 96, "r34": 144, "r1": 192}


def crc_ccitt(msg_bits, mask: int) -> int:
    return ((~gf2.crc_rem(msg_bits, 16, G_CCITT & 0xFFFF)) & 0xFFFF) ^ mask


def crc8(msg_bits) -> int:
    return gf2.crc_rem(msg_bits, 8, G_CRC8 & 0xFF)


def crc9(data_bits, dbsn: int, mask: int) -> int:
    """data_bits: the block's data field as transmitted (for a last block: user data followed by the 32 message-CRC
    bits)."""
    m = list(data_bits) + gf2.int_to_bits(dbsn, 7)
    return ((~gf2.crc_rem(m, 9, G_CRC9 & 0x1FF)) & 0x1FF) ^ mask


def hrnp_checksum(packet: bytes) -> int:
    """packet = complete HRNP datagram; octets 10..11 (the checksum field) do not take part."""
    data = packet[:10] + packet[12:]
    if len(data) % 2:
        data += b"\x00"
    s = 0
    for i in range(0, len(data), 2):
        s += (data[i] << 8) | data[i + 1]
    while s >> 16:
        s = (s & 0xFFFF) + (s >> 16)
    return (~s) & 0xFFFF


# ------------------------------------------------------------------------------------------ guaranteed detection


def guaranteed(g: int, n: int) -> Dict[str, int]:
    """What a CRC with generator g (degree w) is *guaranteed* to detect in a code word of n bits (message + check):
    every burst of length <= w; every single error (g has >= 2 terms); every double error when n <= ord(x mod g);
    every odd-weight error when (x+1) | g.  Returns {'w', 'burst', 'max_weight_all'} where max_weight_all is the largest
    t such that ALL patterns of weight <= t are guaranteed (1, 2 or 3)."""
    w = gf2.deg(g)
    assert g & 1 and bin(g).count("1") >= 2
    t = 1
    if n <= gf2.order_of_x(g):
        t = 2
        if gf2.polymod(g, 0b11) == 0:
            t = 3  # weight 3 is odd => caught by the (x+1) factor
    return {"w": w, "burst": w, "max_weight_all": t}


def divisible(code_positions: List[int], n: int, g: int) -> bool:
    """Is the error polynomial with ones at the given code-word positions (0 = first transmitted = highest power)
    a multiple of g, i.e. undetectable?  Used to self-check `guaranteed`."""
    e = 0
    for p in code_positions:
        e |= 1 << (n - 1 - p)
    return gf2.polymod(e, g) == 0


# ------------------------------------------------------------------------------------------ code word <-> wire layouts


def layout_ccitt96() -> List[int]:
    """data header / PI header: the 96 wire bits are the code word in order."""
    return list(range(96))


def layout_short_lc() -> List[int]:
    """code word = 28 info bits then CRC MSB..LSB; the wire (de-interleaved 36 bits) stores the CRC LSB first."""
    return list(range(28)) + [35 - k for k in range(8)]


def layout_crc9(total_bits: int) -> List[int]:
    """code word = data field (total-16 bits) | DBSN (7) | CRC-9 MSB..LSB; wire = DBSN | CRC-9 LSB-first | data."""
    d = total_bits - 16
    return [16 + i for i in range(d)] + list(range(7)) + [15 - k for k in range(9)]


# ------------------------------------------------------------------------------------------ mask / data-type confusion

# TS 102 361-1 B.3.12 "Data Type CRC Mask" (16-bit and 9-bit rows; the 24-bit RS(12,9) rows belong to C11) plus the
# pseudo-mask 0 ("no mask").  Used as a *generator aid* only: every error pattern derived from them is a non-zero burst
# no longer than the check field, i.e. inside the guaranteed detection set whatever the table says.
STANDARD_MASKS_16 = {"pi_header": 0x6969, "csbk": 0xA5A5, "mbc_header": 0xAAAA, "mbc_continuation": 0xFFFF, "data_header": 0xCCCC, "usbd": 0x3333, "none": 0x0000}
STANDARD_MASKS_9 = {"r12": 0x0F0, "r34": 0x1FF, "r1": 0x10F, "none": 0x000}
STANDARD_MASKS_8 = {"none": 0x00, "inverted": 0xFF}  # CRC-8 of the short LC carries no mask; only inversion confusion exists


def confusion_syndromes(masks: Dict[str, int]) -> Dict[int, str]:
    """{a ^ b: 'a|b'} over all pairs of distinct masks (a ^ b is symmetric, so ordered pairs collapse)."""
    out: Dict[int, str] = {}
    names = sorted(masks)
    for i, a in enumerate(names):
        for b in names[i + 1 :]:
            s = masks[a] ^ masks[b]
            if s and s not in out:
                out[s] = f"{a}|{b}"
    return out


def syndrome(code_positions: List[int], n: int, g: int) -> int:
    """e(x) mod g for the error polynomial with ones at the given code-word positions (0 = highest power)."""
    e = 0
    for p in code_positions:
        e |= 1 << (n - 1 - p)
    return gf2.polymod(e, g)


def bursts_with_syndrome(g: int, n: int, syn: int) -> List[List[int]]:
    """Every error burst of length <= deg g inside an n-bit code word whose syndrome is exactly ``syn`` (non-zero), as
    lists of code-word positions.  For every lowest exponent k there is exactly one polynomial B of degree < w with
    B(x) x^k = syn (mod g), namely syn * x^-k; it is kept when it fits into the word.  The first entry (k = 0) is the
    check-field-only pattern.  A received word c ^ e passes a check that uses mask b instead of the transmitter's a
    exactly when syndrome(e) == a ^ b."""
    w = gf2.deg(g)
    assert 0 < syn < (1 << w)
    out, seen = [], set()
    b = syn
    for k in range(n):
        if k + gf2.deg(b) <= n - 1:
            pos = tuple(sorted(n - 1 - (k + j) for j in range(w) if (b >> j) & 1))
            if pos not in seen:
                seen.add(pos)
                out.append(list(pos))
        # b := b * x^-1 mod g
        if b & 1:
            b ^= g
        b >>= 1
    return out
