#!/bin/bash
# tools/verify_benign.sh <PROP> <worktree> <id> : confirm an independently produced property-PRESERVING change and run the
# property's checks against it: they must stay quiet (exit 0).  Stored under /verif/benign/<id>/.
set -u
PROP="$1"; WT="$2"; ID="$3"
OUT="$WT/seed_out"
[ -f "$OUT/patch.diff" ] || { echo "no patch.diff in $OUT"; exit 2; }
DEMO=$(ls "$OUT"/demo*.py 2>/dev/null | head -1)
S=/tmp/verify-benign-$ID
rm -rf "$S"; mkdir -p "$S/clean" "$S/changed"
git -C /repo archive HEAD | tar -x -C "$S/clean"
git -C /repo archive HEAD | tar -x -C "$S/changed"
( cd "$S/changed" && patch -p1 -s < "$OUT/patch.diff" ) || { echo "PATCH DOES NOT APPLY"; exit 2; }
( cd "$S/changed" && PYTHONPATH="$S/changed" /venv/bin/python -m pytest -q -p no:cacheprovider --timeout=900 okdmr/tests > "$S/tests.log" 2>&1 ); T=$?
echo "tests with change: exit $T  $(tail -1 "$S/tests.log")"
DC=0; DK=0
if [ -n "$DEMO" ]; then
  ( cd "$S/changed" && PYTHONPATH="$S/changed" timeout 900 /venv/bin/python "$DEMO" >"$S/demo.changed.log" 2>&1 ); DC=$?
  ( cd "$S/clean" && PYTHONPATH="$S/clean" timeout 900 /venv/bin/python "$DEMO" >"$S/demo.clean.log" 2>&1 ); DK=$?
fi
echo "demo with change: exit $DC (want 0); on clean tree: exit $DK (want 0); changed lines: $(grep -c '^[+-][^+-]' "$OUT/patch.diff")"
if [ $T -ne 0 ]; then echo "BENIGN REJECTED (tests fail)"; exit 3; fi
mkdir -p /verif/benign/$ID
cp "$OUT/patch.diff" /verif/benign/$ID/patch.diff
[ -n "$DEMO" ] && cp "$DEMO" /verif/benign/$ID/
[ -f "$OUT/meta.json" ] && cp "$OUT/meta.json" /verif/benign/$ID/meta.agent.json
cd /verif
: > /verif/benign/$ID/check_result.txt
for P in $PROP ${EXTRA_PROPS:-}; do
  t0=$(date +%s); VP_REPO="$S/changed" ./check "$P" --tier quick > "$S/check.$P.log" 2>&1; RC=$?; t1=$(date +%s)
  echo "check $P --tier quick on benign tree: exit $RC in $((t1-t0))s; $(grep -c '^VIOLATION' "$S/check.$P.log") VIOLATION, $(grep -c 'HARNESS' "$S/check.$P.log") HARNESS lines"
  echo "$P quick rc=$RC secs=$((t1-t0))" >> /verif/benign/$ID/check_result.txt
  if [ $RC -ne 0 ]; then grep -E -A6 '^VIOLATION|HARNESS' "$S/check.$P.log" | head -60 | tee -a /verif/benign/$ID/check_result.txt; fi
done
echo "scratch left in $S"
