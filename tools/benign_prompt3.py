#!/usr/bin/env python3
"""Round B3 of the false-alarm hunt: property-preserving patches that introduce *correct* shared state (the mirror image of
seeded round 7).  Prints tools/benign_prompt2.py's prompt with the flavour of this round appended."""
import subprocess, sys
pid, wt = sys.argv[1], sys.argv[2]
base = subprocess.run(["python3", "/verif/tools/benign_prompt2.py", pid, wt], capture_output=True, text=True, check=True).stdout
flavour = """

FLAVOUR OF THIS ROUND (takes precedence over the list of kinds of change above): concentrate on performance, resource and
robustness work that introduces shared or long-lived state into the code this property is anchored in - and gets it RIGHT:
  * memoisation / `functools.lru_cache` / class-level dict caches whose keys capture EVERY input that matters (class or code
    identity, lengths, widths, endianness, signedness, token type, data type, flags) and whose values are immutable or copied on
    the way out;
  * interning / object pools / prototype objects that are deep-copied or rebuilt before a caller can see them;
  * class-level or module-level scratch buffers, registers and state machines shared between calls or between encoder and decoder
    that are re-initialised at entry (or in try/finally) so that no call - including one that is refused half-way - leaves anything
    behind for the next;
  * lazily built lookup tables shared by sibling classes with class-qualified keys; tables precomputed at import;
  * enum members / singletons carrying cached derived data that does not depend on what was decoded before;
  * returned constants made immutable or shared ONLY where no test and nothing in the statement needs a fresh mutable object
    (if in doubt return a copy);
  * `__slots__`, generators replaced by lists (or the reverse) where they are consumed once, single-pass parsing, early exits whose
    guard is exactly equivalent to the slow path;
  * exception-safety improvements: state changed only after the last point of failure, observers / callbacks / transports whose
    failure is isolated and logged with arguments that cannot themselves fail.
Make at least six such edits across at least three functions.  The patch must be one that careful reviewers accept: for every cache
say in meta.json why its key is complete and why sharing is safe; for every shared buffer say where it is reset.  Then try to break
your own patch with histories: interleave different codes / PDU families / peers / directions (encode after decode), repeat calls,
keep earlier results alive and re-serialise them after later calls, feed rightly refused inputs (wrong types, wrong lengths, values
out of range) between valid calls, mutate returned containers and call again - your demo must run such histories and compare every
result with the same call made in a fresh interpreter (use `subprocess` for the fresh results, or compute them independently)."""
print(base.rstrip() + flavour)
