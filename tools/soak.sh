#!/bin/bash
# tools/soak.sh <tier> <seed-list> [props...] : runs checks on /repo at several seeds; any non-zero exit is reported.
# Development aid to make sure checks stay quiet on the unchanged tree (false-alarm hunting). Evidence goes to a scratch dir.
TIER="$1"; SEEDS="$2"; shift 2
PROPS="${*:-$(python3 -c "import json;print(' '.join(c['property_id'] for c in json.load(open('MANIFEST.json'))['checks']))")}"
export VP_EVIDENCE_DIR=${VP_EVIDENCE_DIR:-/tmp/vp-soak-evidence}
mkdir -p "$VP_EVIDENCE_DIR"
for s in $SEEDS; do for p in $PROPS; do
  t0=$(date +%s); OUT=$(VERIF_SEED=$s ./check $p --tier $TIER 2>&1); rc=$?; t1=$(date +%s)
  echo "seed=$s $p rc=$rc $((t1-t0))s $(echo "$OUT" | tail -1 | cut -c1-160)"
  if [ $rc -ne 0 ]; then echo "$OUT" | grep -E -A5 "^VIOLATION|HARNESS" | head -40; fi
done; done
