#!/usr/bin/env python3
"""Prints the prompt for an independent 'seeded change' agent: only the property text and a scratch worktree path."""
import json, sys
pid, wt = sys.argv[1], sys.argv[2]
extra = sys.argv[3] if len(sys.argv) > 3 else ""
p = [json.loads(l) for l in open('/verif/properties.jsonl') if json.loads(l)['id'] == pid][0]
print(f"""You are given a scratch git worktree of the Python library OK-DMR/ok-dmrlib (pure-Python DMR / ETSI TS 102 361 library) at {wt} (detached HEAD; work ONLY inside this directory; never touch /repo or /verif and do not read anything under /verif).

Run the library and its tests from the worktree like this (PYTHONPATH makes Python import the worktree's code, not the installed copy):
  cd {wt} && PYTHONPATH={wt} /venv/bin/python -m pytest -q -p no:cacheprovider --timeout=900
(204 tests pass on the unmodified worktree in a few seconds; confirm `PYTHONPATH={wt} /venv/bin/python -c "import okdmr.dmrlib; print(okdmr.dmrlib.__path__)"` shows the worktree.)

Here is a semantic property of this library that is supposed to hold for every input / history, not just the handful the unit tests sample:

  id: {p['id']}
  title: {p['title']}
  statement: {p['statement']}
  quantifier: {p['quantifier']['text']}
  code it is anchored in: {', '.join(p['anchors']['files'])}
  mechanisms: {'; '.join(m['name'] + ' (' + m.get('where','') + ')' for m in p['anchors']['mechanism'])}

Your task: produce ONE realistic change to the library's source (not to its tests) that BREAKS this property while the code still imports/compiles and the existing test suite (all 204 tests, unedited) still passes.  The change should look like a plausible bug a maintainer could introduce (a refactoring slip, an off-by-one, a wrong mask/offset, a missed case, a cache, a reordered statement) – not sabotage that ordinary use would expose at once.  Prefer changes that need something SPECIFIC to manifest: an unusual input (a particular length, boundary value, bit pattern, rarely used opcode/variant), a multi-step sequence of operations, or two cooperating sites that each look fine alone.  It must genuinely violate the property as stated (read the statement literally), on inputs inside the property's stated domain. {extra}

Deliverables, all inside {wt}/seed_out/ (create it):
  1. patch.diff – `git diff` of your source change (relative to the worktree root; must apply with `git apply` to a clean checkout of the same commit).  Source change only – the demonstration is not part of the diff.
  2. demo.py – a small standalone program (or pytest file demo_test.py) that exercises the library through its public API and exits non-zero / fails WITH your change and exits 0 / passes WITHOUT it (on the clean commit).  It must check the property itself (e.g. a round trip or a comparison with a value computed independently), not merely compare against a hard-coded output of the old code.
  3. meta.json – {{"property": "{p['id']}", "summary": "<one sentence: what the change does>", "needs": "<what is needed for the violation to manifest: which inputs / sequence / sites>", "files_changed": [...], "commands_run": ["..."], "tests_pass_with_change": true}}

Verify everything yourself before finishing: (a) with the change applied the full test suite passes (204 passed); (b) demo fails with the change; (c) revert the change with `git apply -R seed_out/patch.diff` (do NOT use `git stash`: the stash is shared between all worktrees of this repository and other agents are working in sibling worktrees) → demo passes; then re-apply it with `git apply seed_out/patch.diff` so the worktree ends in the changed state, with seed_out/ present.  Do not commit.  In your final message report the summary, what it needs to manifest, and the exact commands you ran with their outcomes.""")
