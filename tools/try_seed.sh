#!/bin/bash
# tools/try_seed.sh <seed-id> [extra ./check args] : quick look - run the property's quick check against a stored seeded change
# (scratch export of /repo HEAD + patch, removed afterwards); prints exit code and the first VIOLATION lines. Records nothing.
ID="$1"; shift; P="${ID%%-*}"
S=/tmp/try-seed-$ID-$$
rm -rf "$S"; mkdir -p "$S"
git -C /repo archive HEAD | tar -x -C "$S"
( cd "$S" && patch -p1 -s < /verif/seeded/$ID/patch.diff ) || { echo "PATCH DOES NOT APPLY"; rm -rf "$S"; exit 2; }
cd /verif
t0=$(date +%s); VP_REPO="$S" VP_EVIDENCE_DIR="$S" ./check "$P" --tier quick "$@" > "$S.log" 2>&1; RC=$?; t1=$(date +%s)
echo "$ID: exit $RC in $((t1-t0))s; $(grep -c '^VIOLATION' "$S.log") VIOLATION lines; stderr-ish lines: $(grep -c 'Traceback' "$S.log")"
grep -A2 '^VIOLATION' "$S.log" | cut -c1-260 | head -${TRY_LINES:-6}
grep -E "HARNESS|harness" "$S.log" | head -3
rm -rf "$S" "$S.log"
exit $RC
