#!/usr/bin/env python3
"""tools/seed_round.py <PROP> <worktree> <flavour-file> : prompt for one seeding agent of a later round.
Adds to tools/seed_prompt.py (a) the flavour of the round and (b) one line per idea already used for this property in
earlier rounds (from seeded/<PROP>-*/meta.json summaries) so that the agent produces something new.  The agent still
gets nothing from /verif itself: the summaries describe earlier *changes to the library*, not checks."""
import glob, json, subprocess, sys

pid, wt, flavour = sys.argv[1], sys.argv[2], open(sys.argv[3]).read().strip()
used = []
for f in sorted(glob.glob(f"/verif/seeded/{pid}-*/meta.json")):
    m = json.load(open(f))
    s = " ".join((m.get("summary") or "").split())
    n = " ".join((m.get("needs_to_manifest") or m.get("needs") or "").split())
    used.append(f"  - {s[:260]} [needed: {n[:160]}]")
extra = (
    flavour
    + "\n\nIdeas ALREADY USED for this property by earlier agents - do not repeat them or close variants of them "
    "(same site and same kind of trigger); find a different mechanism and a different kind of trigger:\n"
    + "\n".join(used)
)
out = subprocess.run(
    ["/usr/bin/env", "python3", "/verif/tools/seed_prompt.py", pid, wt, extra], capture_output=True, text=True, check=True
).stdout
print(out)
