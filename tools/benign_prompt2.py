#!/usr/bin/env python3
"""Prints the prompt for an independent 'benign change' agent: a realistic change that does NOT break the property.
Used to hunt false alarms of the checks (a check must stay quiet on code where the property holds)."""
import json, sys
pid, wt = sys.argv[1], sys.argv[2]
p = [json.loads(l) for l in open('/verif/properties.jsonl') if json.loads(l)['id'] == pid][0]
print(f"""You are given a scratch git worktree of the Python library OK-DMR/ok-dmrlib (pure-Python DMR / ETSI TS 102 361 library) at {wt} (detached HEAD; work ONLY inside this directory; never touch /repo or /verif and do not read anything under /verif).

Run the library and its tests from the worktree like this (PYTHONPATH makes Python import the worktree's code, not the installed copy):
  cd {wt} && PYTHONPATH={wt} /venv/bin/python -m pytest -q -p no:cacheprovider --timeout=900
(204 tests pass on the unmodified worktree in a few seconds; confirm `PYTHONPATH={wt} /venv/bin/python -c "import okdmr.dmrlib; print(okdmr.dmrlib.__path__)"` shows the worktree.)

Here is a semantic property of this library that holds today for every input / history:

  id: {p['id']}
  title: {p['title']}
  statement: {p['statement']}
  quantifier: {p['quantifier']['text']}
  code it is anchored in: {', '.join(p['anchors']['files'])}
  mechanisms: {'; '.join(m['name'] + ' (' + m.get('where','') + ')' for m in p['anchors']['mechanism'])}

Your task is the OPPOSITE of bug seeding: produce a substantial, realistic set of maintainer-style changes to the library's SOURCE (not its tests), concentrated in the code this property is anchored in, that DO change observable behaviour of the library - but ONLY behaviour the property statement leaves UNCONSTRAINED - so that the property STILL HOLDS exactly as stated (read the statement literally, clause by clause) and the existing test suite (all 204 tests, unedited) still passes.  The purpose is to find out whether an automated checker of this property raises FALSE ALARMS because it demands more than the statement says, so aim at everything a checker might wrongly have pinned down.  Apply SEVERAL of the following in one patch (aim for 5-10 distinct edits, 60-300 changed lines):
  * behaviour for inputs OUTSIDE the stated domain (other lengths, out-of-range field values, other types, malformed input where the statement only speaks about well-formed input): reject earlier / later, with a different exception type, normalise instead of rejecting, or accept more;
  * where the statement permits more than one outcome ("either raises ... or yields ...", "reserved member or an error", "indicator false or a decode error", "rejected"), switch in-domain cases from one permitted outcome to another permitted outcome, or raise a different but equally permitted exception (e.g. a subclass, or another of the documented errors);
  * values the statement does not mention: identifiers / uuids / names / timestamps / random ids chosen by the library, default values of optional fields nobody in the statement's domain relies on, contents of padding or reserved areas ONLY where the statement leaves them free, repr/str/debug output, log records, exception messages, return values of helpers whose results the statement does not talk about, order of independent side effects that the statement does not order;
  * new features: implement additional variants / opcodes / elements / options that raised NotImplementedError before (so that they now round-trip), add new public methods, attributes, optional parameters (defaults keep old behaviour), extra notifications or callbacks that are not among those the statement counts, extra fields on emitted objects;
  * performance work with visible side effects that the statement allows: lazily built tables, caches that are safe (keys capture all inputs, values immutable or copied), fewer / more internal calls, different internal types returned where an equal value of a compatible type satisfies the statement (tuple vs list, bool vs numpy bool, bytes vs bytearray) ONLY if the existing tests still pass.
Do NOT change anything the statement itself fixes for inputs inside its stated domain.  For each edit, write down in meta.json which clause of the statement could be thought to cover it and why it does not.  Be careful: the result must be CORRECT - you must convince yourself, by your own checking program, that the property still holds after your change; if in doubt about whether the statement constrains something, leave it alone.

Deliverables, all inside {wt}/seed_out/ (create it):
  1. patch.diff - `git diff` of your source changes (relative to the worktree root; must apply with `git apply` to a clean checkout of the same commit).
  2. demo.py - a standalone program that checks the property itself through the public API on a meaningful sample (round trips / comparison with independently computed values / model comparison as appropriate) and exits 0 both WITH your change and WITHOUT it (on the clean commit).
  3. meta.json - {{"property": "{p['id']}", "kind": "benign", "summary": "<what you changed, one line per edit>", "why_property_still_holds": "<short argument>", "files_changed": [...], "commands_run": ["..."], "tests_pass_with_change": true}}

Verify everything yourself before finishing: (a) with the change applied the full test suite passes (204 passed); (b) demo passes with the change; (c) revert with `git apply -R seed_out/patch.diff` (do NOT use `git stash`: it is shared between worktrees) -> demo passes; re-apply with `git apply seed_out/patch.diff` so the worktree ends in the changed state, with seed_out/ present.  Do not commit.  Keep every message you write short (well under 2000 words; write long data to files).  In your final message list the edits briefly and the exact commands you ran with their outcomes.""")
