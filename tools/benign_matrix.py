#!/usr/bin/env python3
"""tools/benign_matrix.py [ids...] : run every RELEVANT check against every stored benign (property-preserving) change.
Relevant = the property's anchored files (properties.jsonl) intersect the files the patch touches, plus C19 always, plus
checks that are known to exercise the touched modules transitively (coarse directory match).  A non-zero exit of any check
on a benign tree is a false alarm (or a harness fragility) to be fixed in the check.  Writes benign/matrix.json."""
import glob, json, os, re, shutil, subprocess, sys, time

props = [json.loads(l) for l in open('/verif/properties.jsonl')]
anchors = {p['id']: [f.rstrip('/') for f in p['anchors']['files']] for p in props}
ids = sys.argv[1:] or sorted(os.path.basename(d) for d in glob.glob('/verif/benign/C*-B*'))
out_path = '/verif/benign/matrix.json'
res = json.load(open(out_path)) if os.path.exists(out_path) else {}
for bid in ids:
    patch = f'/verif/benign/{bid}/patch.diff'
    files = sorted(set(re.findall(r'^\+\+\+ b/(\S+)', open(patch).read(), re.M)))
    dirs = {os.path.dirname(f) for f in files}
    rel = []
    for pid, fl in anchors.items():
        hit = any(f == a or f.startswith(a + '/') for f in files for a in fl) or any(os.path.dirname(a) in dirs or a in dirs for a in fl)
        if hit or pid == 'C19':
            rel.append(pid)
    S = f'/tmp/benign-matrix-{bid}'
    shutil.rmtree(S, ignore_errors=True); os.makedirs(S)
    subprocess.run(f'git -C /repo archive HEAD | tar -x -C {S}', shell=True, check=True)
    r = subprocess.run(f'patch -p1 -s < {patch}', shell=True, cwd=S)
    if r.returncode != 0:
        res[bid] = {'error': 'patch does not apply'}; continue
    row = {}
    for pid in sorted(rel):
        t0 = time.time()
        p = subprocess.run(['./check', pid, '--tier', 'quick'], cwd='/verif', env=dict(os.environ, VP_REPO=S), capture_output=True, text=True)
        row[pid] = {'rc': p.returncode, 'wall_s': round(time.time() - t0, 1)}
        if p.returncode != 0:
            row[pid]['detail'] = [l[:300] for l in p.stdout.splitlines() if re.match(r'^(VIOLATION|HARNESS|  subcheck|  observed)', l)][:12]
        print(bid, pid, row[pid]['rc'], row[pid]['wall_s'], flush=True)
    res[bid] = {'files': files, 'checks': row}
    shutil.rmtree(S, ignore_errors=True)
    json.dump(res, open(out_path, 'w'), indent=1, sort_keys=True)
bad = [(b, p) for b, v in res.items() for p, r in v.get('checks', {}).items() if r['rc'] != 0]
print('NON-ZERO:', bad)
