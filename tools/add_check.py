#!/usr/bin/env python3
"""tools/add_check.py Cxx category 'technique' 'text' 'note'  -> updates tools/checks.json and regenerates MANIFEST.json"""
import json, os, subprocess, sys
HERE = os.path.dirname(os.path.dirname(os.path.abspath(__file__)))
pid, cat, tech, text, note = sys.argv[1:6]
p = os.path.join(HERE, "tools", "checks.json")
d = json.load(open(p))
d[pid] = {"category": cat, "technique": tech, "text": text, "note": note}
json.dump(dict(sorted(d.items())), open(p, "w"), indent=1)
subprocess.check_call([sys.executable, os.path.join(HERE, "tools", "gen_manifest.py")])
