#!/bin/bash
# tools/benign2_done.sh Cxx [extra props...] : verify a finished round-2 benign worktree, record, remove worktree
P=$1; shift
EXTRA_PROPS="$*" /verif/tools/verify_benign.sh $P /tmp/benign2-$P $P-B2 2>&1 | tail -12
rm -rf /tmp/verify-benign-$P-B2
