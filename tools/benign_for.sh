#!/bin/bash
# tools/benign_for.sh <PROP> [tier] : run one property's check against every stored benign (property-preserving) patch that
# is relevant to it according to benign/matrix.json; every run must exit 0 (known exceptions: see DESIGN section 11).
P="$1"; TIER="${2:-quick}"
IDS=$(/venv/bin/python - "$P" <<'PY'
import json,sys
m=json.load(open('/verif/benign/matrix.json'))
print(' '.join(sorted(b for b,v in m.items() if sys.argv[1] in v.get('checks',{}))))
PY
)
for ID in $IDS; do
  S=/tmp/benign-for-$P-$ID-$$
  rm -rf "$S"; mkdir -p "$S"; git -C /repo archive HEAD | tar -x -C "$S"
  ( cd "$S" && patch -p1 -s < /verif/benign/$ID/patch.diff ) || { echo "$ID: patch does not apply"; rm -rf "$S"; continue; }
  ( cd /verif && VP_REPO="$S" ./check "$P" --tier "$TIER" > "$S.log" 2>&1 ); RC=$?
  echo "$ID $P $TIER rc=$RC $(grep -m1 -E 'subcheck=|HARNESS' "$S.log" | cut -c1-200)"
  rm -rf "$S" "$S.log"
done
