#!/bin/bash
# tools/recheck_seed.sh <seed-id> : re-run the property's check against a stored seeded change (after strengthening a check)
ID="$1"; P="${ID%%-*}"
S=/tmp/recheck-seed-$ID
rm -rf "$S"; mkdir -p "$S"
git -C /repo archive HEAD | tar -x -C "$S"
( cd "$S" && patch -p1 -s < /verif/seeded/$ID/patch.diff ) || { echo "PATCH DOES NOT APPLY to current /repo HEAD"; rm -rf "$S"; exit 2; }
cd /verif
echo "recheck at /verif commit $(git rev-parse --short HEAD)+wip" >> seeded/$ID/check_result.txt
for tier in quick thorough; do
  t0=$(date +%s); VP_REPO="$S" ./check "$P" --tier $tier > "$S/../recheck-$ID.$tier.log" 2>&1; RC=$?; t1=$(date +%s)
  echo "check $P --tier $tier on changed tree: exit $RC in $((t1-t0))s"
  echo "recheck $tier rc=$RC secs=$((t1-t0))" >> seeded/$ID/check_result.txt
  grep -A1 '^VIOLATION' "$S/../recheck-$ID.$tier.log" | head -4 | tee -a seeded/$ID/check_result.txt
  [ $RC -eq 1 ] && break
done
rm -rf "$S" /tmp/recheck-$ID.*.log
python3 - "$ID" <<'PY'
import json,re,sys
sid=sys.argv[1]; d=f"/verif/seeded/{sid}"
m=json.load(open(d+"/meta.json"))
res=open(d+"/check_result.txt").read()
parts=res.split("recheck at")
first=m.get("detected_by_first_run", m["detected_by"])
m["detected_by_first_run"]=first
last=parts[-1]
t=re.findall(r"recheck (quick|thorough) rc=(\d+) secs=(\d+)", last)
caught=[x for x in t if x[1]=="1"]
cl=(re.findall(r"subcheck=\S+ clause=\S+", last) or [""])[0]
prop=sid.split("-")[0]
m["detected_by"]=(f"./check {prop} --tier {caught[0][0]}  ({cl}) [after strengthening the check; first run: {first}]" if caught else "NOT DETECTED (also after strengthening)")
m.setdefault("check_results",[]).extend({"tier":a,"exit":int(b),"wall_s":int(c),"phase":"after strengthening"} for a,b,c in t)
json.dump(m,open(d+"/meta.json","w"),indent=1)
print(sid, m["detected_by"])
PY
