#!/bin/bash
# tools/first_run_at.sh <verif-commit> <round> [props...] : what the checks AS COMMITTED at <verif-commit> say about the seeded
# changes of a round (quick tier).  Uses a scratch worktree of /verif at that commit and a scratch export of /repo HEAD + patch
# per seed; removes both.  Prints one line per seed and writes seeded/<id>/first_run.txt.
C="$1"; R="$2"; shift 2
PROPS="${*:-$(for i in $(seq -w 1 20); do echo C$i; done)}"
W=/tmp/verif-at-$C
git -C /verif worktree remove --force "$W" 2>/dev/null; git -C /verif worktree add --detach "$W" "$C" -q || exit 2
for P in $PROPS; do
  ID=$P-$R; [ -f /verif/seeded/$ID/patch.diff ] || continue
  S=/tmp/first-run-$ID; rm -rf "$S"; mkdir -p "$S"
  git -C /repo archive HEAD | tar -x -C "$S"
  ( cd "$S" && patch -p1 -s < /verif/seeded/$ID/patch.diff ) || { echo "$ID PATCH DOES NOT APPLY"; rm -rf "$S"; continue; }
  t0=$(date +%s); ( cd "$W" && VP_REPO="$S" VP_EVIDENCE_DIR="$S" ./check "$P" --tier quick > "$S.log" 2>&1 ); RC=$?; t1=$(date +%s)
  L="$ID at $C: exit $RC in $((t1-t0))s $(grep -m1 -o 'subcheck=[^ ]* clause=[^ ]*' "$S.log")"
  echo "$L"; echo "$L" > /verif/seeded/$ID/first_run.txt
  rm -rf "$S" "$S.log"
done
git -C /verif worktree remove --force "$W"
